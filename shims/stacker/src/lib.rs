//! Stand-in for the `stacker` crate used only in the Miri lane: `remaining_stack` cannot be
//! interpreted (psm assembly + pthread_getattr_np), so it reports "unknown", which sends candid
//! down its documented fallback (a conservative depth limit of 512).
pub fn remaining_stack() -> Option<usize> {
    None
}
pub fn maybe_grow<R, F: FnOnce() -> R>(_red_zone: usize, _stack_size: usize, callback: F) -> R {
    callback()
}
pub fn grow<R, F: FnOnce() -> R>(_stack_size: usize, callback: F) -> R {
    callback()
}
