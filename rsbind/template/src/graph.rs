//! Probe helper of the generated C18 crate: prints the Candid type the derive macro computes for a
//! Rust type as a JSON type graph (same format as js/idl_recorder.mjs):
//!   {"prog":k,"item":"def:3","graph":{"nodes":[…],"roots":[0]}}   or   {"prog":k,"item":…,"error":"…"}
//! The walk uses only candid's public type representation (no printer, no parser).
use candid::types::internal::{find_type, TypeId};
use candid::types::{FuncMode, Type, TypeInner};
use candid::CandidType;
use std::collections::HashMap;

const MAX_NODES: usize = 200_000;

fn json_str(s: &str) -> String {
    let mut o = String::from("\"");
    for c in s.chars() {
        match c {
            '"' => o.push_str("\\\""),
            '\\' => o.push_str("\\\\"),
            c if (c as u32) < 0x20 => o.push_str(&format!("\\u{:04x}", c as u32)),
            c => o.push(c),
        }
    }
    o.push('"');
    o
}

struct W {
    nodes: Vec<String>,
    knots: HashMap<TypeId, usize>,
}

impl W {
    fn push(&mut self, s: String) -> Result<usize, String> {
        if self.nodes.len() >= MAX_NODES {
            return Err("too-big".to_string());
        }
        self.nodes.push(s);
        Ok(self.nodes.len() - 1)
    }
    fn prim(&mut self, k: &str) -> Result<usize, String> {
        self.push(format!("{{\"k\":\"{k}\"}}"))
    }
    fn list(&mut self, ts: &[Type]) -> Result<String, String> {
        let mut v = Vec::new();
        for t in ts {
            v.push(self.ty(t)?.to_string());
        }
        Ok(format!("[{}]", v.join(",")))
    }
    fn ty(&mut self, t: &Type) -> Result<usize, String> {
        use TypeInner::*;
        match t.as_ref() {
            Null => self.prim("null"),
            Bool => self.prim("bool"),
            Nat => self.prim("nat"),
            Int => self.prim("int"),
            Nat8 => self.prim("nat8"),
            Nat16 => self.prim("nat16"),
            Nat32 => self.prim("nat32"),
            Nat64 => self.prim("nat64"),
            Int8 => self.prim("int8"),
            Int16 => self.prim("int16"),
            Int32 => self.prim("int32"),
            Int64 => self.prim("int64"),
            Float32 => self.prim("float32"),
            Float64 => self.prim("float64"),
            Text => self.prim("text"),
            Reserved => self.prim("reserved"),
            Empty => self.prim("empty"),
            Principal => self.prim("principal"),
            Opt(t) => {
                let i = self.push(String::new())?;
                let c = self.ty(t)?;
                self.nodes[i] = format!("{{\"k\":\"opt\",\"t\":{c}}}");
                Ok(i)
            }
            Vec(t) => {
                let i = self.push(String::new())?;
                let c = self.ty(t)?;
                self.nodes[i] = format!("{{\"k\":\"vec\",\"t\":{c}}}");
                Ok(i)
            }
            Record(fs) | Variant(fs) => {
                let i = self.push(String::new())?;
                let mut v = std::vec::Vec::new();
                for f in fs {
                    let c = self.ty(&f.ty)?;
                    v.push(format!("[{},{}]", f.id.get_id(), c));
                }
                let k = if matches!(t.as_ref(), Record(_)) { "record" } else { "variant" };
                self.nodes[i] = format!("{{\"k\":\"{k}\",\"f\":[{}]}}", v.join(","));
                Ok(i)
            }
            Func(f) => {
                let i = self.push(String::new())?;
                let a = self.list(&f.args)?;
                let r = self.list(&f.rets)?;
                let m: std::vec::Vec<&str> = f
                    .modes
                    .iter()
                    .map(|m| match m {
                        FuncMode::Query => "\"query\"",
                        FuncMode::Oneway => "\"oneway\"",
                        FuncMode::CompositeQuery => "\"composite_query\"",
                    })
                    .collect();
                self.nodes[i] = format!("{{\"k\":\"func\",\"a\":{a},\"r\":{r},\"m\":[{}]}}", m.join(","));
                Ok(i)
            }
            Service(ms) => {
                let i = self.push(String::new())?;
                let mut v = std::vec::Vec::new();
                for (n, t) in ms {
                    let c = self.ty(t)?;
                    v.push(format!("[{},{}]", json_str(n), c));
                }
                self.nodes[i] = format!("{{\"k\":\"service\",\"m\":[{}]}}", v.join(","));
                Ok(i)
            }
            Knot(id) => {
                if let Some(i) = self.knots.get(id) {
                    return Ok(*i);
                }
                let i = self.push(String::new())?;
                self.knots.insert(id.clone(), i);
                let body = find_type(id).ok_or_else(|| "knot-not-in-memo".to_string())?;
                let c = self.ty(&body)?;
                self.nodes[i] = format!("{{\"k\":\"rec\",\"t\":{c}}}");
                Ok(i)
            }
            Var(v) => Err(format!("unexpected-var:{v}")),
            Unknown => Err("unknown-type".to_string()),
            Class(_, _) => Err("class-type".to_string()),
            Future => Err("future-type".to_string()),
        }
    }
}

pub fn emit<T: CandidType>(out: &mut std::vec::Vec<String>, prog: usize, item: &str) {
    let r = std::panic::catch_unwind(|| {
        let t = T::ty();
        let mut w = W {
            nodes: std::vec::Vec::new(),
            knots: HashMap::new(),
        };
        w.ty(&t).map(|root| format!("{{\"nodes\":[{}],\"roots\":[{root}]}}", w.nodes.join(",")))
    });
    let line = match r {
        Ok(Ok(g)) => format!("{{\"prog\":{prog},\"item\":{},\"graph\":{g}}}", json_str(item)),
        Ok(Err(e)) => format!("{{\"prog\":{prog},\"item\":{},\"error\":{}}}", json_str(item), json_str(&e)),
        Err(_) => format!("{{\"prog\":{prog},\"item\":{},\"error\":\"panic\"}}", json_str(item)),
    };
    out.push(line);
}
