// Recording IDL builder for C17/C19.
//
// `makeIDL()` returns a fresh `IDL` object whose constructors build a type graph instead of
// codecs. The shapes follow the public constructor surface of the @dfinity/candid (`IDL`)
// JavaScript library as far as the *generated binding* uses it:
//   IDL.Null … IDL.Principal (constants), IDL.Opt(t), IDL.Vec(t), IDL.Record({k:t}),
//   IDL.Tuple(...ts), IDL.Variant({k:t}), IDL.Func(args, rets, annotations),
//   IDL.Service({name:func}), IDL.Rec() with .fill(t) / .getType().
// Object keys are turned into field ids exactly like the library does (idlLabelToId):
// `_N_` (N decimal, < 2^32) is the id N, any other key is hashed with the Candid hash of its
// UTF-8 bytes. Fields are read with Object.entries like the library does, so keys that JavaScript
// itself treats specially (`__proto__` in an object literal, integer-like keys) behave as they
// would for a real consumer.
//
// serialize(roots) -> { nodes: [...], roots: [ids] }:
//   {k:"nat"} … prims     {k:"opt",t:id} {k:"vec",t:id}
//   {k:"record",f:[[fieldId,id],…]} (sorted by field id, duplicates kept)  {k:"variant",f:[…]}
//   {k:"func",a:[ids],r:[ids],m:[strings]}   {k:"service",m:[[name,id],…]}   {k:"rec",t:id|null}

const PRIMS = [
  'Null', 'Bool', 'Nat', 'Int', 'Nat8', 'Nat16', 'Nat32', 'Nat64', 'Int8', 'Int16', 'Int32', 'Int64',
  'Float32', 'Float64', 'Text', 'Reserved', 'Empty', 'Principal',
];

export function idlHash(s) {
  const array = new TextEncoder().encode(s);
  let h = 0;
  for (const c of array) {
    h = (h * 223 + c) % 2 ** 32;
  }
  return h;
}

export function idlLabelToId(label) {
  if (/^_\d+_$/.test(label)) {
    const num = +label.slice(1, -1);
    if (Number.isSafeInteger(num) && num >= 0 && num < 2 ** 32) {
      return num;
    }
  }
  return idlHash(label);
}

class RecorderError extends TypeError {
  constructor(msg) {
    super(msg);
    this.name = 'RecorderTypeError';
  }
}

export function makeIDL() {
  let counter = 0;
  class Node {
    constructor(k, extra) {
      this.id = counter++;
      this.k = k;
      Object.assign(this, extra);
    }
  }
  const isType = (t) => t instanceof Node;
  const need = (t, where) => {
    if (!isType(t)) {
      throw new RecorderError(`${where}: argument is not an IDL type (${t === undefined ? 'undefined' : typeof t})`);
    }
    return t;
  };
  const needArray = (a, where) => {
    if (!Array.isArray(a)) {
      throw new RecorderError(`${where}: expected an array`);
    }
    return a.map((t, i) => need(t, `${where}[${i}]`));
  };
  const fields = (obj, where) => {
    if (obj === null || typeof obj !== 'object') {
      throw new RecorderError(`${where}: expected an object of fields`);
    }
    const es = Object.entries(obj).map(([key, t]) => [idlLabelToId(key), need(t, `${where}.${JSON.stringify(key)}`), key]);
    // stable sort by id, as the library does
    es.sort((a, b) => a[0] - b[0]);
    return es;
  };

  const IDL = {};
  for (const p of PRIMS) {
    IDL[p] = new Node(p.toLowerCase());
  }
  IDL.Opt = (t) => new Node('opt', { t: need(t, 'IDL.Opt') });
  IDL.Vec = (t) => new Node('vec', { t: need(t, 'IDL.Vec') });
  IDL.Record = (obj) => new Node('record', { f: fields(obj, 'IDL.Record') });
  IDL.Variant = (obj) => new Node('variant', { f: fields(obj, 'IDL.Variant') });
  IDL.Tuple = (...ts) => {
    const x = {};
    ts.forEach((t, i) => {
      x['_' + i + '_'] = t;
    });
    return new Node('record', { f: fields(x, 'IDL.Tuple') });
  };
  IDL.Func = (args, rets, annotations = []) => {
    if (!Array.isArray(annotations) || annotations.some((m) => typeof m !== 'string')) {
      throw new RecorderError('IDL.Func: annotations must be an array of strings');
    }
    return new Node('func', {
      a: needArray(args, 'IDL.Func args'),
      r: needArray(rets, 'IDL.Func rets'),
      m: annotations.slice(),
    });
  };
  IDL.Service = (obj) => {
    if (obj === null || typeof obj !== 'object') {
      throw new RecorderError('IDL.Service: expected an object of methods');
    }
    const ms = Object.entries(obj).map(([name, t]) => [name, need(t, `IDL.Service.${JSON.stringify(name)}`)]);
    return new Node('service', { m: ms });
  };
  IDL.Rec = () => {
    const n = new Node('rec', { t: null });
    n.fill = (t) => {
      n.t = need(t, 'Rec.fill');
    };
    n.getType = () => {
      if (n.t === null) {
        throw new RecorderError('Rec.getType: recursive type uninitialized');
      }
      return n.t;
    };
    return n;
  };
  // any other member (e.g. IDL.Foo) is undefined, as in the library

  function serialize(roots) {
    const index = new Map();
    const nodes = [];
    const visit = (n, where) => {
      need(n, where);
      if (index.has(n)) return index.get(n);
      const i = nodes.length;
      index.set(n, i);
      const out = { k: n.k };
      nodes.push(out);
      switch (n.k) {
        case 'opt':
        case 'vec':
          out.t = visit(n.t, where);
          break;
        case 'record':
        case 'variant':
          out.f = n.f.map(([id, t]) => [id, visit(t, where)]);
          break;
        case 'func':
          out.a = n.a.map((t) => visit(t, where));
          out.r = n.r.map((t) => visit(t, where));
          out.m = n.m;
          break;
        case 'service':
          out.m = n.m.map(([name, t]) => [name, visit(t, where)]);
          break;
        case 'rec':
          out.t = n.t === null ? null : visit(n.t, where);
          break;
        default:
          break;
      }
      return i;
    };
    const rs = roots.map((r, i) => visit(r, `result[${i}]`));
    return { nodes, roots: rs };
  }
  return { IDL, serialize, isType };
}
