// node run_batch.mjs <dir>
// Imports every *.mjs module of <dir> (ES module semantics, hence strict mode, like a real
// consumer of a generated binding) and evaluates its factories against the recording IDL.
// Prints one JSON line per module:
//   {file, ok:true, service:{nodes,roots}|null, init:{nodes,roots}|null, defs:true|undefined}
//   {file, ok:false, stage:"import"|"idlFactory"|"init"|"defs", error:{name,message}}
// A module exporting `idlFactory`/`init` is a binding of a program with a main service; a module with a
// default export is a definitions-only output wrapped by the harness as `export default ({IDL}) => {…}`.
import { readdirSync } from 'node:fs';
import { pathToFileURL } from 'node:url';
import { join, resolve } from 'node:path';
import { makeIDL } from './idl_recorder.mjs';

const dir = resolve(process.argv[2]);
const files = readdirSync(dir).filter((f) => f.endsWith('.mjs')).sort();

function errInfo(e) {
  if (e && typeof e === 'object') {
    return { name: String(e.name ?? e.constructor?.name ?? 'Error'), message: String(e.message ?? '') };
  }
  return { name: 'Thrown', message: String(e) };
}

const out = [];
for (const file of files) {
  let line;
  let stage = 'import';
  try {
    const mod = await import(pathToFileURL(join(dir, file)).href);
    if (typeof mod.default === 'function') {
      stage = 'defs';
      const { IDL } = makeIDL();
      mod.default({ IDL });
      line = { file, ok: true, defs: true };
    } else {
      stage = 'idlFactory';
      if (typeof mod.idlFactory !== 'function') {
        throw new TypeError('module does not export a function idlFactory');
      }
      const a = makeIDL();
      const service = a.serialize([mod.idlFactory({ IDL: a.IDL })]);
      stage = 'init';
      if (typeof mod.init !== 'function') {
        throw new TypeError('module does not export a function init');
      }
      const b = makeIDL();
      const args = mod.init({ IDL: b.IDL });
      if (!Array.isArray(args)) {
        throw new TypeError('init did not return an array');
      }
      const init = b.serialize(args);
      line = { file, ok: true, service, init };
    }
  } catch (e) {
    line = { file, ok: false, stage, error: errInfo(e) };
  }
  out.push(JSON.stringify(line));
}
process.stdout.write(out.join('\n') + (out.length ? '\n' : ''));
