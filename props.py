"""Per-property configuration for ./check (lanes, budgets, evidence rule text)."""

PROPS = {
    "selftest": {
        "rule": "model self-tests: every assert of /repo/test/*.test.did replayed through R1+R2; random (env, types, values): "
                "R1 encode/decode identity, R2 identity coercion, R3 reflexive, R3-yes implies R2 succeeds. "
                "non-trivial = distinct (wire type, expected type) pairs or distinct spec assertions",
        "lanes_quick": ["D"], "lanes_thorough": ["D"], "budget_quick": 8, "budget_thorough": 30, "max_workers": 4,
        "required_counters": ["spec:agree"],
    },
}
