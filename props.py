"""Per-property configuration for ./check (lanes, budgets, evidence rule text, coverage that must be observed)."""

PROPS = {'C01': {'assumptions': ['hostile bytes inside histories are decoded under a decoding quota (unmetered decoding of hostile input is unbounded by design)',
                         'equality of hash containers is set equality; their encoded bytes are not compared between the two runs'],
         'budget_quick': 20,
         'budget_thorough': 150,
         'lanes_quick': ['D', 'R'],
         'lanes_thorough': ['D', 'R', 'M'],
         'max_cases_miri': 6,
         'miri_workers': 6,
         'required_counters': ['agree:multi-argument', 'cover:kind:BTreeMap',
                               'cover:kind:HashMap',
                               'cover:kind:recursive',
                               'cover:kind:reference',
                               'cover:kind:Option',
                               'cover:kind:tuple',
                               'cover:kind:array',
                               'cover:kind:struct',
                               'cover:kind:enum'],
         'rule': 'probe = round-trip (IDLBuilder::arg + serialize; IDLDeserialize::new/get_value/is_done/done) of a generated value of one of the corpus Rust '
                 'types (cross product of leaves incl. u128/i128/Nat/Int/Principal/func+service references/derived structs+enums/recursive and mutually '
                 'recursive types under Option, Vec, VecDeque, LinkedList, arrays, tuples, sets, BTreeMap/HashMap over 9 key types x 12 value types, nested '
                 'maps; count in coverage.corpus_types) executed twice: in a fresh thread with an empty history, and in a fresh thread after a random history '
                 'of 0..12 earlier calls (type derivation, round-trips, encode-only, metered decodes of mutated bytes, IDLBuilder::new, untyped decodes, '
                 'decodes of foreign messages). Oracle: both succeed, leave nothing unread, return a value equal to the original (floats bitwise, NaN payloads '
                 'included) and (except hash containers, whose iteration order is per instance) produce identical bytes. non-trivial = non-empty value; '
                 'distinct by (Rust type, encoded length, history shape); second family multi-argument-roundtrip: 2..4 values of different corpus types in ONE message read back argument by argument on ONE deserializer (what a specialised container path leaves in the decoder must not reach the next argument)'},
 'C02': {'assumptions': ["every type is a subtype of every option type (the option rules of spec/Candid.md taken together; the repository's spec tests agree)",
                         'wire table entries that are records containing themselves through record fields alone denote `empty` when wire reference types are '
                         'compared (normalisation done by the decoder and relied on by test/subtypes.test.did)',
                         'a coercion whose derivation descends without bound (a non-optional value at `type O = opt O`) is treated as a nesting limit (spec '
                         "suite: 'fix opt'), like nesting deeper than 400 and type tables over 10000 entries: excluded, still must not panic",
                         'non-minimal constructor opcodes / annotation counts and LEB128 counts longer than 9 bytes are implementation limits (excluded)'],
         'budget_quick': 20,
         'budget_thorough': 180,
         'lanes_quick': ['D', 'R'],
         'lanes_thorough': ['D', 'R'],
         'required_counters': ['cover:mutated:value-byte', 'cover:rule:opt:backtrack',
                               'cover:rule:opt:constituent-backtrack',
                               'cover:rule:record:missing-optional',
                               'cover:rule:record:surplus',
                               'cover:rule:variant:unknown-tag',
                               'cover:rule:reference:not-subtype',
                               'cover:rule:nat<:int',
                               'cover:rule:service<:principal',
                               'cover:rule:args:missing-optional',
                               'cover:rule:args:surplus',
                               'agree:malformed',
                               'agree:coercion-fails',
                               'agree:value',
                               'cover:mutated'],
         'rule': 'a valid message of random possibly recursive wire types (reference encoder R1, canonical or legally non-canonical table: duplicate/unused '
                 'entries, permuted table, padded LEB128) is decoded with IDLArgs::from_bytes_with_types at an expected type sequence that is identical / '
                 'derived by legal upgrade steps / by mixed legal+illegal steps / unrelated / with fewer or more arguments, some labels spelled as names; one '
                 'third of the second family is byte-mutated first. Oracle: reference decoder R1 (malformed => must fail; documented limits excluded) then '
                 'spec coercion R2 (fails => must fail; succeeds => candid must succeed with exactly the coerced values); IDLArgs::from_bytes must equal R1 '
                 'itself. non-trivial = expected types differ from wire types or bytes mutated; distinct by (wire shapes, expected shapes, outcome class). '
                 'coverage.counters cover:rule:* are the R2 rule applications; a third of the mutations leave the header intact and turn one value byte into an impossible bool / UTF-8 byte (whether it is read, skipped as surplus or sits below a failing option is decided by the expected type)'},
 'C03': {'assumptions': ["IDLArgs::to_bytes infers a vector's element type from its first element: values with heterogeneous vectors have no inferred type and "
                         'are excluded from the to_bytes check (counter excluded:to_bytes-heterogeneous-vector)',
                         'hash containers are excluded from the byte-determinism comparison'],
         'budget_quick': 20,
         'budget_thorough': 150,
         'lanes_quick': ['D', 'R'],
         'lanes_thorough': ['D', 'R', 'M'],
         'max_cases_miri': 8,
         'miri_workers': 6,
         'required_counters': ['family:native-corpus', 'family:untyped', 'agree:to_bytes', 'cover:table-over-64-entries'],
         'rule': '(a) 0..3 (wide family: 25..64, so that the type table exceeds 64 entries and type references need two SLEB128 bytes) generated values of '
                 'corpus Rust types through IDLBuilder::arg/serialize_to_vec; (b) generated (environment with aliases, knots, mutual recursion, shared '
                 'sub-types; wide family: 65..155 distinct field/argument types, option towers, definition chains; types; values; some labels as names) '
                 'through IDLArgs::to_bytes_with_types and IDLBuilder::value_arg_with_type, and IDLArgs::to_bytes on the values as the decoder returns them '
                 'when their vectors are homogeneous. Oracle: the reference decoder R1 accepts the bytes (composite-only table, ascending unique field ids, '
                 'ascending unique method names, methods are functions, indices in range), every LEB128 is minimal, argument types are structurally equal '
                 '(bisimulation) to the source types, abstract values equal the source values, encoding again gives identical bytes. non-trivial: every case; '
                 'distinct by (types, encoded length)'},
 'C04': {'assumptions': ['host limits excluded: 128-bit range of u128/i128, fixed array length',
                         'coercions without a finite derivation (value at `type O = opt O`) are excluded (counter excluded:coercion-diverges)'],
         'budget_quick': 20,
         'budget_thorough': 150,
         'lanes_quick': ['D', 'R'],
         'lanes_thorough': ['D', 'R'],
         'required_counters': ['cover:checker-accepts',
                               'cover:checker-rejects',
                               'agree:decodes-at-supertype',
                               'agree:indirect~direct',
                               'agree:native-decodes-at-supertype',
                               'cover:native-pair-accepted'],
         'rule': 'untyped: chains t0,t1,t2 of random upgrade steps over random recursive environments; for every pair the *checker* accepts, three generated '
                 'values of the subtype are encoded at it by candid and decoded at the supertype: must succeed, be of the supertype (R7), equal the spec '
                 'coercion R2, and decoding via t1 then t2 must be related to decoding directly at t2 by the relation ~ (opt v ~ null). native: random pairs '
                 'of corpus Rust types whose Candid types the checker relates: a generated value of the first must decode at the second (documented host '
                 'limits excluded). non-trivial = pair of different types; distinct by type shapes / type names'},
 'C05': {'assumptions': ['every type is a subtype of every option type (see C02)',
                         'the rule set itself is not transitive where a field is dropped and re-added at type null (only opt and reserved absorb every type): '
                         'such triples are counted (observed:spec-relation-not-transitive), candid follows the rules'],
         'budget_quick': 25,
         'budget_thorough': 240,
         'exhaustive_whole': False,
         'lanes_quick': ['D', 'R'],
         'lanes_thorough': ['D', 'R'],
         'required_counters': ['agree:rust-derived:subtype-yes', 'agree:rust-derived:subtype-no', 'agree:subtype-yes',
                               'agree:subtype-no',
                               'cover:shared-memo-queries',
                               'cover:transitivity-triples',
                               'agree:compatible',
                               'agree:incompatible'],
         'rule': '(1) EXHAUSTIVE: all environments {new A,B; old A,B} over a catalogue of definition bodies (10 quick / 25 thorough: '
                 'opt/vec/record/variant/func/service over A,B and leaves) x 8 queries (incl. record { p : opt A; q : B } and its service form); (2) random '
                 'recursive environments with upgraded twins, both directions, reflexivity, equal vs structural equality, transitivity triples; (3) sequences '
                 'of queries sharing one memo (reset after a failed query); (4) the same services printed as .did text with permuted fields/definitions and '
                 'renamed definitions through service_compatible, service_compatibility_report, service_equal. Oracle: greatest fixed point R3 over all '
                 'reachable pairs; report empty iff compatible; answers with a shared memo = answers with a fresh memo. non-trivial: every query on '
                 'constructed types; distinct by type-shape pair / environment index; (5) rust-derived-types: subtype / subtype_check_all / equal on T::ty() of two corpus Rust types (recursion tied with Knot nodes), after deriving 0..3 other types first on a fresh thread, against R3 on the hand-written models of the two types'},
 'C06': {'assumptions': ['without a decoding quota no work/memory claim is made (unmetered decoding is documented as unbounded): such runs are cut after '
                         '3*10^6 element accesses and counted as excluded:no-quota-beyond-step-limit',
                         'the allocation monitor is a counting global allocator in the worker (off in the ASan/valgrind lanes)'],
         'budget_quick': 25,
         'budget_thorough': 180,
         'lanes_quick': ['D', 'R'],
         'lanes_thorough': ['D', 'R', 'A', 'V', 'M'],
         'max_cases_miri': 8,
         'max_cases_valgrind': 300,
         'miri_workers': 6,
         'required_counters': ['family:crafted-bombs',
                               'family:mutated-native-messages',
                               'family:mutated-wire-messages',
                               'family:pending-args-times-optionals',
                               'family:reads-continue-after-errors',
                               'outcome:ok',
                               'outcome:err',
                               'cover:crafted:zst-bomb:vec',
                               'cover:crafted:deep:opt',
                               'cover:crafted:mu-record',
                               'cover:crafted:long-leb'],
         'rule': 'hostile inputs (structure-aware mutations of native and reference-encoded messages, 16 hand-built bomb families: zero-size element vectors, '
                 'deep opt/vec/variant nesting to 10^6, self-containing records, huge table/arg/field counts, length bombs, primitive-vector overflow, future '
                 'types, over-long LEB128, many pending arguments x many optional values, random bytes after the magic) x expected type (corpus Rust type, '
                 'random untyped types, none, or a SEQUENCE of 1..5 reads on one IDLDeserialize - native at the own type / at another struct or enum / untyped at a '
                 'random type / IDLValue - each attempted whatever the earlier ones returned, then done()) x configuration (no quota / decoding quota in {0,1,100,10^4,10^6} / skipping quota / both, full error message '
                 'on/off, max_type_len) x thread stack in {256K,512K,2M,8M}. Monitors: no panic, no process death (journal protocol), with a decoding quota q: '
                 'element-access steps (hook) <= q+|input|+64, peak live allocation <= 8MiB+256|input|+512q, cumulative requested bytes <= '
                 "8MiB+256|input|+4096q. non-trivial: distinct (reference decoder's error site class, target kind)"},
 'C07': {'assumptions': ['the documented cost model is evaluated on the wire value; values read at `reserved`, surplus arguments and untyped decoding count '
                         '50x as documented; constant per-message overheads get an absolute allowance of 1500'],
         'budget_quick': 20,
         'budget_thorough': 150,
         'lanes_quick': ['D', 'R'],
         'lanes_thorough': ['D', 'R'],
         'required_counters': ['agree:mixed-sequence', 'agree:native', 'agree:untyped', 'agree:native-related-wire', 'cover:surplus-arguments', 'cover:unmetered-fails',
                               'cover:entry-point:decode_args_with_config_debug', 'cover:entry-point:IDLArgs::from_bytes_with_types_with_config',
                               'agree:const-quota-wrapper:ok', 'agree:const-quota-wrapper:quota-error'],
         'rule': 'valid messages: corpus Rust type + 0..2 surplus arguments (native), a corpus Rust type reading a message of a related wire type '
                 '(fields added/dropped, values made optional, nat for int: native-related-wire), and random wire/expected pairs incl. surplus fields, mismatched options, '
                 'zero-sized elements, references (untyped). Each is decoded unmetered, with huge quotas (cost), at the exact cost, just below it in either '
                 'quota, above it, at random quota pairs, and with one quota only. Oracle: result equals the unmetered result or is a quota error; success iff '
                 'both quotas >= the measured cost; reported cost independent of the quotas; decoding cost >= number of wire value nodes; skipping cost >= '
                 'skipped nodes; element-access steps (hook) <= decoding cost; decoding cost <= 10 x documented cost model + 1500; the other public entry points that take a '
                 'configuration (decode_one_with_config, decode_args_with_config[_debug], Decode!([cfg]) and @Debug, IDLArgs::from_bytes_with_types_with_config, '
                 'the six const-generic decode_*_with_*_quota wrappers) give the same result, cost and quota error at the same quotas. non-trivial: every message; '
                 'distinct by (target, length) / type shapes; mixed-sequence: 2..3 arguments read on ONE deserializer each its own way (native / IDLValue / untyped at its type; no reference types): values equal and skipping cost equal to the sum over the same reads on single-argument messages, decoding cost equal up to the header term'},
 'C08': {'assumptions': ['host limits (excluded, counted): 128-bit integer range, fixed array length, duplicate map/set keys, BoundedVec limits, borrowed '
                         'slices need a blob/text/principal on the wire'],
         'budget_quick': 20,
         'budget_thorough': 150,
         'lanes_quick': ['D', 'R'],
         'lanes_thorough': ['D', 'R', 'A'],
         'required_counters': ['agree:both-accept',
                               'agree:both-reject',
                               'cover:wire:lookalike',
                               'cover:wire:upgraded',
                               'cover:wire:same',
                               'agree:bounded-len',
                               'agree:bounded-total',
                               'agree:bounded-element',
                               'agree:both-reject:&[u8]',
                               'agree:both-accept:&str'],
         'rule': "corpus Rust type T x message (reference-encoded) whose wire type is T's type, an up/down-graded version, or a look-alike with a similar byte "
                 'layout (text/blob/principal, nat/int/nat8, nat64/int64/float64, null/reserved swapped at random leaves), plus fixed borrowed/bounded targets '
                 '(&str, &[u8], &serde_bytes::Bytes, Cow<str>, ByteBuf, three BoundedVec instances) x 11 wire types. Oracle: native decoding succeeds iff '
                 "IDLArgs::from_bytes_with_types at T's Candid type succeeds (closed list of host limits excluded) and the re-encoded native result denotes "
                 'the same abstract value (vectors as multisets); BoundedVec accepts exactly within its limits. non-trivial: every case; distinct by (Rust '
                 'type, wire relation, wire type shape)'},
 'C09': {'assumptions': [],
         'budget_quick': 15,
         'budget_thorough': 120,
         'exhaustive_whole': False,
         'lanes_quick': ['D', 'R'],
         'lanes_thorough': ['D', 'R', 'M'],
         'max_cases_miri': 12,
         'miri_workers': 6,
         'required_counters': ['cover:exhaustive-strings', 'cover:len9', 'cover:len10', 'cover:len19', 'cover:len20', 'cover:len25+', 'family:values'],
         'rule': 'EXHAUSTIVE: all byte strings of length <= 2 (quick) / <= 3 (thorough) through Nat::decode, Int::decode, leb128::decode_nat, decode_int; '
                 'boundary strings of 7..11, 17..22, 37..38 bytes with every pattern in the top two groups; random strings <= 40 bytes; integers +-2^k+-{0,1}, '
                 'k<=200 with minimal and padded encodings. Each terminated string is also decoded inside messages followed by a sentinel argument at Nat, '
                 'Int, Int from nat, u128, i128, i128 from nat, Vec<Nat>, Vec<Int> (from vec int and vec nat), BTreeMap<String,Int>, BTreeMap<u8,Nat>, '
                 'untyped. Oracle R4: value, bytes consumed, unterminated => error, 128-bit decoders reject iff out of range, encoders minimal. distinct by '
                 'byte string'},
 'C10': {'assumptions': ['corners the property leaves open are not judged: reserved at opt, float64 literal at float32, surplus fields in a record value'],
         'budget_quick': 20,
         'budget_thorough': 150,
         'lanes_quick': ['D', 'R'],
         'lanes_thorough': ['D', 'R'],
         'required_counters': ['agree:annotate_types-rejects-surplus-values', 'agree:annotate_types-omitted-values', 'agree:typed-roundtrip',
                               'agree:untyped-roundtrip',
                               'agree:annotate-rejects',
                               'agree:encode-rejects',
                               'cover:labels:label=_',
                               'cover:labels:label-with-comma',
                               'cover:near-miss:record:field-removed',
                               'cover:near-miss:variant:other-tag',
                               'cover:near-miss:width:nat8->nat16'],
         'rule': 'generated (recursive environment, 1..3 types, inhabitants) with labels spelled as ids or as names (incl. `_`, keywords, commas, quotes): '
                 'annotate_types(true/false) keeps the abstract value; to_bytes_with_types then from_bytes_with_types at the same types and from_bytes without '
                 'types return the value (model equality and IDLValue ==). Near-miss family: one edit (wrong number width/sign, kind, reference kind, removed '
                 'required field, unknown tag, foreign vector element) judged by an independent lenient typing (nat at int, anything at reserved, null at '
                 'opt): ill-typed values must be rejected by annotate_type(true) and to_bytes_with_types. non-trivial: every case; distinct by type shapes / '
                 '(edit, type shape); argument-count-mismatch: IDLArgs::annotate_types with more values than types is an error (no panic), with fewer values it succeeds iff the omitted types are null/opt/reserved'},
 'C11': {'assumptions': ['NaN / infinite floats are never generated (property: floats finite).',
                         'parse_idl_value has no top-level annotation (`5 : nat8` is not an `Arg`): when it rejects the printed text of an annotated number / '
                         'null / reserved for that reason the value is re-read as `(text)`; counted under '
                         'observed:parse_idl_value-rejects-top-level-annotation, not a violation.',
                         'A printed text with a backslash directly before a non-ASCII character is never fed to the parser (lexing it is UB, see C13); it '
                         'counts as a read-back failure (stage unparsable-escape).',
                         'IDLValue::Number and IDLValue::Vec[Nat8..] (forms the decoder never produces) are not generated.'],
         'budget_quick': 20,
         'budget_thorough': 120,
         'lanes_quick': ['D', 'R'],
         'lanes_thorough': ['D', 'R'],
         'required_counters': ['agree:display-args',
                               'agree:debug-args',
                               'agree:display-value',
                               'agree:debug-value',
                               'cover:value:text:nul',
                               'cover:value:text:nul+hexdigit',
                               'cover:value:label:nul',
                               'cover:value:method:nul',
                               'cover:value:text:double-quote',
                               'cover:value:text:backslash',
                               'cover:value:text:del',
                               'cover:value:text:c0-control',
                               'cover:value:text:surrogate-adjacent',
                               'cover:value:text:combining',
                               'cover:value:text:bidi-or-zero-width',
                               'cover:value:text:bom',
                               'cover:printed:text:\\n',
                               'cover:printed:text:\\t',
                               'cover:printed:text:\\"',
                               'cover:printed:text:\\\\',
                               "cover:printed:text:\\'",
                               'cover:printed:text:\\u{..}:c0-control',
                               'cover:printed:blob:\\xx',
                               'cover:printed:text:raw:astral',
                               'cover:vec-len:9',
                               'cover:vec-len:10',
                               'cover:vec-len:11',
                               'cover:depth:11',
                               'cover:depth:12+',
                               'cover:kind:variant-null-payload',
                               'cover:kind:opt-of-annotated-number',
                               'cover:kind:reserved',
                               'cover:kind:none',
                               'cover:kind:float64:negative-zero',
                               'cover:kind:float64:subnormal',
                               'cover:kind:nat>64bit',
                               'cover:kind:int>64bit',
                               'cover:kind:func',
                               'cover:kind:service',
                               'cover:label:keyword',
                               'cover:label:needs-quotes',
                               'cover:label:numeric'],
         'rule': 'Values are generated from random model types (gen::types, up to 3 args, recursive envs, func/service/principal) with field ids respelled as '
                 'hostile names (id = label_hash(name)); converted with conv::to_idl to the IDLValue the decoder would produce; printed with Display and {:?} '
                 '(IDLArgs and one IDLValue per case), printed twice (determinism), parsed with parse_idl_args / parse_idl_value, annotated with '
                 'annotate_types(true, env, types) and compared by IDLValue == and by conv::model_value (floats bitwise). Families: random typed values 30%, '
                 'one hostile string in text/label/variant-label/method position 30%, numbers (bignums, all widths, finite floats incl -0.0/subnormal/1e±308) '
                 '12%, blobs over all bytes 8%, vectors of 8..12/20 elements 10%, nesting depth 9..40 10%. A failing value is shrunk to the smallest failing '
                 'sub-value before the signature is computed. Non-trivial: every case; distinct by hash(type shapes to depth 5, value node counts, number of '
                 'names).'},
 'C12': {'assumptions': ['definition names are identifiers that are neither Candid keywords nor primitive type names (`type nat = …` parses in candid but '
                         '`nat` in type position stays the primitive)',
                         'argument names carry no meaning (spec): they are not compared',
                         'doc comments are not part of the compared interface',
                         'the shape `type F = func (service { m : F }) -> ()` is excluded from this workload (check_prog rejects it: C14 finding)',
                         'record id 2^32-1 excluded (C13 overflow); names containing NUL only in the dedicated family `nul-in-names` (4% of the budget)',
                         "programs whose source is rejected by check_prog are counted under excluded:source-rejected (C14's business)"],
         'budget_quick': 20,
         'budget_thorough': 120,
         'lanes_quick': ['D', 'R'],
         'lanes_thorough': ['D', 'R'],
         'required_counters': ['agree:compile',
                               'agree:pretty_print',
                               'agree:export',
                               'agree:get_metadata',
                               'agree:instantiate_candid',
                               'agree:merge_init_args',
                               'agree:check_rust_type-accepts',
                               'agree:check_rust_type-rejects',
                               'cover:get_metadata-filters-definitions',
                               'cover:instantiate_candid-with-init-args',
                               'cover:merge_init_args-adds-arguments',
                               'checked:programs',
                               'cover:actor:service',
                               'cover:actor:by-name',
                               'cover:actor:class-service',
                               'cover:actor:class-by-name',
                               'cover:recursive-def',
                               'cover:mutually-recursive-defs',
                               'cover:name:candid-keyword',
                               'cover:name:foreign-keyword',
                               'cover:name:needs-escape',
                               'cover:name:non-ascii',
                               'cover:label:named',
                               'cover:label:numeric',
                               'cover:label:tuple-shorthand',
                               'cover:record:mixed-labels',
                               'cover:variant:null-shorthand',
                               'cover:ty:blob',
                               'cover:def:func',
                               'cover:def:service',
                               'cover:def:alias-of-def',
                               'cover:method:by-name',
                               'cover:nested:service',
                               'cover:export:List',
                               'cover:export:Both',
                               'cover:export:Items'],
         'rule': 'programs generated well-formed by construction (own AST, own printer: every constructor, named/numeric/tuple labels, quoted/keyword/odd '
                 'names, recursive + mutually recursive defs, func/service aliases, service constructors) -> str::parse::<IDLProg> + check_prog; '
                 'pretty::candid::compile AND syntax::pretty_print output must parse + check again and every definition (by name), the init args and the '
                 'service must be structurally equal (gfp bisimulation requal: ids, method names, annotations, arg order, recursion) to the MODEL of the '
                 "source program computed from our AST by the spec's desugaring; service_equal(original, printed) must be Ok; second call gives identical "
                 'text; 23 Rust types exported via TypeContainer::add + compile(env, None): printed env re-checks to the same definitions and the root equals '
                 'a hand-written model of the Rust type. non-trivial = distinct (shape of all defs + actor, name class); clients of the printer on the same programs: get_metadata (filtered environment, init args dropped), instantiate_candid and merge_init_args must yield the model\'s service / init argument types; check_rust_type::<T> accepts T\'s exported type and rejects exported types with another meaning'},
 'C13': {'assumptions': ['Inputs with a backslash directly before a non-ASCII character make the string sub-lexer slice a str inside a character (UB; SIGABRT '
                         'under debug assertions). They are examined in a child process (the worker re-executed with VERIF_C13_CHILD_INPUT): shard 0 runs 7 '
                         'witnesses (one per entry point) + at most 4 generated inputs that way; all other such inputs are examined in-process with the '
                         "offending character replaced by 'q' (counter cover:sanitized-after-fork-budget). The abort|… signatures therefore only appear in "
                         'shard 0.',
                         'An error that carries a String with invalid UTF-8 is reported (invalid-utf8-in-error|…|token) and NOT rendered natively (that is the '
                         'UB itself; natively it panics inside core::fmt or prints garbage). The Miri lane should render `parse_idl_args("(1 \\"\\\\e0\\")")`.',
                         'pretty_parse / pretty_diagnose are never called (they write to stderr); report() is.',
                         'In release the id+1 overflow wraps silently; it is reported only for the dedicated shape `record { MAX <sep> x ; y }` (value and '
                         'type form) as field-id-wrapped|…',
                         'Nesting depth <= 128 by construction.'],
         'budget_quick': 25,
         'budget_thorough': 180,
         'lanes_quick': ['D', 'R'],
         'lanes_thorough': ['D', 'R', 'A', 'V', 'M'],
         'max_cases_miri': 6,
         'miri_workers': 6,
         'required_counters': ['family:values-annotated-with-another-type', 'family:token-soup',
                               'family:one-token-mutants',
                               'family:valid-sentences',
                               'family:boundary-numerals',
                               'family:escapes',
                               'family:unterminated-and-comments',
                               'family:deep-nesting',
                               'family:character-mutants',
                               'result:IDLProg:ok',
                               'result:IDLType:ok',
                               'result:IDLTypes:ok',
                               'result:IDLInitArgs:ok',
                               'result:Test:ok',
                               'result:parse_idl_args:ok',
                               'result:parse_idl_value:ok',
                               'cover:err:User',
                               'cover:err:UnrecognizedToken',
                               'cover:err:UnrecognizedEof',
                               'cover:class:hex-0X-prefix',
                               'cover:class:field-id-u32-max',
                               'cover:class:raw-high-byte-escape',
                               'cover:past-first-token',
                               'cover:mutation:delete',
                               'cover:mutation:duplicate',
                               'cover:mutation:replace',
                               'cover:mutation:swap'],
         'rule': 'Every input goes through all 7 entry points (str::parse::<IDLProg|IDLType|IDLTypes|IDLInitArgs|test::Test>, parse_idl_args, parse_idl_value) '
                 'under catch; Ok results are type-checked (check_prog / ast_to_type / check_init_args) under catch; Err results are inspected without '
                 'rendering first (span inside 0..=len and on char boundaries, no invalid UTF-8 String in the error), then to_string() and report() under '
                 'catch. Families: regression witnesses (first case of each shard), token soup over the lexer alphabet 22%, grammar-directed sentences (args, '
                 'value, type, tuple type, program, init args, test script) 12%, the same with one (20%: two) token '
                 'deleted/duplicated/replaced/swapped/inserted/truncated 30%, boundary numerals in 28 templates 10%, every escape form in 22 string positions '
                 '12%, unterminated strings / nested and unclosed comments / doc-comment trivia 5%, nesting 1..128 of 14 constructs 4%, character-level '
                 'mutants 3%. A panicking input is shrunk (greedy chunk removal, same panic location) and the class label is computed from the shrunk input. '
                 "Non-trivial: Ok, or error offset past the first token. Distinct by (entry, 'ok', first three words with digits->0) or (entry, 'err', first "
                 '40 chars of the message without digits).; values-annotated-with-another-type: typed compound values (vectors mixing element kinds, options, records, variants) annotated with a type that does not fit, so that the parser action builds its type-mismatch error (which renders the value)'},
 'C14': {'assumptions': ['`query query` / `oneway oneway` count as two annotations (property text: at most one annotation)',
                         'argument names must be unique within one argument list or one result list (the generator keeps them unique across both)',
                         'two method names with the same hash are legal (methods are identified by name; spec)',
                         'a rejection by panic counts as a rejection here (anomaly:rejected-by-panic) — totality is C13',
                         'Motoko binding only when every method name is an identifier (documented panic otherwise)',
                         'subtype against a renamed copy is only monitored for panics; an Err there is counted (anomaly:…), not a violation',
                         'init-args mutants use self-contained init-args programs (check_init_args checks its own definitions before merging the main env)'],
         'budget_quick': 20,
         'budget_thorough': 120,
         'lanes_quick': ['D', 'R'],
         'lanes_thorough': ['D', 'R'],
         'required_counters': ['agree:accepted',
                               'agree:rejected',
                               'agree:init-args-accepted',
                               'agree:init-args-rejected',
                               'rejected-at:parse',
                               'rejected-at:check',
                               'walk:closed',
                               'walk:trace_type',
                               'walk:subtype',
                               'walk:subtype-renamed-copy-ok',
                               'walk:encoded',
                               'walk:javascript',
                               'walk:typescript',
                               'walk:motoko',
                               'walk:rust',
                               'cover:fault:UndefinedName',
                               'cover:fault:DuplicateDef',
                               'cover:fault:AliasCycle1',
                               'cover:fault:AliasCycle5',
                               'cover:fault:DupFieldSameName',
                               'cover:fault:DupFieldSameNumber',
                               'cover:fault:DupFieldNameAndItsHash',
                               'cover:fault:DupFieldCollidingNames',
                               'cover:fault:DupFieldTuplePosition',
                               'cover:fault:DupMethod',
                               'cover:fault:OnewayWithResult',
                               'cover:fault:DupArgName',
                               'cover:fault:TwoAnnotations:query-oneway',
                               'cover:fault:MethodNotFunc:alias-prim-chain2',
                               'cover:fault:ActorNotService:class-func-chain1',
                               'cover:position:def',
                               'cover:position:def+svc',
                               'cover:position:init',
                               'cover:position:actor',
                               'cover:lookalike:MethodViaAliasChain',
                               'cover:lookalike:ProductiveCycle',
                               'cover:lookalike:CollidingMethodNames',
                               'cover:init-fault:UndefinedName'],
         'rule': 'verdict of str::parse::<IDLProg> + check_prog (a parse error is a rejection) against the construction verdict: programs well-formed by '
                 'construction and well-formed look-alikes of fault shapes must be accepted; single-fault mutants (undefined name, duplicate def, alias cycle '
                 '1..5, duplicate id: same name / same number / name + its hash / two colliding names (birthday search) / tuple position, duplicate method, '
                 'method that is not a function directly or through alias chains 1..3, oneway with result, two annotations, duplicate argument name, actor / '
                 'constructor result that is not a service) planted at random positions (def, nested service, func arg, init arg, actor), each re-judged by an '
                 'independent spec judge (prog::well_formed), must be rejected. Same for IDLInitArgs + check_init_args. Every accepted env is walked on a 64 '
                 'MiB thread: closed, trace_type, subtype(t,t) Ok (and against a renamed copy), a generated value of every inhabited def / method arg / init '
                 'arg encodes, JS/TS/Motoko/Rust compile return without panic; accepted env must equal the model of the source. non-trivial = distinct (shape, '
                 'kind) resp. (fault, position, #defs)'},
 'C15': {'assumptions': ["Types with a field id 4294967295 are excluded from the parser-path family (C13's id+1 overflow would panic in debug); counter "
                         'excluded:field-id-u32-max(C13).',
                         'The derived corpus avoids the names `_` and names containing `,` (known C02/C10 untyped-decoder defects); the wire family does '
                         'generate them and reports them under two dedicated signatures.',
                         'derive rejecting colliding names is compile-time only: not covered here (needs a compile-fail fixture).',
                         'Equal bytes for the four spellings are not demanded (counted: observed:spellings-give-different-bytes; 0 so far).'],
         'budget_quick': 15,
         'budget_thorough': 90,
         'lanes_quick': ['D', 'R'],
         'lanes_thorough': ['D', 'R'],
         'required_counters': ['agree:idl_hash',
                               'agree:label-self-consistent',
                               'agree:label-order',
                               'cover:birthday-pairs-found',
                               'cover:collision:birthday-pair',
                               'cover:collision:fixed-pair',
                               'cover:collision:name-vs-own-id',
                               'agree:collision-rejected:type-parser:record',
                               'agree:collision-rejected:type-parser:variant',
                               'agree:collision-rejected:value-parser:record',
                               'agree:collision-rejected:args-parser:record',
                               'agree:collision-rejected:prog-parser:record',
                               'agree:collision-rejected:check_unique',
                               'agree:same-type:record',
                               'agree:same-type:variant',
                               'agree:named-value-numeric-type',
                               'agree:wire:named-value/named-type',
                               'agree:wire:numeric-value/numeric-type',
                               'agree:wire-ids-ascending-and-value',
                               'cover:wire:value-fields-shuffled',
                               'agree:header-accepted',
                               'agree:header-rejected',
                               'cover:header:record:bad-order',
                               'cover:header:variant:bad-order',
                               'agree:derived-field-ids',
                               'agree:derived-untyped-decode',
                               'agree:derived-native-roundtrip',
                               'agree:derived-numeric-to-native',
                               'agree:macro-rejects:record!:kviccgm/jmst',
                               'agree:macro-rejects:variant!:rf_kdyb/kmoz',
                               'agree:macro-rejects:record!:a/97',
                               'agree:macro-control:record!',
                               'cover:name-class:unicode',
                               'cover:name-class:candid-keyword',
                               'cover:name-class:empty',
                               'cover:name-class:numeric-looking'],
         'rule': 'Families: (1) 20% idl_hash(s) == R5 and Label::{Named,Id,Unnamed}: get_id/eq/cmp/partial_cmp/Hash/HashMap+BTreeMap insert under one '
                 'spelling, look up under the other, order against a second label, sorting; strings: ASCII ids, lexer keywords, prim names, other-language '
                 'keywords, numeric-looking, empty, arbitrary Unicode, 20..220-char names. (2) 13% colliding pairs (24 found per worker by a birthday search '
                 'over 300k short strings + 3 fixed identifier pairs + name-vs-own-id) must be rejected by IDLType/IDLTypes/IDLProg/value/args parsers and '
                 'check_unique, with accepted controls. (3) 20% parser path: record/variant type written with names (my quoting) vs numeric ids -> ast_to_type '
                 '-> from_candid -> requal2 (+ sorted by id, candid Type ==), and a value written with names annotated with the numeric type. (4) 20% wire: '
                 'value×type spellings {named,numeric}² encoded with to_bytes_with_types, reference-decoded (ids ascending, value), decoded against the other '
                 'spelling, value fields shuffled in half the cases. (5) 10% hand-crafted record/variant table entries with ascending / duplicate / unsorted '
                 'ids vs IDLArgs::from_bytes. (6) 15% 38 derived types (renames to keywords, Unicode, spaces, quotes, numeric-looking; raw identifiers; '
                 'tuple/newtype/unit/struct variants; generics): T::ty() ids == sorted R5 hashes of the names written next to the type, encode, reference '
                 'decode, decode untyped against numeric and named type, native round trip, numeric re-encode -> native. (7) 2% record!/variant! with literal '
                 'colliding labels (panic = rejection) and controls. Non-trivial: every case; distinct by hash of the strings/bytes.'},
 'C16': {'assumptions': ['`exhaustive` must contain one note per shard and the per-shard counts must sum to 65793.',
                         'A panic of from_slice on > 29 bytes is the documented rejection.',
                         'Case-insensitivity means ASCII case only (spec: base32 alphabet); U+212A, U+017F, U+0131 must be rejected.'],
         'budget_quick': 15,
         'budget_thorough': 90,
         'lanes_quick': ['D', 'R'],
         'lanes_thorough': ['D', 'R', 'M'],
         'max_cases_miri': 3,
         'miri_workers': 6,
         'required_counters': ['cover:bytes:legal',
                               'cover:bytes:overlong',
                               'cover:len%5=0',
                               'cover:len%5=1',
                               'cover:len%5=2',
                               'cover:len%5=3',
                               'cover:len%5=4',
                               'agree:text-accepted',
                               'agree:text-rejected',
                               'cover:text:substitute:alphabet',
                               'cover:text:substitute:upper',
                               'cover:text:substitute:digit-outside',
                               'cover:text:substitute:non-ascii',
                               'cover:text:substitute:pad',
                               'cover:text:insert:dash',
                               'cover:text:delete:dash',
                               'cover:text:delete:alphabet',
                               'cover:text:case:upper',
                               'cover:text:case:mixed',
                               'cover:text:dash:moved',
                               'cover:text:dash:all-removed',
                               'cover:text:dash:doubled',
                               'cover:text:truncate:prefix',
                               'cover:text:overlong-payload',
                               'cover:text:checksum:wrong',
                               'cover:text:trailing-bits',
                               'cover:text:degenerate',
                               'agree:json-roundtrip',
                               'agree:json-alt-rejected',
                               'agree:json-alt-accepted',
                               'agree:bincode-roundtrip',
                               'agree:cbor-roundtrip',
                               'agree:bincode-overlong-rejected',
                               'agree:cbor-overlong-rejected',
                               'cover:wire:legal',
                               'cover:wire:overlong',
                               'agree:wire-untyped-rejected',
                               'agree:wire-native-rejected'],
         'rule': 'Families: bytes 20% — EXHAUSTIVE all 65 793 byte strings of length <= 2 (chunks split by shard; note pushed to stats.exhaustive with the '
                 'count checked by the shard), then random 0..300 bytes: every constructor (try_from_slice, from_slice, TryFrom<&[u8]>/<Vec<u8>>/<&Vec<u8>>), '
                 'accessors, to_text/Display == R6 text, from_text/FromStr/TryFrom<&str> of it; single-character edits 35% — one random principal, one '
                 'position, all 59 substitution and insertion characters (alphabet, upper case, 0 1 8 9 = _ space dash, controls, Kelvin sign, long s, dotless '
                 'i, full-width a, soft hyphen, ZWSP, BOM), deletion, transposition; spellings 25% — upper/mixed case, dashes '
                 'removed/moved/doubled/leading/trailing/regrouped, every prefix and suffix, wrong checksum with perfect grouping, 30..200-byte payloads with '
                 'correct checksum, empty/dashes/whitespace, non-zero trailing bits, padding, random alphabet strings; serde 10% — serde_json, bincode, '
                 'serde_cbor round trip, exact wire form, JSON strings with 8 kinds of non-canonical spelling, over-long byte strings into bincode/cbor; wire '
                 '10% — DIDL 00 01 68 01 <leb len> <bytes> for 0..200 bytes through IDLArgs::from_bytes, Decode!(_, Principal) and Encode!. Verdict: '
                 'from_text(s) is Ok(p) iff principal_parse_strict(s) == Some(p.bytes). Non-trivial: every text that is not the canonical one; distinct by '
                 'hash of the text / bytes.'},
 'C17': {'assumptions': ['the IDL recorder models the constructor surface of the JS candid library used by generated code, incl. idlLabelToId (`_N_` = id N, '
                         'otherwise hash of the UTF-8 bytes) and Object.entries semantics; codecs are not modelled',
                         "programs rejected by candid's checker are counted under excluded:not-accepted (agreement is C12/C14's business)",
                         'ad-hoc generator avoids two checker problems outside C17: func->nested service->method `m : F` cycles (validate_type recursion, '
                         "'Recursion limit exceeded') and record field id 2^32-1 (grammar `id + 1` overflow)"],
         'budget_quick': 30,
         'budget_thorough': 180,
         'inconclusive_counters': ['inconclusive:node-missing', 'inconclusive:node-unusable'],
         'lanes_quick': ['D', 'R'],
         'lanes_thorough': ['D', 'R'],
         'max_workers': 8,
         'required_counters': ['executed',
                               'node-runs',
                               'outcome:equal',
                               'cover:js-rec',
                               'cover:js-getType',
                               'cover:init-args',
                               'cover:actor:var',
                               'cover:actor:class',
                               'cover:def:js-keyword',
                               'cover:label:needs-quotes',
                               'producer:prog-random',
                               'producer:adhoc-mixed'],
         'rule': 'every generated well-typed program with a main service (ad-hoc generator: mixed / hostile / keyword / recursive name classes; crate::prog '
                 'random + hostile; the 16 repo assets with a service) is compiled by bindings::javascript::compile, imported by node 20 as an ES module '
                 "(strict mode) against the recording IDL (js/idl_recorder.mjs, object keys -> field ids as @dfinity/candid's idlLabelToId) and the recorded "
                 'service and init graphs must be requal2 to the model types. non-trivial = distinct program texts whose module was executed and that have >= '
                 '1 method or init arg'},
 'C18': {'assumptions': ['only the emitted *type definitions* are compiled (ic_cdk / ic-agent are not available offline), with `use candid::{self, CandidType, '
                         'Deserialize, Principal};` as in the templates; call stubs are checked textually in C19',
                         "rustc's deny-by-default bidi-codepoint lints on doc comment *content* are allowed in the generated crate",
                         'a compile error is reported only after the module failed again when compiled alone (cargo check)',
                         'differences without a recognised root cause are reported under their generic shape class only if nothing in the same program has a '
                         'recognised cause (overlapping defects give unstable shapes); they are counted otherwise'],
         'budget_quick': 110,
         'budget_thorough': 360,
         'inconclusive_counters': ['inconclusive:cargo-pipeline-failed', 'inconclusive:prebuild-failed'],
         'lanes_quick': ['D'],
         'lanes_thorough': ['D'],
         'max_workers': 1,
         'max_workers_thorough': 4,
         'required_counters': ['modules-compiled', 'agree:type', 'outcome:compiles', 'cover:module-A', 'cover:module-B', 'rounds'],
         'rule': 'every generated well-typed program: emit_bindgen (A) as is and (B) with a synthetic service vrf_m_i : (Def_i)->(Def_i); the emitted type '
                 'definitions are compiled in a generated crate (rsbind/), the binary prints T::ty() of every definition / method argument / result / init '
                 'argument as a type graph, each must be requal2 to the model; syn-level: item names distinct, field/variant names distinct, two probed items '
                 'with the same Rust type expression have equal source types. non-trivial = distinct programs with >= 1 item judged after compilation'},
 'C19': {'assumptions': ['NO TypeScript or Motoko compiler in the sandbox: closure and injection are checked lexically/structurally only (lexers written from '
                         "ECMAScript §12 / motoko source_lexer.mll); type errors, TS reserved type names (`type string`), Motoko's missing Float32 etc. are "
                         'out of reach',
                         'Motoko is generated only when every method name of every service type is an ASCII identifier (documented panic otherwise)',
                         'trailing separators before a closing bracket are dropped before token streams are compared (pretty-printer layout)',
                         'the names differential needs a twin whose placeholder hashes keep the field order; cases without one are excluded and counted'],
         'budget_quick': 40,
         'budget_thorough': 240,
         'inconclusive_counters': ['inconclusive:node-missing', 'inconclusive:node-unusable'],
         'lanes_quick': ['D', 'R'],
         'lanes_thorough': ['D', 'R'],
         'max_workers': 8,
         'required_counters': ['checked:js',
                               'checked:ts',
                               'checked:motoko',
                               'checked:rust',
                               'agree:ts-methods',
                               'agree:motoko-methods',
                               'agree:rust-methods',
                               'agree:docs:ts',
                               'agree:docs:motoko',
                               'agree:docs:rust',
                               'agree:names:ts',
                               'agree:names:motoko',
                               'generated:rust-agent',
                               'generated:rust-stub',
                               'producer:prog-random'],
         'rule': 'every generated well-typed program (with/without service and init args; ad-hoc + crate::prog + all 17 checked assets): '
                 'JS/TS/Motoko/Rust(canister_call; 1/3 of the cases also agent+stub) generators under catch_unwind, twice (identical); JS executed by node '
                 '(definitions-only output wrapped into a factory); Rust parsed by syn (referenced single-ident types defined, one fn per method, call '
                 'literals = method names, serde renames = labels, define_service! literals escaped, stub metadata literal); TS/Motoko lexed by own lexers: '
                 'definitions unique, referenced type names defined, service methods exactly once; differentials: same program with vs without (hostile) docs '
                 '-> identical code tokens (TS, Motoko, Rust via proc_macro2, JS text); hostile names vs order-preserving benign twin -> identical token '
                 'kinds, TS string payload decodes to the name. non-trivial = distinct program texts'},
 'C20': {'assumptions': ['values are compared by abstract meaning (blob == vec nat8, None == null at opt, anything at reserved); a Vec->Blob change by '
                         'annotate_types is counted (note:annotate-changes-representation), not flagged',
                         'Err is always an acceptable outcome (also for inhabited types)',
                         'budget slack: allowed depth = configured depth + sum of static depths of reachable definitions + 2; allowed nodes = '
                         '(size+10)*(width+1)^min(static depth,6)*#types; only 20x / 100x excesses are flagged; cases with a per-definition depth/size '
                         'override are not budget-judged',
                         'shape classes with two recursion-until-stack-guard witnesses are afterwards run at 1/16 (skipped:known-runaway-shape): each such '
                         'call costs 0.1 s (debug) to seconds (release)',
                         'value lists never contain the record id 2^32-1 (value grammar overflow = C13 finding)',
                         'a helper that is silent for 120 s is killed and counted (anomaly:helper-silent-for-120s), never a verdict'],
         'budget_quick': 20,
         'budget_thorough': 120,
         'lanes_quick': ['D', 'R'],
         'lanes_thorough': ['D', 'R'],
         'required_counters': ['agree:typed+annotated+encoded',
                               'outcome:ok',
                               'outcome:err',
                               'helper:spawned',
                               'cover:type-class:finite',
                               'cover:type-class:recursive',
                               'cover:type-class:vec-recursion',
                               'cover:type-class:uninhabited-recursive',
                               'cover:type-class:variant-empty',
                               'cover:type-class:empty',
                               'cover:seed:empty',
                               'cover:seed:short',
                               'cover:seed:long',
                               'cover:seed:all-zero',
                               'cover:seed:all-0xff',
                               'cover:seed:random',
                               'cover:config:depth',
                               'cover:config:size',
                               'cover:config:width',
                               'cover:config:range',
                               'cover:config:text',
                               'cover:config:value-well-typed-arg',
                               'cover:config:value-ill-typed-arg',
                               'cover:config:scoped',
                               'cover:ok-with-well-typed-value-list'],
         'rule': 'random::any(seed, configs, env, types, scope) over generated environments/type lists (gen::types incl. empty, variant {}, uninhabited, '
                 'list/tree/vec-recursive, reference types, 60-deep nesting) x seeds (empty, short, long 1-8 KiB, all-zero, all-0xff, pattern, random) x TOML '
                 'configs (depth/size/width/range/text kind at top level, by type, by label, by argument, by func:/arg:/ret: scope; value lists well- and '
                 'ill-typed): result is Err, or Ok(args) with len == #types, R7 has_type(model_value(arg), t), annotate_types(false) returns the same abstract '
                 'values, to_bytes_with_types Ok and the reference decoder R1 reads the same values; no panic / process death on a 2 MiB stack (calls run in a '
                 'forked helper process so a death is reported with its witness); value depth must not exceed (configured depth + longest forced completion of '
                 'the types + 1) when depth is set at the top level and no value list applies (every type node on a path costs one unit; below zero only '
                 'absent options, empty vectors, finite variant cases and all record fields are produced); node count vs configured size recorded in maxima, '
                 'flagged at 100x. non-trivial = distinct (type shapes, seed class, config class, outcome)'},
 'selftest': {'budget_quick': 8,
              'budget_thorough': 30,
              'lanes_quick': ['D'],
              'lanes_thorough': ['D'],
              'max_workers': 4,
              'required_counters': ['spec:agree'],
              'rule': 'model self-tests: every assert of /repo/test/*.test.did replayed through R1+R2; random (env, types, values): R1 encode/decode identity, '
                      'R2 identity coercion, R3 reflexive, R3-yes implies R2 succeeds. non-trivial = distinct (wire type, expected type) pairs or distinct '
                      'spec assertions'}}
