#!/bin/bash
# run every check once (tier $1, default quick) and print one summary block per property
tier=${1:-quick}
for p in C01 C02 C03 C04 C05 C06 C07 C08 C09 C10 C11 C12 C13 C14 C15 C16 C17 C18 C19 C20; do
  ./check $p $tier > work/run_$p.log 2>&1; rc=$?
  echo "== $p rc=$rc $(grep -E "^$p $tier:" work/run_$p.log | cut -c1-160)"
  grep -E "^(VIOLATION|KNOWN-FINDING|INCONCLUSIVE|HARNESS-ERROR)" work/run_$p.log | cut -c1-260 | head -${2:-12}
done
