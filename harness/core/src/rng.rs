//! Deterministic SplitMix64 generator; all randomness in the harness comes from here.
#[derive(Clone, Debug)]
pub struct Rng(pub u64);

pub fn mix(mut z: u64) -> u64 {
    z = z.wrapping_add(0x9E37_79B9_7F4A_7C15);
    z = (z ^ (z >> 30)).wrapping_mul(0xBF58_476D_1CE4_E5B9);
    z = (z ^ (z >> 27)).wrapping_mul(0x94D0_49BB_1331_11EB);
    z ^ (z >> 31)
}

pub fn hash_str(s: &str) -> u64 {
    let mut h = 0xcbf2_9ce4_8422_2325u64;
    for b in s.as_bytes() {
        h ^= *b as u64;
        h = h.wrapping_mul(0x0100_0000_01b3);
    }
    h
}
pub fn hash_bytes(s: &[u8]) -> u64 {
    let mut h = 0xcbf2_9ce4_8422_2325u64;
    for b in s {
        h ^= *b as u64;
        h = h.wrapping_mul(0x0100_0000_01b3);
    }
    mix(h)
}

impl Rng {
    pub fn new(seed: u64) -> Self {
        Rng(mix(seed ^ 0xA5A5_5A5A_1234_5678))
    }
    /// Derive a generator for (seed, property, shard, case).
    pub fn for_case(seed: u64, prop: &str, shard: u64, case: u64) -> Self {
        let mut h = mix(seed);
        h = mix(h ^ hash_str(prop));
        h = mix(h ^ shard.wrapping_mul(0x9E37_79B9));
        h = mix(h ^ case.wrapping_mul(0xD1B5_4A32_D192_ED03));
        Rng(h)
    }
    pub fn next(&mut self) -> u64 {
        self.0 = self.0.wrapping_add(0x9E37_79B9_7F4A_7C15);
        let mut z = self.0;
        z = (z ^ (z >> 30)).wrapping_mul(0xBF58_476D_1CE4_E5B9);
        z = (z ^ (z >> 27)).wrapping_mul(0x94D0_49BB_1331_11EB);
        z ^ (z >> 31)
    }
    /// uniform in 0..n (n > 0)
    pub fn below(&mut self, n: u64) -> u64 {
        if n == 0 {
            return 0;
        }
        self.next() % n
    }
    pub fn range(&mut self, lo: u64, hi_incl: u64) -> u64 {
        lo + self.below(hi_incl - lo + 1)
    }
    pub fn usize(&mut self, n: usize) -> usize {
        self.below(n as u64) as usize
    }
    pub fn bool(&mut self) -> bool {
        self.next() & 1 == 1
    }
    /// true with probability num/den
    pub fn chance(&mut self, num: u64, den: u64) -> bool {
        self.below(den) < num
    }
    pub fn pick<'a, T>(&mut self, xs: &'a [T]) -> &'a T {
        &xs[self.usize(xs.len())]
    }
    pub fn bytes(&mut self, n: usize) -> Vec<u8> {
        (0..n).map(|_| self.next() as u8).collect()
    }
    pub fn shuffle<T>(&mut self, xs: &mut [T]) {
        for i in (1..xs.len()).rev() {
            let j = self.usize(i + 1);
            xs.swap(i, j);
        }
    }
    pub fn fork(&mut self) -> Rng {
        Rng(mix(self.next()))
    }
}
