//! Upgrade steps: derive an expected-side environment and types from the wire side by local edits.
//! `legal` edits move to a supertype by the spec's rules; illegal twins do the opposite. The
//! oracle (R3/R2) decides what actually holds; the flags only steer the distribution.
use super::types::{gen_field_ids, TypeCfg, TypeGen};
use crate::model::*;
use crate::rng::Rng;

pub struct Upgrader<'a> {
    pub cfg: &'a TypeCfg,
    /// percent chance that an edit is applied at a node
    pub edit_pct: u64,
    /// percent of edits that are illegal twins
    pub illegal_pct: u64,
    pub edits: u64,
}

fn fresh_data(rng: &mut Rng, cfg: &TypeCfg, ndefs: usize) -> RType {
    let mut c = cfg.clone();
    c.refs = false;
    c.max_depth = 2;
    let env = REnv(vec![RType::Null; ndefs]);
    super::types::gen_types(rng, &c, &env, 1).pop().unwrap()
}

impl<'a> Upgrader<'a> {
    pub fn new(cfg: &'a TypeCfg) -> Self {
        Upgrader {
            cfg,
            edit_pct: 25,
            illegal_pct: 25,
            edits: 0,
        }
    }
    /// `covariant`: true when a supertype is wanted at this position, false for a subtype.
    pub fn up(&mut self, rng: &mut Rng, t: &RType, ndefs: usize, covariant: bool) -> RType {
        let edit = rng.below(100) < self.edit_pct;
        let illegal = edit && rng.below(100) < self.illegal_pct;
        // an illegal twin is the legal edit for the opposite polarity
        let pol = if illegal { !covariant } else { covariant };
        if edit {
            self.edits += 1;
            if let Some(t2) = self.edit(rng, t, ndefs, pol) {
                return t2;
            }
        }
        match t {
            RType::Opt(x) => RType::opt(self.up(rng, x, ndefs, covariant)),
            RType::Vec(x) => RType::vec(self.up(rng, x, ndefs, covariant)),
            RType::Record(fs) => RType::Record(
                fs.iter()
                    .map(|(i, x)| (*i, self.up(rng, x, ndefs, covariant)))
                    .collect(),
            ),
            RType::Variant(fs) => RType::Variant(
                fs.iter()
                    .map(|(i, x)| (*i, self.up(rng, x, ndefs, covariant)))
                    .collect(),
            ),
            RType::Func { args, rets, modes } => RType::Func {
                args: args.iter().map(|x| self.up(rng, x, ndefs, !covariant)).collect(),
                rets: rets.iter().map(|x| self.up(rng, x, ndefs, covariant)).collect(),
                modes: modes.clone(),
            },
            RType::Service(ms) => RType::Service(
                ms.iter()
                    .map(|(n, x)| (n.clone(), self.up(rng, x, ndefs, covariant)))
                    .collect(),
            ),
            t => t.clone(),
        }
    }

    /// One local edit; `sup` = produce a supertype (else a subtype).
    fn edit(&mut self, rng: &mut Rng, t: &RType, ndefs: usize, sup: bool) -> Option<RType> {
        Some(match t {
            RType::Nat if sup => RType::Int,
            RType::Int if !sup => RType::Nat,
            RType::Service(_) if sup && rng.chance(1, 3) => RType::Principal,
            RType::Record(fs) => {
                let mut fs = fs.clone();
                match (rng.below(3), sup) {
                    // supertype drops a field / subtype adds one
                    (0, true) if !fs.is_empty() => {
                        let k = rng.usize(fs.len());
                        fs.remove(k);
                    }
                    (0, false) | (1, true) => {
                        // add a field: for a supertype it must be optional
                        let ids = gen_field_ids(rng, fs.len() + 1);
                        let id = ids.into_iter().find(|i| !fs.iter().any(|f| f.0 == *i))?;
                        let ft = if sup {
                            match rng.below(3) {
                                0 => RType::opt(fresh_data(rng, self.cfg, ndefs)),
                                1 => RType::Null,
                                _ => RType::Reserved,
                            }
                        } else {
                            fresh_data(rng, self.cfg, ndefs)
                        };
                        fs.push((id, ft));
                        fs.sort_by_key(|f| f.0);
                    }
                    (1, false) if !fs.is_empty() => {
                        // subtype may drop only optional fields of the supertype; dropping any is the illegal-ish twin
                        let k = rng.usize(fs.len());
                        fs.remove(k);
                    }
                    _ => return None,
                }
                RType::Record(fs)
            }
            RType::Variant(fs) => {
                let mut fs = fs.clone();
                if sup == rng.chance(4, 5) {
                    // supertype adds a case
                    let ids = gen_field_ids(rng, fs.len() + 1);
                    let id = ids.into_iter().find(|i| !fs.iter().any(|f| f.0 == *i))?;
                    fs.push((id, fresh_data(rng, self.cfg, ndefs)));
                    fs.sort_by_key(|f| f.0);
                } else if !fs.is_empty() {
                    let k = rng.usize(fs.len());
                    fs.remove(k);
                } else {
                    return None;
                }
                RType::Variant(fs)
            }
            RType::Func { args, rets, modes } => {
                let mut args = args.clone();
                let mut rets = rets.clone();
                let mut modes = modes.clone();
                match rng.below(4) {
                    0 => {
                        // supertype function takes fewer/more-special args: drop or add trailing arg
                        if sup && !args.is_empty() {
                            args.pop();
                        } else {
                            args.push(if sup {
                                fresh_data(rng, self.cfg, ndefs)
                            } else {
                                RType::opt(fresh_data(rng, self.cfg, ndefs))
                            });
                        }
                    }
                    1 => {
                        if !sup && modes != vec![Mode::Oneway] {
                            rets.push(fresh_data(rng, self.cfg, ndefs));
                        } else if !rets.is_empty() {
                            rets.pop();
                        } else {
                            return None;
                        }
                    }
                    2 if rng.chance(1, 4) => {
                        modes = if modes.is_empty() && rets.is_empty() {
                            vec![Mode::Oneway]
                        } else if modes.is_empty() {
                            vec![Mode::Query]
                        } else {
                            vec![]
                        };
                    }
                    _ => return None,
                }
                RType::Func { args, rets, modes }
            }
            RType::Service(ms) if !ms.is_empty() && sup => {
                let mut ms = ms.clone();
                let k = rng.usize(ms.len());
                ms.remove(k);
                RType::Service(ms)
            }
            t if sup => match rng.below(6) {
                0 => RType::Reserved,
                1 | 2 => RType::opt(t.clone()),
                3 => RType::opt(fresh_data(rng, self.cfg, ndefs)),
                _ => return None,
            },
            RType::Opt(x) if !sup && rng.chance(1, 2) => (**x).clone(),
            _ if !sup && rng.chance(1, 6) => RType::Empty,
            _ => {
                // unrelated replacement
                if rng.chance(1, 3) {
                    fresh_data(rng, self.cfg, ndefs)
                } else {
                    return None;
                }
            }
        })
    }

    /// Upgrade a whole environment consistently (definition i stays definition i) and the types.
    pub fn up_env(&mut self, rng: &mut Rng, env: &REnv, types: &[RType]) -> (REnv, Vec<RType>) {
        let n = env.0.len();
        let mut out = Vec::new();
        for (i, d) in env.0.iter().enumerate() {
            let mut d2 = self.up(rng, d, n, true);
            // keep definitions well-founded and services' methods functions
            if let RType::Ref(j) = d2 {
                if j >= i {
                    d2 = d.clone();
                }
            }
            if matches!(d, RType::Func { .. }) && !matches!(d2, RType::Func { .. }) {
                d2 = d.clone();
            }
            out.push(d2);
        }
        let mut env2 = REnv(out);
        let ts = types.iter().map(|t| self.up(rng, t, n, true)).collect::<Vec<_>>();
        fix_methods(&mut env2);
        let ts = ts.into_iter().map(|t| fix_methods_ty(&env2, t)).collect();
        (env2, ts)
    }
}

/// Service methods must stay functions after editing: replace offenders by a trivial function.
fn fix_methods_ty(env: &REnv, t: RType) -> RType {
    match t {
        RType::Service(ms) => RType::Service(
            ms.into_iter()
                .map(|(n, mt)| {
                    let ok = matches!(env.unfold(&mt), Some(RType::Func { .. }));
                    let mt = if ok {
                        fix_methods_ty(env, mt)
                    } else {
                        RType::func(vec![], vec![], vec![])
                    };
                    (n, mt)
                })
                .collect(),
        ),
        RType::Opt(x) => RType::opt(fix_methods_ty(env, *x)),
        RType::Vec(x) => RType::vec(fix_methods_ty(env, *x)),
        RType::Record(fs) => RType::Record(fs.into_iter().map(|(i, x)| (i, fix_methods_ty(env, x))).collect()),
        RType::Variant(fs) => RType::Variant(fs.into_iter().map(|(i, x)| (i, fix_methods_ty(env, x))).collect()),
        RType::Func { args, rets, modes } => RType::Func {
            args: args.into_iter().map(|x| fix_methods_ty(env, x)).collect(),
            rets: rets.into_iter().map(|x| fix_methods_ty(env, x)).collect(),
            modes,
        },
        t => t,
    }
}
fn fix_methods(env: &mut REnv) {
    let snapshot = env.clone();
    for d in env.0.iter_mut() {
        *d = fix_methods_ty(&snapshot, d.clone());
    }
}

#[allow(dead_code)]
fn _unused(_: &TypeGen) {}
