//! Random inhabitants of model types, biased to boundaries.
use crate::model::*;
use crate::rng::Rng;
use num_bigint::{BigInt, BigUint};
use num_traits::One;

pub const INF: u64 = 1 << 40;

/// Minimal node count of a value of each definition (least fixed point; INF = uninhabited).
pub fn min_costs(env: &REnv) -> Vec<u64> {
    let n = env.0.len();
    let mut c = vec![INF; n];
    loop {
        let mut changed = false;
        for i in 0..n {
            let v = cost(&env.0[i], &c);
            if v < c[i] {
                c[i] = v;
                changed = true;
            }
        }
        if !changed {
            return c;
        }
    }
}
pub fn cost(t: &RType, c: &[u64]) -> u64 {
    match t {
        RType::Empty => INF,
        RType::Ref(i) => c.get(*i).copied().unwrap_or(INF),
        RType::Opt(_) | RType::Vec(_) => 1,
        RType::Record(fs) => fs.iter().fold(1u64, |a, f| (a + cost(&f.1, c)).min(INF)),
        RType::Variant(fs) => fs.iter().map(|f| (1 + cost(&f.1, c)).min(INF)).min().unwrap_or(INF),
        RType::Future => INF,
        _ => 1,
    }
}
pub fn inhabited(env: &REnv, costs: &[u64], t: &RType) -> bool {
    let _ = env;
    cost(t, costs) < INF
}

pub const TEXT_POOL: &[&str] = &[
    "",
    "a",
    "hello",
    "\u{0}",
    "\u{0}1",
    "\u{0}a",
    "a\u{0}",
    "\u{7f}",
    "\u{1}",
    "\u{1f}",
    "\"",
    "\\",
    "\\\"",
    "'",
    "\n",
    "\r\n",
    "\t",
    "\u{d7ff}",
    "\u{e000}",
    "\u{301}",
    "e\u{301}",
    "\u{200b}",
    "\u{202e}abc",
    "\u{feff}",
    "\u{10ffff}",
    "\u{1F600}",
    "名前",
    "ü",
    "\\u{41}",
    "\\41",
    "*/",
    "{}",
    " ",
    "  leading",
    "trailing  ",
    "\u{85}",
    "\u{a0}",
    "\u{2028}",
    "\u{ad}",
    "\u{600}",
    "\u{e0001}",
    "\u{fffd}",
    "\u{ffff}",
];

pub fn gen_char(rng: &mut Rng) -> char {
    match rng.below(10) {
        0 => rng.below(0x20) as u8 as char,
        1 => *rng.pick(&['"', '\\', '\'', '\u{7f}', '\u{0}', '`', '{', '}', '/', '*']),
        2 | 3 => (0x20 + rng.below(0x5f) as u8) as char,
        4 => char::from_u32(0x80 + rng.below(0x780) as u32).unwrap_or('x'),
        5 => char::from_u32(0x300 + rng.below(0x70) as u32).unwrap_or('x'),
        6 => *rng.pick(&['\u{d7ff}', '\u{e000}', '\u{fffd}', '\u{ffff}', '\u{10000}', '\u{10ffff}', '\u{feff}']),
        7 => (b'0' + rng.below(10) as u8) as char,
        8 => *rng.pick(&['a', 'b', 'c', 'd', 'e', 'f', 'A', 'F', 'u', 'x', 'n', 'r', 't']),
        _ => loop {
            let c = rng.below(0x110000) as u32;
            if let Some(c) = char::from_u32(c) {
                break c;
            }
        },
    }
}

pub fn gen_text(rng: &mut Rng) -> String {
    if rng.chance(1, 3) {
        return rng.pick(TEXT_POOL).to_string();
    }
    let n = match rng.below(10) {
        0 => 0,
        1..=6 => 1 + rng.usize(6),
        7 | 8 => rng.usize(30),
        _ => rng.usize(200),
    };
    (0..n).map(|_| gen_char(rng)).collect()
}

pub fn gen_biguint(rng: &mut Rng) -> BigUint {
    let one = BigUint::one();
    match rng.below(12) {
        0 => BigUint::from(0u8),
        1 => BigUint::from(rng.below(128)),
        2 => BigUint::from(rng.below(1 << 14)),
        3 => BigUint::from(rng.next()),
        4 => BigUint::from(rng.next() >> rng.below(64)),
        5 => {
            // 2^k + {-1,0,1}
            let k = *rng.pick(&[7u32, 8, 14, 31, 32, 56, 62, 63, 64, 65, 70, 126, 127, 128, 129, 200]);
            let p = &one << k;
            match rng.below(3) {
                0 => &p - &one,
                1 => p,
                _ => &p + &one,
            }
        }
        6 => {
            let k = rng.below(201) as u32;
            &one << k
        }
        7 => {
            let n = 1 + rng.usize(40);
            BigUint::from_bytes_le(&rng.bytes(n))
        }
        8 => BigUint::from(u64::MAX) - BigUint::from(rng.below(3)),
        9 => BigUint::from(1u64 << 63) - BigUint::from(rng.below(3)),
        10 => BigUint::from(u128::MAX) - BigUint::from(rng.below(3)),
        _ => BigUint::from(rng.next() as u128 * rng.next() as u128),
    }
}
pub fn gen_bigint(rng: &mut Rng) -> BigInt {
    let m = BigInt::from(gen_biguint(rng));
    match rng.below(5) {
        0 | 1 => m,
        2 | 3 => -m,
        _ => -m - 1, // lands on -(2^k) etc.
    }
}

fn boundary_u64(rng: &mut Rng, bits: u32) -> u64 {
    let max = if bits == 64 { u64::MAX } else { (1u64 << bits) - 1 };
    match rng.below(6) {
        0 => 0,
        1 => max,
        2 => max >> 1,
        3 => (max >> 1) + 1,
        4 => rng.below(3),
        _ => rng.next() & max,
    }
}

pub struct ValGen<'a> {
    pub env: &'a REnv,
    pub costs: Vec<u64>,
    /// cap on vector length
    pub max_len: usize,
}

impl<'a> ValGen<'a> {
    pub fn new(env: &'a REnv) -> Self {
        ValGen {
            env,
            costs: min_costs(env),
            max_len: 4,
        }
    }
    pub fn inhabited(&self, t: &RType) -> bool {
        cost(t, &self.costs) < INF
    }
    /// `fuel` bounds the size; when it runs out the smallest inhabitant is produced.
    pub fn gen(&self, rng: &mut Rng, t: &RType, fuel: &mut i64) -> Option<RValue> {
        if !self.inhabited(t) {
            return None;
        }
        *fuel -= 1;
        let small = *fuel <= 0;
        Some(match t {
            RType::Ref(i) => {
                *fuel += 1;
                return self.gen(rng, &self.env.0[*i], fuel);
            }
            RType::Null => RValue::Null,
            RType::Reserved => RValue::Reserved,
            RType::Empty | RType::Future => return None,
            RType::Bool => RValue::Bool(rng.bool()),
            RType::Nat => RValue::Nat(gen_biguint(rng)),
            RType::Int => RValue::Int(gen_bigint(rng)),
            RType::Nat8 => RValue::Nat8(boundary_u64(rng, 8) as u8),
            RType::Nat16 => RValue::Nat16(boundary_u64(rng, 16) as u16),
            RType::Nat32 => RValue::Nat32(boundary_u64(rng, 32) as u32),
            RType::Nat64 => RValue::Nat64(boundary_u64(rng, 64)),
            RType::Int8 => RValue::Int8(boundary_u64(rng, 8) as i8),
            RType::Int16 => RValue::Int16(boundary_u64(rng, 16) as i16),
            RType::Int32 => RValue::Int32(boundary_u64(rng, 32) as i32),
            RType::Int64 => RValue::Int64(boundary_u64(rng, 64) as i64),
            RType::Float32 => RValue::Float32(gen_f32(rng).to_bits()),
            RType::Float64 => RValue::Float64(gen_f64(rng).to_bits()),
            RType::Text => RValue::Text(if small { String::new() } else { gen_text(rng) }),
            RType::Principal => RValue::Principal(gen_principal(rng)),
            RType::Service(_) => RValue::Service(gen_principal(rng)),
            RType::Func { .. } => RValue::Func(gen_principal(rng), if small { "m".into() } else { gen_text(rng) }),
            RType::Opt(inner) => {
                if small || !self.inhabited(inner) || rng.chance(1, 4) {
                    RValue::Null
                } else {
                    RValue::opt(self.gen(rng, inner, fuel)?)
                }
            }
            RType::Vec(inner) => {
                if small || !self.inhabited(inner) {
                    RValue::Vec(vec![])
                } else {
                    let n = match rng.below(8) {
                        0 => 0,
                        7 => self.max_len * 3,
                        _ => 1 + rng.usize(self.max_len),
                    };
                    let mut vs = Vec::new();
                    for _ in 0..n {
                        vs.push(self.gen(rng, inner, fuel)?);
                    }
                    RValue::Vec(vs)
                }
            }
            RType::Record(fs) => {
                let mut out = Vec::new();
                for (id, ft) in fs {
                    out.push((*id, self.gen(rng, ft, fuel)?));
                }
                RValue::Record(out)
            }
            RType::Variant(fs) => {
                let alive: Vec<&(u32, RType)> = fs.iter().filter(|f| self.inhabited(&f.1)).collect();
                if alive.is_empty() {
                    return None;
                }
                let f = if small {
                    alive.iter().min_by_key(|f| cost(&f.1, &self.costs)).unwrap()
                } else {
                    rng.pick(&alive)
                };
                RValue::Variant(f.0, Box::new(self.gen(rng, &f.1, fuel)?))
            }
        })
    }
}

pub fn gen_principal(rng: &mut Rng) -> Vec<u8> {
    let n = match rng.below(6) {
        0 => 0,
        1 => 1,
        2 => 29,
        3 => 10,
        _ => rng.usize(30),
    };
    rng.bytes(n)
}

pub fn gen_f64(rng: &mut Rng) -> f64 {
    match rng.below(10) {
        0 => 0.0,
        1 => -0.0,
        2 => 1.0,
        3 => -1.5,
        4 => f64::MAX,
        5 => f64::MIN_POSITIVE,
        6 => 5e-324,
        7 => rng.below(1 << 53) as f64,
        8 => 1e21 * (1 + rng.below(100)) as f64,
        _ => loop {
            let f = f64::from_bits(rng.next());
            if f.is_finite() {
                break f;
            }
        },
    }
}
pub fn gen_f32(rng: &mut Rng) -> f32 {
    match rng.below(8) {
        0 => 0.0,
        1 => -0.0,
        2 => 1.0,
        3 => 0.1,
        4 => f32::MAX,
        5 => f32::MIN_POSITIVE,
        6 => rng.below(1 << 24) as f32,
        _ => loop {
            let f = f32::from_bits(rng.next() as u32);
            if f.is_finite() {
                break f;
            }
        },
    }
}
