//! Hostile byte strings: structure-aware mutations of valid messages and hand-built bombs.
use crate::model::leb::*;
use crate::rng::Rng;
use num_bigint::BigUint;

const INTERESTING: &[u8] = &[
    0x00, 0x01, 0x02, 0x7f, 0x80, 0xff, 0x68, 0x69, 0x6a, 0x6b, 0x6c, 0x6d, 0x6e, 0x6f, 0x70, 0x71, 0x7b, 0x7c, 0x7d,
    0x7e, 0x67, 0x40, 0x3f,
];

fn big_leb(rng: &mut Rng) -> Vec<u8> {
    match rng.below(9) {
        0 => leb_u64(u32::MAX as u64),
        1 => leb_u64(1 << 32),
        2 => leb_u64(1 << 63),
        3 => leb_u64(u64::MAX),
        4 => leb_padded(&BigUint::from(rng.below(4)), 1 + rng.usize(12)),
        5 => vec![0xff; 1 + rng.usize(20)], // unterminated
        6 => leb_u64(10_001),
        7 => leb_u64((1 << 40) + rng.below(1000)),
        _ => {
            let mut v = vec![0xff; 9 + rng.usize(3)];
            v.push(0x01);
            v
        }
    }
}

/// Find offsets that look like the start of a LEB128 number (any byte) and replace it.
pub fn mutate(rng: &mut Rng, msg: &[u8]) -> Vec<u8> {
    let mut m = msg.to_vec();
    let rounds = 1 + rng.usize(3);
    for _ in 0..rounds {
        if m.is_empty() {
            m.push(rng.next() as u8);
            continue;
        }
        let lo = if m.len() > 4 && rng.chance(9, 10) { 4 } else { 0 };
        let pos = lo + rng.usize(m.len() - lo);
        match rng.below(12) {
            0 => m[pos] ^= 1 << rng.below(8),
            1 => m[pos] = *rng.pick(INTERESTING),
            2 => m[pos] = rng.next() as u8,
            3 => {
                m.insert(pos, *rng.pick(INTERESTING));
            }
            4 => {
                m.remove(pos);
            }
            5 => m.truncate(pos),
            6 => {
                // splice: duplicate a chunk
                let len = 1 + rng.usize(8.min(m.len() - pos));
                let chunk = m[pos..pos + len].to_vec();
                let at = lo + rng.usize(m.len() - lo + 1);
                for (i, b) in chunk.into_iter().enumerate() {
                    m.insert(at + i, b);
                }
            }
            7 => {
                // replace the number starting here by a hostile one
                let mut end = pos;
                while end < m.len() && m[end] & 0x80 != 0 {
                    end += 1;
                }
                end = (end + 1).min(m.len());
                let big = big_leb(rng);
                m.splice(pos..end, big);
            }
            8 => {
                // swap two bytes
                let q = lo + rng.usize(m.len() - lo);
                m.swap(pos, q);
            }
            9 => m.extend({ let n = 1 + rng.usize(4); rng.bytes(n) }),
            10 => {
                // increment / decrement
                m[pos] = if rng.bool() {
                    m[pos].wrapping_add(1)
                } else {
                    m[pos].wrapping_sub(1)
                };
            }
            _ => {
                // zero a run
                let len = 1 + rng.usize(4.min(m.len() - pos));
                for b in &mut m[pos..pos + len] {
                    *b = 0;
                }
            }
        }
    }
    m
}

fn msg(table: &[Vec<u8>], args: &[i64], values: &[u8]) -> Vec<u8> {
    let mut m = b"DIDL".to_vec();
    m.extend(leb_u64(table.len() as u64));
    for t in table {
        m.extend(t);
    }
    m.extend(leb_u64(args.len() as u64));
    for a in args {
        m.extend(sleb_i64(*a));
    }
    m.extend(values);
    m
}

pub const ZST_CODES: &[i64] = &[-1, -16]; // null, reserved

/// Hand-built hostile families. Returns (bytes, family name).
pub fn crafted(rng: &mut Rng) -> (Vec<u8>, &'static str) {
    match rng.below(16) {
        0 => {
            // vec of zero-sized elements with a huge length
            let code = *rng.pick(ZST_CODES);
            let t = vec![vec![0x6d], sleb_i64(code)].concat();
            let len = *rng.pick(&[1u64 << 20, 1 << 32, 1 << 40, u64::MAX >> 1, 5_000_000]);
            (msg(&[t], &[0], &leb_u64(len)), "zst-bomb:vec")
        }
        1 => {
            // vec of empty records
            let t0 = vec![0x6d, 0x01];
            let t1 = vec![0x6c, 0x00];
            let len = *rng.pick(&[1u64 << 20, 1 << 32, 1 << 36]);
            (msg(&[t0, t1], &[0], &leb_u64(len)), "zst-bomb:vec-record")
        }
        2 => {
            // nested vec vec null: outer length n, each inner huge
            let t0 = vec![0x6d, 0x01];
            let t1 = vec![0x6d, 0x7f];
            let n = 1 + rng.below(20);
            let mut v = leb_u64(n);
            for _ in 0..n {
                v.extend(leb_u64(1 << 24));
            }
            (msg(&[t0, t1], &[0], &v), "zst-bomb:nested")
        }
        3 => {
            // deep opt nesting through a recursive type: T0 = opt T0, value 01 01 01 ...
            let t0 = vec![0x6e, 0x00];
            let depth = *rng.pick(&[10usize, 100, 1000, 10_000, 100_000, 1_000_000]);
            let mut v = vec![1u8; depth];
            v.push(0);
            (msg(&[t0], &[0], &v), "deep:opt")
        }
        4 => {
            // deep vec nesting: T0 = vec T0, value 01 01 01 ... 00
            let t0 = vec![0x6d, 0x00];
            let depth = *rng.pick(&[10usize, 100, 1000, 10_000, 100_000, 1_000_000]);
            let mut v = vec![1u8; depth];
            v.push(0);
            (msg(&[t0], &[0], &v), "deep:vec")
        }
        5 => {
            // deep variant nesting: T0 = variant { 0: T0; 1: null }
            let t0 = vec![0x6b, 0x02, 0x00, 0x00, 0x01, 0x7f];
            let depth = *rng.pick(&[10usize, 1000, 100_000, 1_000_000]);
            let mut v = vec![0u8; depth];
            v.push(1);
            (msg(&[t0], &[0], &v), "deep:variant")
        }
        6 => {
            // record that contains itself (no finite value)
            let t0 = vec![0x6c, 0x01, 0x00, 0x00];
            (msg(&[t0], &[0], &[]), "mu-record")
        }
        7 => {
            // mutually recursive records through many entries
            let n = 2 + rng.usize(50);
            let table: Vec<Vec<u8>> = (0..n)
                .map(|i| {
                    let mut t = vec![0x6c, 0x01, 0x00];
                    t.extend(sleb_i64(((i + 1) % n) as i64));
                    t
                })
                .collect();
            (msg(&table, &[0], &[]), "mu-record:ring")
        }
        8 => {
            // huge table count with little data
            let mut m = b"DIDL".to_vec();
            m.extend(leb_u64(*rng.pick(&[9_999u64, 10_000, 10_001, 1 << 32, u64::MAX])));
            m.extend({ let n = rng.usize(8); rng.bytes(n) });
            (m, "table-count")
        }
        9 => {
            // huge arg count
            let mut m = b"DIDL\x00".to_vec();
            m.extend(leb_u64(*rng.pick(&[1u64 << 20, 1 << 32, u64::MAX])));
            m.extend(vec![0x7f; rng.usize(64)]);
            (m, "arg-count")
        }
        10 => {
            // many null args (legal): pending-argument queue grows
            let n = *rng.pick(&[100usize, 10_000, 100_000]);
            let mut m = b"DIDL\x00".to_vec();
            m.extend(leb_u64(n as u64));
            m.extend(vec![0x7f; n]);
            (m, "many-null-args")
        }
        11 => {
            // huge field count / method count / func arg count in a table entry
            let big = leb_u64(*rng.pick(&[1u64 << 20, (1 << 32) - 1, 1 << 32, 1 << 40]));
            let t = match rng.below(4) {
                0 => [vec![0x6c], big].concat(),
                1 => [vec![0x6b], big].concat(),
                2 => [vec![0x6a], big].concat(),
                _ => [vec![0x69], big].concat(),
            };
            (msg(&[t], &[0], &[0; 8]), "entry-count")
        }
        12 => {
            // text / blob with a length far beyond the input
            let code: i64 = if rng.bool() { -15 } else { 0 };
            let table = if code == 0 { vec![vec![0x6d, 0x7b]] } else { vec![] };
            let mut v = leb_u64(*rng.pick(&[1u64 << 20, 1 << 32, 1 << 62, u64::MAX]));
            v.extend({ let n = rng.usize(16); rng.bytes(n) });
            (msg(&table, &[code], &v), "length-bomb")
        }
        13 => {
            // primitive vectors with lengths whose byte size overflows
            let code = *rng.pick(&[-8i64, -12, -14, -7, -6]);
            let t = [vec![0x6d], sleb_i64(code)].concat();
            let len = *rng.pick(&[(1u64 << 61), (1 << 61) + 1, (1 << 62) - 1, u64::MAX / 8 + 1, 1 << 33]);
            let mut v = leb_u64(len);
            v.extend({ let n = rng.usize(32); rng.bytes(n) });
            (msg(&[t], &[0], &v), "primvec-overflow")
        }
        14 => {
            // future type with a huge blob, future value with huge lengths
            let mut t = sleb_i64(-25 - rng.below(100) as i64);
            t.extend(leb_u64(rng.below(4)));
            let tl = t.len();
            let blob_len = t[tl - 1] as usize;
            t.extend(rng.bytes(blob_len));
            let mut v = leb_u64(*rng.pick(&[0u64, 3, 1 << 32, u64::MAX]));
            v.extend(leb_u64(*rng.pick(&[0u64, 1, u64::MAX])));
            v.extend({ let n = rng.usize(6); rng.bytes(n) });
            (msg(&[t], &[0], &v), "future")
        }
        _ => {
            // over-long LEB128 nat / int values (10, 19, 20, 21, 40 bytes)
            let n = *rng.pick(&[9usize, 10, 11, 18, 19, 20, 21, 40, 1000]);
            let code = if rng.bool() { -3 } else { -4 };
            let mut v = vec![*rng.pick(&[0x80u8, 0xff, 0x81]); n - 1];
            v.push(*rng.pick(&[0x00u8, 0x01, 0x02, 0x3f, 0x40, 0x7f, 0x7e]));
            (msg(&[], &[code], &v), "long-leb")
        }
    }
}

pub fn random_after_magic(rng: &mut Rng) -> Vec<u8> {
    let mut m = b"DIDL".to_vec();
    let n = rng.usize(40);
    for _ in 0..n {
        if rng.chance(1, 2) {
            m.push(*rng.pick(INTERESTING));
        } else {
            m.push(rng.next() as u8);
        }
    }
    m
}
