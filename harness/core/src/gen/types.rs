//! Random type graphs.
use crate::model::misc::label_hash;
use crate::model::*;
use crate::rng::Rng;

#[derive(Clone, Debug)]
pub struct TypeCfg {
    pub max_defs: usize,
    pub max_depth: usize,
    pub max_fields: usize,
    /// allow func / service / principal
    pub refs: bool,
    /// allow `empty` and other uninhabited shapes
    pub empty: bool,
    /// probability (percent) that a leaf position is a reference to a definition
    pub ref_pct: u64,
}

impl Default for TypeCfg {
    fn default() -> Self {
        TypeCfg {
            max_defs: 5,
            max_depth: 4,
            max_fields: 4,
            refs: true,
            empty: true,
            ref_pct: 25,
        }
    }
}

pub const NAME_POOL: &[&str] = &[
    "a", "b", "c", "id", "name", "value", "head", "tail", "Ok", "Err", "ok", "err", "key", "x", "y", "_", "_0", "a_b",
    "record", "vec", "opt", "service", "func", "type", "import", "query", "oneway", "null", "text", "nat", "blob",
    "principal", "reserved", "empty", "if", "fn", "self", "class", "function", "let", "async", "await", "enum", "break",
    "with space", "quo\"te", "back\\slash", "comma,sep", "semi;colon", "new\nline", "tab\t", "nul\u{0}", "nul\u{0}1",
    "é", "名前", "\u{1F600}", "\u{301}x", "1", "42", "4294967295", "0x1F", "-1", "", "*/", "//", "{{", "}}", "'", "`",
    "__proto__", "constructor", "toString", "\u{7f}", "\u{feff}", "a.b", "a-b", "a:b", "A", "a_", "_a",
];

fn pick_id(rng: &mut Rng) -> u32 {
    match rng.below(10) {
        0 => 0,
        1 => 1,
        2 => 2,
        3 => u32::MAX,
        4 => u32::MAX - 1,
        5 | 6 => label_hash(*rng.pick(NAME_POOL)),
        7 => rng.below(10) as u32,
        8 => rng.below(1000) as u32,
        _ => rng.next() as u32,
    }
}

pub fn gen_field_ids(rng: &mut Rng, n: usize) -> Vec<u32> {
    // tuple-like with some probability
    if rng.chance(1, 3) {
        return (0..n as u32).collect();
    }
    let mut ids: Vec<u32> = Vec::new();
    while ids.len() < n {
        let id = pick_id(rng);
        if !ids.contains(&id) {
            ids.push(id);
        }
    }
    ids.sort();
    ids
}

pub fn gen_method_names(rng: &mut Rng, n: usize) -> Vec<String> {
    let mut ns: Vec<String> = Vec::new();
    while ns.len() < n {
        let s = rng.pick(NAME_POOL).to_string();
        if !ns.contains(&s) {
            ns.push(s);
        }
    }
    ns.sort_by(|a, b| a.as_bytes().cmp(b.as_bytes()));
    ns
}

#[derive(Clone, Copy, PartialEq, Eq, Debug)]
enum Kind {
    Data,
    Func,
    Service,
}

pub struct TypeGen<'a> {
    pub cfg: &'a TypeCfg,
    kinds: Vec<Kind>,
}

impl<'a> TypeGen<'a> {
    fn prim(&self, rng: &mut Rng) -> RType {
        loop {
            let t = rng.pick(&PRIMS).clone();
            if t == RType::Empty && (!self.cfg.empty || !rng.chance(1, 3)) {
                continue;
            }
            if t == RType::Principal && !self.cfg.refs {
                continue;
            }
            return t;
        }
    }
    fn func(&self, rng: &mut Rng, depth: usize) -> RType {
        let na = rng.usize(3);
        let nr = rng.usize(3);
        let args = (0..na).map(|_| self.data(rng, depth.saturating_sub(1))).collect();
        let mode = match rng.below(6) {
            0 => vec![Mode::Query],
            1 => vec![Mode::Oneway],
            2 => vec![Mode::CompositeQuery],
            _ => vec![],
        };
        let rets = if mode == vec![Mode::Oneway] {
            vec![]
        } else {
            (0..nr).map(|_| self.data(rng, depth.saturating_sub(1))).collect()
        };
        RType::Func {
            args,
            rets,
            modes: mode,
        }
    }
    fn func_ref_or_inline(&self, rng: &mut Rng, depth: usize) -> RType {
        let fdefs: Vec<usize> = (0..self.kinds.len()).filter(|i| self.kinds[*i] == Kind::Func).collect();
        if !fdefs.is_empty() && rng.chance(1, 3) {
            RType::Ref(*rng.pick(&fdefs))
        } else {
            self.func(rng, depth)
        }
    }
    fn service(&self, rng: &mut Rng, depth: usize) -> RType {
        let n = rng.usize(4);
        let names = gen_method_names(rng, n);
        RType::Service(
            names
                .into_iter()
                .map(|s| (s, self.func_ref_or_inline(rng, depth)))
                .collect(),
        )
    }
    /// a data type (anything that can be an argument)
    pub fn data(&self, rng: &mut Rng, depth: usize) -> RType {
        let ndefs = self.kinds.len();
        if ndefs > 0 && rng.below(100) < self.cfg.ref_pct {
            return RType::Ref(rng.usize(ndefs));
        }
        if depth == 0 {
            return self.prim(rng);
        }
        match rng.below(if self.cfg.refs { 12 } else { 10 }) {
            0..=2 => self.prim(rng),
            3 | 4 => RType::opt(self.data(rng, depth - 1)),
            5 | 6 => RType::vec(self.data(rng, depth - 1)),
            7 | 8 => {
                let n = rng.usize(self.cfg.max_fields + 1);
                let ids = gen_field_ids(rng, n);
                RType::Record(ids.into_iter().map(|i| (i, self.data(rng, depth - 1))).collect())
            }
            9 => {
                let n = if self.cfg.empty && rng.chance(1, 10) {
                    0
                } else {
                    1 + rng.usize(self.cfg.max_fields)
                };
                let ids = gen_field_ids(rng, n);
                RType::Variant(
                    ids.into_iter()
                        .map(|i| {
                            (
                                i,
                                if rng.chance(1, 3) {
                                    RType::Null
                                } else {
                                    self.data(rng, depth - 1)
                                },
                            )
                        })
                        .collect(),
                )
            }
            10 => self.func(rng, depth),
            _ => self.service(rng, depth),
        }
    }
}

/// A random environment plus a generator bound to it.
pub fn gen_env(rng: &mut Rng, cfg: &TypeCfg) -> REnv {
    let n = rng.usize(cfg.max_defs + 1);
    let kinds: Vec<Kind> = (0..n)
        .map(|_| {
            if cfg.refs {
                match rng.below(8) {
                    0 => Kind::Func,
                    1 => Kind::Service,
                    _ => Kind::Data,
                }
            } else {
                Kind::Data
            }
        })
        .collect();
    let g = TypeGen { cfg, kinds: kinds.clone() };
    let mut defs = Vec::new();
    for (i, k) in kinds.iter().enumerate() {
        let body = match k {
            Kind::Func => g.func(rng, cfg.max_depth),
            Kind::Service => g.service(rng, cfg.max_depth),
            Kind::Data => {
                // never a bare reference at the top of a definition (no vacuous cycles); aliases of
                // primitives and of earlier definitions are allowed
                let mut t;
                loop {
                    t = g.data(rng, cfg.max_depth);
                    match t {
                        RType::Ref(j) if j >= i => continue,
                        _ => break,
                    }
                }
                t
            }
        };
        defs.push(body);
    }
    // an alias to an earlier definition must keep kinds consistent: resolve kinds of aliases
    REnv(defs)
}

pub fn gen_types(rng: &mut Rng, cfg: &TypeCfg, env: &REnv, n: usize) -> Vec<RType> {
    let kinds: Vec<Kind> = env
        .0
        .iter()
        .map(|t| match env.unfold(t) {
            Some(RType::Func { .. }) => Kind::Func,
            Some(RType::Service(_)) => Kind::Service,
            _ => Kind::Data,
        })
        .collect();
    let g = TypeGen { cfg, kinds };
    (0..n).map(|_| g.data(rng, cfg.max_depth)).collect()
}

/// Deep nesting family: depth levels of opt / vec / record / variant around a leaf.
pub fn gen_deep(rng: &mut Rng, depth: usize) -> RType {
    let mut t = rng.pick(&[RType::Nat, RType::Null, RType::Text, RType::Bool, RType::Reserved]).clone();
    for _ in 0..depth {
        t = match rng.below(4) {
            0 => RType::opt(t),
            1 => RType::vec(t),
            2 => RType::Record(vec![(rng.below(3) as u32, t)]),
            _ => RType::Variant(vec![(rng.below(3) as u32, t)]),
        };
    }
    t
}
