pub mod hostile;
pub mod types;
pub mod upgrade;
pub mod values;
