//! Worker-side plumbing: case loop, journal, panic capture, statistics.
use crate::rng::Rng;
use serde_json::{json, Value};
use std::cell::RefCell;
use std::collections::{BTreeMap, HashSet};
use std::io::Write;
use std::os::unix::fs::FileExt;
use std::panic::{catch_unwind, AssertUnwindSafe};
use std::time::{Duration, Instant};

#[derive(Clone, Copy, PartialEq, Eq, Debug)]
pub enum Tier {
    Quick,
    Thorough,
}

#[derive(Clone, Debug)]
pub struct PanicInfo {
    pub location: String,
    pub message: String,
}
impl PanicInfo {
    /// stable signature: file:line and the first line of the message, digits kept
    pub fn sig(&self) -> String {
        let first = self.message.lines().next().unwrap_or("");
        let first: String = first.chars().take(120).collect();
        format!("{}|{}", self.location, first)
    }
    pub fn in_harness(&self) -> bool {
        self.location.contains("/verif/harness") || self.location.starts_with("src/")
    }
}

thread_local! {
    static LAST_PANIC: RefCell<Option<PanicInfo>> = const { RefCell::new(None) };
}

pub fn install_panic_hook() {
    std::panic::set_hook(Box::new(|info| {
        let location = info
            .location()
            .map(|l| format!("{}:{}", l.file(), l.line()))
            .unwrap_or_else(|| "?".into());
        let message = if let Some(s) = info.payload().downcast_ref::<&str>() {
            s.to_string()
        } else if let Some(s) = info.payload().downcast_ref::<String>() {
            s.clone()
        } else {
            "<non-string panic payload>".into()
        };
        LAST_PANIC.with(|p| *p.borrow_mut() = Some(PanicInfo { location, message }));
    }));
}

/// Run `f`, turning a panic into `Err(PanicInfo)`.
pub fn catch<T>(f: impl FnOnce() -> T) -> Result<T, PanicInfo> {
    LAST_PANIC.with(|p| *p.borrow_mut() = None);
    match catch_unwind(AssertUnwindSafe(f)) {
        Ok(v) => Ok(v),
        Err(_) => Err(LAST_PANIC.with(|p| p.borrow_mut().take()).unwrap_or(PanicInfo {
            location: "?".into(),
            message: "panic without hook information".into(),
        })),
    }
}

/// Run `f` on a fresh thread with the given stack size; panics are reported like `catch`.
pub fn on_thread<T: Send + 'static>(stack: usize, f: impl FnOnce() -> T + Send + 'static) -> Result<T, PanicInfo> {
    let h = std::thread::Builder::new()
        .stack_size(stack)
        .spawn(move || catch(f))
        .expect("spawn");
    match h.join() {
        Ok(r) => r,
        Err(_) => Err(PanicInfo {
            location: "?".into(),
            message: "thread died".into(),
        }),
    }
}

#[derive(Clone, Debug)]
pub struct Violation {
    pub sig: String,
    pub what: String,
    pub case: u64,
    pub input: Value,
}

#[derive(Default)]
pub struct Stats {
    pub evaluations: u64,
    pub nontrivial: HashSet<u64>,
    pub counters: BTreeMap<String, u64>,
    pub maxima: BTreeMap<String, f64>,
    pub samples: Vec<Value>,
    pub violations: Vec<Violation>,
    pub extra: BTreeMap<String, Value>,
    pub exhaustive: Vec<String>,
}

pub struct Ctx {
    pub prop: String,
    pub seed: u64,
    pub shard: u64,
    pub nshards: u64,
    pub tier: Tier,
    pub lane: String,
    pub only: Option<u64>,
    pub deadline: Instant,
    pub budget: Duration,
    pub max_cases: u64,
    pub case: u64,
    journal: Option<std::fs::File>,
    pub stats: Stats,
    pub max_samples: usize,
    pub max_violations: usize,
    sample_every: u64,
    /// set by a monitor to end the current family early (e.g. an exhaustive enumeration is complete)
    pub stop_family: bool,
}

impl Ctx {
    #[allow(clippy::too_many_arguments)]
    pub fn new(
        prop: &str,
        seed: u64,
        shard: u64,
        nshards: u64,
        tier: Tier,
        lane: &str,
        only: Option<u64>,
        budget_s: f64,
        max_cases: u64,
        journal: Option<&str>,
    ) -> Self {
        let journal = journal.map(|p| {
            std::fs::OpenOptions::new()
                .create(true)
                .write(true)
                .truncate(true)
                .open(p)
                .expect("journal")
        });
        Ctx {
            prop: prop.to_string(),
            seed,
            shard,
            nshards,
            tier,
            lane: lane.to_string(),
            only,
            deadline: Instant::now() + Duration::from_secs_f64(budget_s),
            budget: Duration::from_secs_f64(budget_s),
            max_cases,
            case: 0,
            journal,
            stats: Stats::default(),
            max_samples: 6,
            max_violations: 25,
            sample_every: 1,
            stop_family: false,
        }
    }
    pub fn thorough(&self) -> bool {
        self.tier == Tier::Thorough
    }
    pub fn is_release(&self) -> bool {
        self.lane == "R"
    }

    fn journal_case(&mut self, case: u64, state: u8) {
        if let Some(f) = &self.journal {
            let mut buf = [0u8; 9];
            buf[..8].copy_from_slice(&case.to_le_bytes());
            buf[8] = state;
            let _ = f.write_all_at(&buf, 0);
        }
    }

    /// Main loop over this shard's cases of one family: local numbers shard, shard+n, shard+2n, ...
    /// The case id encodes the family in its top bits so `--only <id>` finds the case again.
    pub fn cases(&mut self, family: &str, share: f64, mut f: impl FnMut(&mut Ctx, &mut Rng)) {
        let fam_hash = crate::rng::hash_str(family) & 0xffff;
        let locals: Vec<u64>;
        let mut k = 0u64;
        let start = Instant::now();
        let fam_deadline = (start + self.budget.mul_f64(share)).min(self.deadline);
        let max_cases = (((self.max_cases as f64) * share) as u64).max(1);
        if let Some(only) = self.only {
            if only >> 40 != fam_hash {
                return;
            }
            locals = vec![only & ((1 << 40) - 1)];
        } else {
            locals = vec![];
        }
        loop {
            let local = if self.only.is_some() {
                if k as usize >= locals.len() {
                    break;
                }
                locals[k as usize]
            } else {
                if k >= max_cases || (k > 0 && Instant::now() >= fam_deadline) {
                    break;
                }
                self.shard + k * self.nshards
            };
            let case = fam_hash << 40 | local;
            self.case = case;
            self.journal_case(case, 1);
            let mut rng = Rng::for_case(self.seed, &self.prop, fam_hash, local);
            self.stats.evaluations += 1;
            let r = catch(|| f(self, &mut rng));
            if let Err(p) = r {
                let sig = format!("uncaught-panic|{}", p.sig());
                self.violation(
                    &sig,
                    &format!("panic escaped the monitor: {}", p.message),
                    json!({"family": family}),
                );
            }
            self.journal_case(case, 0);
            k += 1;
            if self.stop_family {
                self.stop_family = false;
                break;
            }
        }
        *self.stats.counters.entry(format!("family:{family}")).or_insert(0) += k;
    }

    pub fn count(&mut self, key: &str) {
        *self.stats.counters.entry(key.to_string()).or_insert(0) += 1;
    }
    pub fn count_n(&mut self, key: &str, n: u64) {
        *self.stats.counters.entry(key.to_string()).or_insert(0) += n;
    }
    pub fn max(&mut self, key: &str, v: f64) {
        let e = self.stats.maxima.entry(key.to_string()).or_insert(f64::MIN);
        if v > *e {
            *e = v;
        }
    }
    /// Record a distinct non-trivial case by the hash of its canonical form.
    pub fn nontrivial(&mut self, h: u64) {
        if self.stats.nontrivial.len() < 400_000 {
            self.stats.nontrivial.insert(h);
        }
    }
    pub fn sample(&mut self, v: impl FnOnce() -> Value) {
        // reservoir-free: keep the first few, then every 2^k-th
        if self.stats.samples.len() < self.max_samples {
            self.sample_every = self.sample_every.saturating_mul(4);
            if self.stats.evaluations % self.sample_every.max(1) == 0 || self.stats.samples.is_empty() {
                self.stats.samples.push(v());
            }
        }
    }
    pub fn violation(&mut self, sig: &str, what: &str, input: Value) {
        *self.stats.counters.entry("violations_seen".to_string()).or_insert(0) += 1;
        // keep one witness per signature, bounded overall
        if self.stats.violations.iter().any(|v| v.sig == sig) {
            return;
        }
        if self.stats.violations.len() >= self.max_violations {
            return;
        }
        self.stats.violations.push(Violation {
            sig: sig.to_string(),
            what: what.to_string(),
            case: self.case,
            input,
        });
    }

    pub fn finish(self, wall: f64) -> Value {
        let Stats {
            evaluations,
            nontrivial,
            counters,
            maxima,
            samples,
            violations,
            extra,
            exhaustive,
        } = self.stats;
        json!({
            "property": self.prop,
            "lane": self.lane,
            "shard": self.shard,
            "nshards": self.nshards,
            "seed": self.seed,
            "evaluations": evaluations,
            "nontrivial": nontrivial.iter().map(|h| h & 0xffff_ffff_ffff).collect::<Vec<u64>>(),
            "counters": counters,
            "maxima": maxima,
            "samples": samples,
            "extra": extra,
            "exhaustive": exhaustive,
            "wall_s": wall,
            "violations": violations.iter().map(|v| json!({
                "sig": v.sig, "what": v.what, "case": v.case, "input": v.input
            })).collect::<Vec<_>>(),
        })
    }
}

pub fn hex(b: &[u8]) -> String {
    let mut s = String::with_capacity(b.len() * 2);
    for x in b.iter().take(4096) {
        s.push_str(&format!("{x:02x}"));
    }
    if b.len() > 4096 {
        s.push_str(&format!("…(+{} bytes)", b.len() - 4096));
    }
    s
}

pub fn write_out(path: &str, v: &Value) {
    let mut f = std::fs::File::create(path).expect("out file");
    f.write_all(serde_json::to_string(v).unwrap().as_bytes()).unwrap();
}
