//! Converters between the model (RType/RValue) and candid's public types.
use crate::model::*;
use candid::types::value::{IDLField, IDLValue, VariantValue};
use candid::types::{Field, FuncMode, Function, Label, Type, TypeEnv, TypeInner};
use candid::Principal;
use std::collections::{BTreeMap, HashMap};

/// Optional spelling for field ids: id -> name with label_hash(name) == id.
pub type Names = HashMap<u32, String>;

pub fn var_name(i: usize) -> String {
    format!("T{i}")
}

fn label(id: u32, names: Option<&Names>) -> Label {
    match names.and_then(|n| n.get(&id)) {
        Some(s) => Label::Named(s.clone()),
        None => Label::Id(id),
    }
}

pub fn to_mode(m: &Mode) -> FuncMode {
    match m {
        Mode::Query => FuncMode::Query,
        Mode::Oneway => FuncMode::Oneway,
        Mode::CompositeQuery => FuncMode::CompositeQuery,
    }
}
pub fn from_mode(m: &FuncMode) -> Mode {
    match m {
        FuncMode::Query => Mode::Query,
        FuncMode::Oneway => Mode::Oneway,
        FuncMode::CompositeQuery => Mode::CompositeQuery,
    }
}

pub fn to_candid_type(t: &RType, names: Option<&Names>) -> Type {
    let inner = match t {
        RType::Null => TypeInner::Null,
        RType::Bool => TypeInner::Bool,
        RType::Nat => TypeInner::Nat,
        RType::Int => TypeInner::Int,
        RType::Nat8 => TypeInner::Nat8,
        RType::Nat16 => TypeInner::Nat16,
        RType::Nat32 => TypeInner::Nat32,
        RType::Nat64 => TypeInner::Nat64,
        RType::Int8 => TypeInner::Int8,
        RType::Int16 => TypeInner::Int16,
        RType::Int32 => TypeInner::Int32,
        RType::Int64 => TypeInner::Int64,
        RType::Float32 => TypeInner::Float32,
        RType::Float64 => TypeInner::Float64,
        RType::Text => TypeInner::Text,
        RType::Reserved => TypeInner::Reserved,
        RType::Empty => TypeInner::Empty,
        RType::Principal => TypeInner::Principal,
        RType::Future => TypeInner::Future,
        RType::Opt(t) => TypeInner::Opt(to_candid_type(t, names)),
        RType::Vec(t) => TypeInner::Vec(to_candid_type(t, names)),
        RType::Record(fs) => TypeInner::Record(
            fs.iter()
                .map(|(i, t)| Field {
                    id: label(*i, names).into(),
                    ty: to_candid_type(t, names),
                })
                .collect(),
        ),
        RType::Variant(fs) => TypeInner::Variant(
            fs.iter()
                .map(|(i, t)| Field {
                    id: label(*i, names).into(),
                    ty: to_candid_type(t, names),
                })
                .collect(),
        ),
        RType::Func { args, rets, modes } => TypeInner::Func(Function {
            modes: modes.iter().map(to_mode).collect(),
            args: args.iter().map(|t| to_candid_type(t, names)).collect(),
            rets: rets.iter().map(|t| to_candid_type(t, names)).collect(),
        }),
        RType::Service(ms) => TypeInner::Service(
            ms.iter()
                .map(|(n, t)| (n.clone(), to_candid_type(t, names)))
                .collect(),
        ),
        RType::Ref(i) => TypeInner::Var(var_name(*i)),
    };
    inner.into()
}

pub fn to_candid_env(env: &REnv, names: Option<&Names>) -> TypeEnv {
    let mut m = BTreeMap::new();
    for (i, t) in env.0.iter().enumerate() {
        m.insert(var_name(i), to_candid_type(t, names));
    }
    TypeEnv(m)
}

/// Converts candid types into a model environment. Handles `Var` (through `env`) and `Knot`
/// (through the thread-local type memo of candid, which is public API).
pub struct FromCandid<'a> {
    pub env: &'a TypeEnv,
    pub out: REnv,
    vars: HashMap<String, usize>,
    knots: HashMap<candid::types::TypeId, usize>,
}

impl<'a> FromCandid<'a> {
    pub fn new(env: &'a TypeEnv) -> Self {
        FromCandid {
            env,
            out: REnv::new(),
            vars: HashMap::new(),
            knots: HashMap::new(),
        }
    }
    pub fn var_index(&self, name: &str) -> Option<usize> {
        self.vars.get(name).copied()
    }
    pub fn ty(&mut self, t: &Type) -> Result<RType, String> {
        Ok(match t.as_ref() {
            TypeInner::Null => RType::Null,
            TypeInner::Bool => RType::Bool,
            TypeInner::Nat => RType::Nat,
            TypeInner::Int => RType::Int,
            TypeInner::Nat8 => RType::Nat8,
            TypeInner::Nat16 => RType::Nat16,
            TypeInner::Nat32 => RType::Nat32,
            TypeInner::Nat64 => RType::Nat64,
            TypeInner::Int8 => RType::Int8,
            TypeInner::Int16 => RType::Int16,
            TypeInner::Int32 => RType::Int32,
            TypeInner::Int64 => RType::Int64,
            TypeInner::Float32 => RType::Float32,
            TypeInner::Float64 => RType::Float64,
            TypeInner::Text => RType::Text,
            TypeInner::Reserved => RType::Reserved,
            TypeInner::Empty => RType::Empty,
            TypeInner::Principal => RType::Principal,
            TypeInner::Future => RType::Future,
            TypeInner::Opt(t) => RType::opt(self.ty(t)?),
            TypeInner::Vec(t) => RType::vec(self.ty(t)?),
            TypeInner::Record(fs) | TypeInner::Variant(fs) => {
                let mut out = Vec::new();
                for f in fs {
                    out.push((f.id.get_id(), self.ty(&f.ty)?));
                }
                // keep candid's order: a mis-sorted type must stay visible to the caller
                if matches!(t.as_ref(), TypeInner::Record(_)) {
                    RType::Record(out)
                } else {
                    RType::Variant(out)
                }
            }
            TypeInner::Func(f) => RType::Func {
                args: f.args.iter().map(|t| self.ty(t)).collect::<Result<_, _>>()?,
                rets: f.rets.iter().map(|t| self.ty(t)).collect::<Result<_, _>>()?,
                modes: f.modes.iter().map(from_mode).collect(),
            },
            TypeInner::Service(ms) => {
                let mut out = Vec::new();
                for (n, t) in ms {
                    out.push((n.clone(), self.ty(t)?));
                }
                RType::Service(out)
            }
            TypeInner::Var(name) => {
                if let Some(i) = self.vars.get(name) {
                    return Ok(RType::Ref(*i));
                }
                let body = self
                    .env
                    .0
                    .get(name)
                    .ok_or_else(|| format!("unbound type {name}"))?
                    .clone();
                let i = self.out.0.len();
                self.out.0.push(RType::Empty);
                self.vars.insert(name.clone(), i);
                let b = self.ty(&body)?;
                self.out.0[i] = b;
                RType::Ref(i)
            }
            TypeInner::Knot(id) => {
                if let Some(i) = self.knots.get(id) {
                    return Ok(RType::Ref(*i));
                }
                let body = candid::types::internal::find_type(id).ok_or("knot not in memo")?;
                let i = self.out.0.len();
                self.out.0.push(RType::Empty);
                self.knots.insert(id.clone(), i);
                let b = self.ty(&body)?;
                self.out.0[i] = b;
                RType::Ref(i)
            }
            TypeInner::Class(_, _) => return Err("class type".into()),
            TypeInner::Unknown => return Err("unknown type".into()),
        })
    }
}

pub fn from_candid(env: &TypeEnv, ts: &[Type]) -> Result<(REnv, Vec<RType>), String> {
    let mut c = FromCandid::new(env);
    let mut out = Vec::new();
    for t in ts {
        out.push(c.ty(t)?);
    }
    Ok((c.out, out))
}

fn principal(b: &[u8]) -> Principal {
    Principal::try_from_slice(b).unwrap_or_else(|_| Principal::anonymous())
}

/// Abstract meaning of an untyped value (labels by id; blob = vec nat8; None = null).
pub fn model_value(v: &IDLValue) -> RValue {
    match v {
        IDLValue::Bool(b) => RValue::Bool(*b),
        IDLValue::Null | IDLValue::None => RValue::Null,
        IDLValue::Text(s) => RValue::Text(s.clone()),
        IDLValue::Number(s) => RValue::Text(format!("#number:{s}")),
        IDLValue::Float64(f) => RValue::Float64(f.to_bits()),
        IDLValue::Float32(f) => RValue::Float32(f.to_bits()),
        IDLValue::Opt(v) => RValue::opt(model_value(v)),
        IDLValue::Vec(vs) => RValue::Vec(vs.iter().map(model_value).collect()),
        IDLValue::Record(fs) => {
            RValue::record(fs.iter().map(|f| (f.id.get_id(), model_value(&f.val))).collect())
        }
        IDLValue::Variant(v) => RValue::Variant(v.0.id.get_id(), Box::new(model_value(&v.0.val))),
        IDLValue::Blob(b) => RValue::blob(b),
        IDLValue::Principal(p) => RValue::Principal(p.as_slice().to_vec()),
        IDLValue::Service(p) => RValue::Service(p.as_slice().to_vec()),
        IDLValue::Func(p, m) => RValue::Func(p.as_slice().to_vec(), m.clone()),
        IDLValue::Int(i) => RValue::Int(i.0.clone()),
        IDLValue::Nat(n) => RValue::Nat(n.0.clone()),
        IDLValue::Nat8(n) => RValue::Nat8(*n),
        IDLValue::Nat16(n) => RValue::Nat16(*n),
        IDLValue::Nat32(n) => RValue::Nat32(*n),
        IDLValue::Nat64(n) => RValue::Nat64(*n),
        IDLValue::Int8(n) => RValue::Int8(*n),
        IDLValue::Int16(n) => RValue::Int16(*n),
        IDLValue::Int32(n) => RValue::Int32(*n),
        IDLValue::Int64(n) => RValue::Int64(*n),
        IDLValue::Reserved => RValue::Reserved,
    }
}

/// Build the IDLValue candid's own decoder would produce for `v : t` (typed numbers, Blob for
/// vec nat8, None for the absent option, labels spelled as in `names`).
pub fn to_idl(env: &REnv, t: &RType, v: &RValue, names: Option<&Names>) -> Result<IDLValue, String> {
    let t = env.unfold(t).ok_or("dangling type")?;
    Ok(match (t, v) {
        (RType::Reserved, _) => IDLValue::Reserved,
        (RType::Null, RValue::Null) => IDLValue::Null,
        (RType::Bool, RValue::Bool(b)) => IDLValue::Bool(*b),
        (RType::Nat, RValue::Nat(n)) => IDLValue::Nat(candid::Nat(n.clone())),
        (RType::Int, RValue::Int(n)) => IDLValue::Int(candid::Int(n.clone())),
        (RType::Nat8, RValue::Nat8(n)) => IDLValue::Nat8(*n),
        (RType::Nat16, RValue::Nat16(n)) => IDLValue::Nat16(*n),
        (RType::Nat32, RValue::Nat32(n)) => IDLValue::Nat32(*n),
        (RType::Nat64, RValue::Nat64(n)) => IDLValue::Nat64(*n),
        (RType::Int8, RValue::Int8(n)) => IDLValue::Int8(*n),
        (RType::Int16, RValue::Int16(n)) => IDLValue::Int16(*n),
        (RType::Int32, RValue::Int32(n)) => IDLValue::Int32(*n),
        (RType::Int64, RValue::Int64(n)) => IDLValue::Int64(*n),
        (RType::Float32, RValue::Float32(b)) => IDLValue::Float32(f32::from_bits(*b)),
        (RType::Float64, RValue::Float64(b)) => IDLValue::Float64(f64::from_bits(*b)),
        (RType::Text, RValue::Text(s)) => IDLValue::Text(s.clone()),
        (RType::Principal, RValue::Principal(b)) => IDLValue::Principal(principal(b)),
        (RType::Service(_), RValue::Service(b)) => IDLValue::Service(principal(b)),
        (RType::Func { .. }, RValue::Func(b, m)) => IDLValue::Func(principal(b), m.clone()),
        (RType::Opt(_), RValue::Null) => IDLValue::None,
        (RType::Opt(t), RValue::Opt(v)) => IDLValue::Opt(Box::new(to_idl(env, t, v, names)?)),
        (RType::Vec(t), RValue::Vec(vs)) => {
            if matches!(env.unfold(t), Some(RType::Nat8)) {
                IDLValue::Blob(
                    vs.iter()
                        .map(|v| if let RValue::Nat8(x) = v { *x } else { 0 })
                        .collect(),
                )
            } else {
                let mut out = Vec::new();
                for v in vs {
                    out.push(to_idl(env, t, v, names)?);
                }
                IDLValue::Vec(out)
            }
        }
        (RType::Record(fs), RValue::Record(vs)) => {
            let mut out = Vec::new();
            for ((i, t), (j, v)) in fs.iter().zip(vs.iter()) {
                if i != j {
                    return Err("record shape".into());
                }
                out.push(IDLField {
                    id: label(*i, names),
                    val: to_idl(env, t, v, names)?,
                });
            }
            IDLValue::Record(out)
        }
        (RType::Variant(fs), RValue::Variant(id, v)) => {
            let idx = fs.iter().position(|f| f.0 == *id).ok_or("variant tag")?;
            IDLValue::Variant(VariantValue(
                Box::new(IDLField {
                    id: label(*id, names),
                    val: to_idl(env, &fs[idx].1, v, names)?,
                }),
                idx as u64,
            ))
        }
        (t, v) => return Err(format!("{v} is not of type {t}")),
    })
}
