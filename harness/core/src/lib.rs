pub mod alloc;
pub mod conv;
pub mod ctx;
pub mod gen;
pub mod model;
pub mod rng;
