//! Counting global allocator: per-thread bytes requested, live bytes and peak, so a monitor can
//! bound what one decode allocates. Installed by the worker binary unless VERIF_NO_COUNT_ALLOC
//! builds (`--features plain_alloc`) are used for the sanitizer lanes.
use std::alloc::{GlobalAlloc, Layout, System};
use std::cell::Cell;

pub struct Counting;

thread_local! {
    static ON: Cell<bool> = const { Cell::new(false) };
    static REQUESTED: Cell<u64> = const { Cell::new(0) };
    static LIVE: Cell<i64> = const { Cell::new(0) };
    static PEAK: Cell<i64> = const { Cell::new(0) };
    static CALLS: Cell<u64> = const { Cell::new(0) };
    static LARGEST: Cell<u64> = const { Cell::new(0) };
}

#[inline]
fn on_alloc(size: usize) {
    let _ = ON.try_with(|on| {
        if on.get() {
            REQUESTED.with(|r| r.set(r.get().wrapping_add(size as u64)));
            CALLS.with(|c| c.set(c.get() + 1));
            LARGEST.with(|l| {
                if size as u64 > l.get() {
                    l.set(size as u64)
                }
            });
            LIVE.with(|l| {
                let v = l.get() + size as i64;
                l.set(v);
                PEAK.with(|p| {
                    if v > p.get() {
                        p.set(v)
                    }
                });
            });
        }
    });
}
#[inline]
fn on_free(size: usize) {
    let _ = ON.try_with(|on| {
        if on.get() {
            LIVE.with(|l| l.set(l.get() - size as i64));
        }
    });
}

unsafe impl GlobalAlloc for Counting {
    unsafe fn alloc(&self, layout: Layout) -> *mut u8 {
        let p = System.alloc(layout);
        if !p.is_null() {
            on_alloc(layout.size());
        }
        p
    }
    unsafe fn alloc_zeroed(&self, layout: Layout) -> *mut u8 {
        let p = System.alloc_zeroed(layout);
        if !p.is_null() {
            on_alloc(layout.size());
        }
        p
    }
    unsafe fn dealloc(&self, ptr: *mut u8, layout: Layout) {
        on_free(layout.size());
        System.dealloc(ptr, layout)
    }
    unsafe fn realloc(&self, ptr: *mut u8, layout: Layout, new_size: usize) -> *mut u8 {
        let p = System.realloc(ptr, layout, new_size);
        if !p.is_null() {
            on_free(layout.size());
            on_alloc(new_size);
        }
        p
    }
}

#[derive(Debug, Clone, Copy, Default)]
pub struct AllocStats {
    pub requested: u64,
    pub peak_live: i64,
    pub calls: u64,
    pub largest: u64,
}

/// Start measuring on this thread.
pub fn start() {
    REQUESTED.with(|r| r.set(0));
    LIVE.with(|r| r.set(0));
    PEAK.with(|r| r.set(0));
    CALLS.with(|r| r.set(0));
    LARGEST.with(|r| r.set(0));
    ON.with(|o| o.set(true));
}
/// Stop measuring and return what was observed since `start`.
pub fn stop() -> AllocStats {
    ON.with(|o| o.set(false));
    AllocStats {
        requested: REQUESTED.with(|r| r.get()),
        peak_live: PEAK.with(|r| r.get()),
        calls: CALLS.with(|r| r.get()),
        largest: LARGEST.with(|r| r.get()),
    }
}
