//! R2: the coercion relation `v : t ~> v' : t'` of spec/Candid.md §Coercion.
use super::subtype::subtype;
use super::types::*;
use num_bigint::BigInt;
use std::collections::BTreeMap;

/// `over == false`: the coercion relation does not hold (recoverable under an enclosing opt).
/// `over == true`: the derivation descends without bound (e.g. `true : bool` at `type O = opt O`);
/// implementations hit their nesting limit there, so the model reports "over limit" and the
/// failure is not recoverable.
#[derive(Debug, Clone, PartialEq, Eq)]
pub struct Fail(pub String, pub bool);
impl Fail {
    pub fn new(s: impl Into<String>) -> Fail {
        Fail(s.into(), false)
    }
}
pub const MAX_COERCE_DEPTH: usize = 1000;

pub type Hits = BTreeMap<&'static str, u64>;

pub struct Coercer<'a> {
    /// wire environment (already normalised: µ-records are `empty`) followed by the expected one
    merged: std::rc::Rc<REnv>,
    off: usize,
    pub hits: &'a mut Hits,
    depth: usize,
}

impl<'a> Coercer<'a> {
    pub fn new(wenv: &REnv, eenv: &REnv, hits: &'a mut Hits) -> Self {
        let mut merged = wenv.clone();
        let off = merged.append(eenv);
        Coercer { merged: std::rc::Rc::new(merged), off, hits, depth: 0 }
    }
    fn hit(&mut self, k: &'static str) {
        *self.hits.entry(k).or_insert(0) += 1;
    }
    /// `t` is a wire type (refs into wenv), `t2` an expected type (refs into eenv, unshifted).
    pub fn coerce(&mut self, v: &RValue, t: &RType, t2: &RType) -> Result<RValue, Fail> {
        let t2s = t2.shift_refs(self.off);
        self.go(v, t, &t2s)
    }
    fn go(&mut self, v: &RValue, t: &RType, t2: &RType) -> Result<RValue, Fail> {
        if self.depth > MAX_COERCE_DEPTH {
            return Err(Fail("coercion descends without bound".into(), true));
        }
        self.depth += 1;
        let r = self.go_(v, t, t2);
        self.depth -= 1;
        r
    }
    fn go_(&mut self, v: &RValue, t: &RType, t2: &RType) -> Result<RValue, Fail> {
        let env = self.merged.clone();
        let t = env.unfold(t).ok_or_else(|| Fail::new("dangling wire type"))?;
        let t2 = env.unfold(t2).ok_or_else(|| Fail::new("dangling expected type"))?;
        match (t, t2) {
            (_, RType::Reserved) => {
                self.hit("reserved");
                Ok(RValue::Reserved)
            }
            (RType::Null, RType::Opt(_)) => {
                self.hit("opt:null");
                Ok(RValue::Null)
            }
            (RType::Reserved, RType::Opt(_)) => {
                self.hit("opt:reserved");
                Ok(RValue::Null)
            }
            (RType::Opt(t1), RType::Opt(u)) => match v {
                RValue::Null => {
                    self.hit("opt:none");
                    Ok(RValue::Null)
                }
                RValue::Opt(w) => match self.go(w, t1, u) {
                    Ok(w2) => {
                        self.hit("opt:some");
                        Ok(RValue::opt(w2))
                    }
                    Err(f) if f.1 => Err(f),
                    Err(_) => {
                        self.hit("opt:backtrack");
                        Ok(RValue::Null)
                    }
                },
                _ => Err(Fail::new("ill-typed option value")),
            },
            (_, RType::Opt(u)) => match self.go(v, t, u) {
                Ok(w2) => {
                    self.hit("opt:constituent");
                    Ok(RValue::opt(w2))
                }
                Err(f) if f.1 => Err(f),
                Err(_) => {
                    self.hit("opt:constituent-backtrack");
                    Ok(RValue::Null)
                }
            },
            (RType::Nat, RType::Int) => match v {
                RValue::Nat(n) => {
                    self.hit("nat<:int");
                    Ok(RValue::Int(BigInt::from(n.clone())))
                }
                _ => Err(Fail::new("ill-typed nat")),
            },
            (RType::Service(_), RType::Principal) => match v {
                RValue::Service(b) => {
                    self.hit("service<:principal");
                    Ok(RValue::Principal(b.clone()))
                }
                _ => Err(Fail::new("ill-typed service")),
            },
            (RType::Vec(a), RType::Vec(b)) => match v {
                RValue::Vec(vs) => {
                    let mut out = Vec::with_capacity(vs.len());
                    for x in vs {
                        out.push(self.go(x, a, b)?);
                    }
                    self.hit("vec");
                    Ok(RValue::Vec(out))
                }
                _ => Err(Fail::new("ill-typed vec")),
            },
            (RType::Record(f1), RType::Record(f2)) => match v {
                RValue::Record(vs) => {
                    let mut out = Vec::new();
                    let mut missing = false;
                    for (id, u) in f2 {
                        match f1.iter().position(|f| f.0 == *id) {
                            Some(p) => out.push((*id, self.go(&vs[p].1, &f1[p].1, u)?)),
                            None => match env.unfold(u) {
                                Some(RType::Opt(_)) | Some(RType::Null) => {
                                    missing = true;
                                    out.push((*id, RValue::Null))
                                }
                                Some(RType::Reserved) => {
                                    missing = true;
                                    out.push((*id, RValue::Reserved))
                                }
                                _ => {
                                    self.hit("record:missing-required");
                                    return Err(Fail::new(format!("required field {id} missing")));
                                }
                            },
                        }
                    }
                    if missing {
                        self.hit("record:missing-optional");
                    }
                    if f1.iter().any(|f| !f2.iter().any(|g| g.0 == f.0)) {
                        self.hit("record:surplus");
                    }
                    self.hit("record");
                    Ok(RValue::Record(out))
                }
                _ => Err(Fail::new("ill-typed record")),
            },
            (RType::Variant(f1), RType::Variant(f2)) => match v {
                RValue::Variant(id, pv) => {
                    let Some((_, t1)) = f1.iter().find(|f| f.0 == *id) else {
                        return Err(Fail::new("ill-typed variant"));
                    };
                    match f2.iter().find(|f| f.0 == *id) {
                        Some((_, u)) => {
                            let w = self.go(pv, t1, u)?;
                            self.hit("variant");
                            Ok(RValue::Variant(*id, Box::new(w)))
                        }
                        None => {
                            self.hit("variant:unknown-tag");
                            Err(Fail::new(format!("unknown variant tag {id}")))
                        }
                    }
                }
                _ => Err(Fail::new("ill-typed variant")),
            },
            (RType::Func { .. }, RType::Func { .. }) | (RType::Service(_), RType::Service(_)) => {
                if subtype(&env, t, t2) {
                    self.hit("reference:subtype");
                    Ok(v.clone())
                } else {
                    self.hit("reference:not-subtype");
                    Err(Fail::new("reference type is not a subtype"))
                }
            }
            (a, b) if a.is_prim() && a == b && *a != RType::Empty => {
                self.hit("prim");
                Ok(v.clone())
            }
            (a, b) => {
                self.hit("mismatch");
                Err(Fail::new(format!("{a} does not coerce to {b}")))
            }
        }
    }

    /// Argument sequences coerce like tuple records.
    pub fn coerce_args(&mut self, vs: &[RValue], ts: &[RType], expected: &[RType]) -> Result<Vec<RValue>, Fail> {
        let mut out = Vec::new();
        for (i, u) in expected.iter().enumerate() {
            if i < ts.len() {
                out.push(self.coerce(&vs[i], &ts[i], u)?);
            } else {
                let us = u.shift_refs(self.off);
                match self.merged.unfold(&us) {
                    Some(RType::Opt(_)) | Some(RType::Null) => {
                        self.hit("args:missing-optional");
                        out.push(RValue::Null)
                    }
                    Some(RType::Reserved) => {
                        self.hit("args:missing-optional");
                        out.push(RValue::Reserved)
                    }
                    _ => {
                        self.hit("args:missing-required");
                        return Err(Fail::new(format!("argument {i} missing")));
                    }
                }
            }
        }
        if ts.len() > expected.len() {
            self.hit("args:surplus");
        }
        Ok(out)
    }
}
