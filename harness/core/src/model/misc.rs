//! R5 label hash, R6 principal text form, R7 typing judgement and the relation `~`.
use super::types::*;

/// h(s) = sum b_i * 223^(k-1-i) mod 2^32
pub fn label_hash(s: &str) -> u32 {
    let mut h: u64 = 0;
    for b in s.as_bytes() {
        h = (h * 223 + *b as u64) % (1u64 << 32);
    }
    h as u32
}

/// CRC-32/IEEE, bitwise.
pub fn crc32(data: &[u8]) -> u32 {
    let mut crc: u32 = 0xFFFF_FFFF;
    for b in data {
        crc ^= *b as u32;
        for _ in 0..8 {
            if crc & 1 == 1 {
                crc = (crc >> 1) ^ 0xEDB8_8320;
            } else {
                crc >>= 1;
            }
        }
    }
    !crc
}

const B32: &[u8; 32] = b"abcdefghijklmnopqrstuvwxyz234567";

/// RFC 4648 base32, lower case, no padding.
pub fn base32(data: &[u8]) -> String {
    let mut out = String::new();
    let mut acc: u32 = 0;
    let mut bits = 0;
    for b in data {
        acc = (acc << 8) | *b as u32;
        bits += 8;
        while bits >= 5 {
            bits -= 5;
            out.push(B32[((acc >> bits) & 31) as usize] as char);
        }
    }
    if bits > 0 {
        out.push(B32[((acc << (5 - bits)) & 31) as usize] as char);
    }
    out
}

/// Canonical textual form: base32(crc32 || bytes) in groups of five separated by '-'.
pub fn principal_text(bytes: &[u8]) -> String {
    let mut data = crc32(bytes).to_be_bytes().to_vec();
    data.extend_from_slice(bytes);
    let s = base32(&data);
    let mut out = String::new();
    for (i, c) in s.chars().enumerate() {
        if i > 0 && i % 5 == 0 {
            out.push('-');
        }
        out.push(c);
    }
    out
}

/// Strict inverse: Some(bytes) iff lower-cased `s` is exactly the canonical text of `bytes`, |bytes| <= 29.
pub fn principal_parse_strict(s: &str) -> Option<Vec<u8>> {
    let lower = s.to_ascii_lowercase();
    // decode base32 liberally (ignoring dashes), then compare canonical text
    let mut acc: u32 = 0;
    let mut bits = 0;
    let mut data = Vec::new();
    for c in lower.chars() {
        if c == '-' {
            continue;
        }
        let v = B32.iter().position(|x| *x as char == c)? as u32;
        acc = (acc << 5) | v;
        bits += 5;
        if bits >= 8 {
            bits -= 8;
            data.push(((acc >> bits) & 0xff) as u8);
        }
    }
    if data.len() < 4 {
        return None;
    }
    let bytes = data[4..].to_vec();
    if bytes.len() > 29 {
        return None;
    }
    if principal_text(&bytes) == lower {
        Some(bytes)
    } else {
        None
    }
}

/// R7: `v : t` (inherent typing; a nat is not an int here).
pub fn has_type(env: &REnv, v: &RValue, t: &RType) -> bool {
    let Some(t) = env.unfold(t) else { return false };
    match (t, v) {
        (RType::Null, RValue::Null) => true,
        (RType::Reserved, RValue::Reserved) | (RType::Reserved, RValue::Null) => true,
        (RType::Bool, RValue::Bool(_)) => true,
        (RType::Nat, RValue::Nat(_)) => true,
        (RType::Int, RValue::Int(_)) => true,
        (RType::Nat8, RValue::Nat8(_)) => true,
        (RType::Nat16, RValue::Nat16(_)) => true,
        (RType::Nat32, RValue::Nat32(_)) => true,
        (RType::Nat64, RValue::Nat64(_)) => true,
        (RType::Int8, RValue::Int8(_)) => true,
        (RType::Int16, RValue::Int16(_)) => true,
        (RType::Int32, RValue::Int32(_)) => true,
        (RType::Int64, RValue::Int64(_)) => true,
        (RType::Float32, RValue::Float32(_)) => true,
        (RType::Float64, RValue::Float64(_)) => true,
        (RType::Text, RValue::Text(_)) => true,
        (RType::Principal, RValue::Principal(b)) => b.len() <= 29,
        (RType::Service(_), RValue::Service(b)) => b.len() <= 29,
        (RType::Func { .. }, RValue::Func(b, _)) => b.len() <= 29,
        (RType::Opt(_), RValue::Null) => true,
        (RType::Opt(t), RValue::Opt(v)) => has_type(env, v, t),
        (RType::Vec(t), RValue::Vec(vs)) => vs.iter().all(|v| has_type(env, v, t)),
        (RType::Record(fs), RValue::Record(vs)) => {
            fs.len() == vs.len()
                && fs
                    .iter()
                    .zip(vs.iter())
                    .all(|((i, t), (j, v))| i == j && has_type(env, v, t))
        }
        (RType::Variant(fs), RValue::Variant(id, v)) => match fs.iter().find(|f| f.0 == *id) {
            Some((_, t)) => has_type(env, v, t),
            None => false,
        },
        _ => false,
    }
}

/// The smallest homomorphic, reflexive, symmetric relation with `opt v ~ null`.
pub fn tilde(a: &RValue, b: &RValue) -> bool {
    match (a, b) {
        (RValue::Opt(_), RValue::Null) | (RValue::Null, RValue::Opt(_)) => true,
        (RValue::Opt(x), RValue::Opt(y)) => tilde(x, y),
        (RValue::Vec(x), RValue::Vec(y)) => x.len() == y.len() && x.iter().zip(y.iter()).all(|(p, q)| tilde(p, q)),
        (RValue::Record(x), RValue::Record(y)) => {
            x.len() == y.len() && x.iter().zip(y.iter()).all(|(p, q)| p.0 == q.0 && tilde(&p.1, &q.1))
        }
        (RValue::Variant(i, x), RValue::Variant(j, y)) => i == j && tilde(x, y),
        (x, y) => x == y,
    }
}

#[cfg(test)]
mod tests {
    use super::*;
    #[test]
    fn principal_vectors() {
        assert_eq!(principal_text(&[]), "aaaaa-aa");
        assert_eq!(principal_text(&[4]), "2vxsx-fae");
        assert_eq!(principal_text(&[0xef, 0xcd, 0xab, 0, 0, 0, 0, 0, 1]), "2chl6-4hpzw-vqaaa-aaaaa-c");
        assert_eq!(principal_parse_strict("2VXSX-fae"), Some(vec![4]));
        assert_eq!(principal_parse_strict("2vxsxfae"), None);
        assert_eq!(label_hash("id"), 23515);
        assert_eq!(label_hash(""), 0);
    }
}
