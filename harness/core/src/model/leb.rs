//! R4: (S)LEB128 by definition, over arbitrary-precision integers.
use num_bigint::{BigInt, BigUint, Sign};
use num_traits::{One, Zero};

#[derive(Debug, Clone, PartialEq, Eq)]
pub enum LebErr {
    Unterminated,
}

/// value = sum (b_i & 0x7f) * 128^i ; consumed = index of first byte with bit 7 clear + 1
pub fn decode_leb(bytes: &[u8]) -> Result<(BigUint, usize), LebErr> {
    let mut v = BigUint::zero();
    let mut mul = BigUint::one();
    for (i, b) in bytes.iter().enumerate() {
        v += &mul * BigUint::from(b & 0x7f);
        mul *= 128u32;
        if b & 0x80 == 0 {
            return Ok((v, i + 1));
        }
    }
    Err(LebErr::Unterminated)
}

/// as above, then subtract 128^n if bit 6 of the last byte is set
pub fn decode_sleb(bytes: &[u8]) -> Result<(BigInt, usize), LebErr> {
    let (mag, n) = decode_leb(bytes)?;
    let mut v = BigInt::from_biguint(Sign::Plus, mag);
    if bytes[n - 1] & 0x40 != 0 {
        let mut p = BigInt::one();
        for _ in 0..n {
            p *= 128;
        }
        v -= p;
    }
    Ok((v, n))
}

/// minimal unsigned encoding by repeated div/mod
pub fn encode_leb(v: &BigUint) -> Vec<u8> {
    let mut out = Vec::new();
    let mut v = v.clone();
    let b128 = BigUint::from(128u32);
    loop {
        let d = (&v % &b128).to_u32_digits().first().copied().unwrap_or(0) as u8;
        v /= &b128;
        if v.is_zero() {
            out.push(d);
            return out;
        }
        out.push(d | 0x80);
    }
}

/// minimal signed encoding: floor-div by 128 until the rest is 0 (and bit 6 clear) or -1 (and bit 6 set)
pub fn encode_sleb(v: &BigInt) -> Vec<u8> {
    let mut out = Vec::new();
    let mut v = v.clone();
    let b128 = BigInt::from(128);
    let minus1 = BigInt::from(-1);
    loop {
        // floor mod / floor div
        let mut r = &v % &b128;
        if r.sign() == Sign::Minus {
            r += &b128;
        }
        let q = (&v - &r) / &b128;
        let d = r.to_u32_digits().1.first().copied().unwrap_or(0) as u8;
        let done = (q.is_zero() && d & 0x40 == 0) || (q == minus1 && d & 0x40 != 0);
        if done {
            out.push(d);
            return out;
        }
        out.push(d | 0x80);
        v = q;
    }
}

pub fn leb_u64(v: u64) -> Vec<u8> {
    encode_leb(&BigUint::from(v))
}
pub fn sleb_i64(v: i64) -> Vec<u8> {
    encode_sleb(&BigInt::from(v))
}

/// A legal but non-minimal unsigned encoding: `pad` extra continuation groups of zero.
pub fn leb_padded(v: &BigUint, pad: usize) -> Vec<u8> {
    let mut out = encode_leb(v);
    if pad > 0 {
        let l = out.len();
        out[l - 1] |= 0x80;
        for _ in 0..pad - 1 {
            out.push(0x80);
        }
        out.push(0x00);
    }
    out
}
/// A legal but non-minimal signed encoding (sign-extension groups).
pub fn sleb_padded(v: &BigInt, pad: usize) -> Vec<u8> {
    let mut out = encode_sleb(v);
    if pad > 0 {
        let neg = v.sign() == Sign::Minus;
        let l = out.len();
        out[l - 1] |= 0x80;
        for _ in 0..pad - 1 {
            out.push(if neg { 0xff } else { 0x80 });
        }
        out.push(if neg { 0x7f } else { 0x00 });
    }
    out
}

#[cfg(test)]
mod tests {
    use super::*;
    #[test]
    fn roundtrip_small() {
        for v in -70000i64..70000 {
            let e = encode_sleb(&BigInt::from(v));
            let (d, n) = decode_sleb(&e).unwrap();
            assert_eq!(d, BigInt::from(v));
            assert_eq!(n, e.len());
            for pad in 1..3 {
                let p = sleb_padded(&BigInt::from(v), pad);
                let (d, n) = decode_sleb(&p).unwrap();
                assert_eq!(d, BigInt::from(v), "{v} {p:?}");
                assert_eq!(n, p.len());
            }
            if v >= 0 {
                let e = encode_leb(&BigUint::from(v as u64));
                let (d, n) = decode_leb(&e).unwrap();
                assert_eq!(d, BigUint::from(v as u64));
                assert_eq!(n, e.len());
            }
        }
        assert_eq!(encode_sleb(&BigInt::from(-1)), vec![0x7f]);
        assert_eq!(encode_sleb(&BigInt::from(63)), vec![0x3f]);
        assert_eq!(encode_sleb(&BigInt::from(64)), vec![0xc0, 0x00]);
        assert_eq!(encode_sleb(&BigInt::from(-64)), vec![0x40]);
        assert_eq!(encode_sleb(&BigInt::from(-65)), vec![0xbf, 0x7f]);
        assert_eq!(encode_leb(&BigUint::from(624485u32)), vec![0xe5, 0x8e, 0x26]);
    }
}
