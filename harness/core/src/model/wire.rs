//! R1: reference wire codec written from spec/Candid.md §Binary Format.
use super::leb::*;
use super::types::*;
use crate::rng::Rng;
use num_bigint::{BigInt, BigUint};
use std::collections::HashMap;

pub const MAX_TABLE: u64 = 10_000;
pub const MAX_PRINCIPAL: u64 = 29;
/// Nesting beyond this is reported as OverLimit by the model (the implementation's limit is its stack guard).
pub const MODEL_MAX_DEPTH: usize = 400;
/// Zero-sized-element vectors longer than this are reported as OverLimit by the model.
pub const MODEL_MAX_ZST: u64 = 1_000_000;
/// Messages whose decoded value has more nodes than this are reported as OverLimit by the model.
pub const MODEL_MAX_NODES: u64 = 1_000_000;

#[derive(Debug, Clone, PartialEq, Eq)]
pub enum DecErr {
    Malformed(String),
    OverLimit(String),
}
fn mal<T>(s: impl Into<String>) -> Result<T, DecErr> {
    Err(DecErr::Malformed(s.into()))
}
fn over<T>(s: impl Into<String>) -> Result<T, DecErr> {
    Err(DecErr::OverLimit(s.into()))
}

#[derive(Debug, Clone)]
pub struct Decoded {
    /// flat table: entries contain only primitives and `Ref`s
    pub env: REnv,
    pub types: Vec<RType>,
    pub values: Vec<RValue>,
    /// some LEB128 in the message was not minimal
    pub nonminimal: bool,
    pub has_future: bool,
    pub header_len: usize,
}

struct Rd<'a> {
    b: &'a [u8],
    pos: usize,
    nonminimal: bool,
}

impl<'a> Rd<'a> {
    fn byte(&mut self) -> Result<u8, DecErr> {
        if self.pos >= self.b.len() {
            return mal("unexpected end of input");
        }
        let x = self.b[self.pos];
        self.pos += 1;
        Ok(x)
    }
    fn take(&mut self, n: usize) -> Result<&'a [u8], DecErr> {
        if n > self.b.len() - self.pos {
            return mal(format!("need {n} bytes, have {}", self.b.len() - self.pos));
        }
        let s = &self.b[self.pos..self.pos + n];
        self.pos += n;
        Ok(s)
    }
    fn leb_big(&mut self) -> Result<BigUint, DecErr> {
        match decode_leb(&self.b[self.pos..]) {
            Ok((v, n)) => {
                if encode_leb(&v).len() != n {
                    self.nonminimal = true;
                }
                self.pos += n;
                Ok(v)
            }
            Err(_) => mal("unterminated LEB128"),
        }
    }
    fn sleb_big(&mut self) -> Result<BigInt, DecErr> {
        match decode_sleb(&self.b[self.pos..]) {
            Ok((v, n)) => {
                if encode_sleb(&v).len() != n {
                    self.nonminimal = true;
                }
                self.pos += n;
                Ok(v)
            }
            Err(_) => mal("unterminated SLEB128"),
        }
    }
    /// A count / index / length: a natural number. Encodings longer than 9 bytes are an
    /// implementation limit (OverLimit), values above u64 cannot be honest counts (Malformed).
    fn count(&mut self) -> Result<u64, DecErr> {
        let start = self.pos;
        let v = self.leb_big()?;
        let n = self.pos - start;
        let d = v.to_u64_digits();
        if d.len() > 1 {
            return mal("count exceeds 64 bits");
        }
        if n > 9 {
            return over("count encoded in more than 9 bytes");
        }
        Ok(d.first().copied().unwrap_or(0))
    }
    fn scount(&mut self) -> Result<i64, DecErr> {
        let start = self.pos;
        let v = self.sleb_big()?;
        let n = self.pos - start;
        if n > 9 {
            // still decide: a huge value is malformed, a padded small one is an implementation limit
            if v > BigInt::from(i64::MAX) || v < BigInt::from(i64::MIN) {
                return mal("type index exceeds 64 bits");
            }
            return over("type code encoded in more than 9 bytes");
        }
        let (sign, d) = v.to_u64_digits();
        let m = d.first().copied().unwrap_or(0) as i128;
        let x = if sign == num_bigint::Sign::Minus { -m } else { m };
        Ok(x as i64)
    }
}

fn index_type(r: &mut Rd, n: u64) -> Result<RType, DecErr> {
    let c = r.scount()?;
    if c >= 0 {
        if (c as u64) < n {
            Ok(RType::Ref(c as usize))
        } else {
            mal(format!("type index {c} out of range"))
        }
    } else {
        match RType::from_prim_opcode(c) {
            Some(t) => Ok(t),
            None => mal(format!("{c} is not a primitive type code")),
        }
    }
}

fn fields(r: &mut Rd, n: u64) -> Result<Vec<(u32, RType)>, DecErr> {
    let len = r.count()?;
    if len > u32::MAX as u64 {
        return mal("field count out of range");
    }
    let mut out: Vec<(u32, RType)> = Vec::new();
    for _ in 0..len {
        let id = r.count()?;
        if id > u32::MAX as u64 {
            return mal("field id out of 32-bit range");
        }
        if let Some(last) = out.last() {
            if last.0 as u64 >= id {
                return mal("field ids not strictly ascending");
            }
        }
        let t = index_type(r, n)?;
        out.push((id as u32, t));
    }
    Ok(out)
}

/// Parse the header: magic, type table, argument types.
pub fn decode_header(bytes: &[u8]) -> Result<(REnv, Vec<RType>, usize, bool, bool), DecErr> {
    let mut r = Rd {
        b: bytes,
        pos: 0,
        nonminimal: false,
    };
    if bytes.len() < 4 || &bytes[0..4] != b"DIDL" {
        return mal("bad magic");
    }
    r.pos = 4;
    let n = r.count()?;
    if n > MAX_TABLE {
        return over("type table larger than 10000 entries");
    }
    let mut env = Vec::new();
    let mut has_future = false;
    for _ in 0..n {
        let start = r.pos;
        let op = r.scount()?;
        let oplen = r.pos - start;
        let t = match op {
            -18 | -19 | -20 | -21 | -22 | -23 if oplen != 1 => {
                return over("non-minimal constructor opcode");
            }
            -18 => RType::opt(index_type(&mut r, n)?),
            -19 => RType::vec(index_type(&mut r, n)?),
            -20 => RType::Record(fields(&mut r, n)?),
            -21 => RType::Variant(fields(&mut r, n)?),
            -22 => {
                let na = r.count()?;
                let mut args = Vec::new();
                for _ in 0..na {
                    args.push(index_type(&mut r, n)?);
                }
                let nr = r.count()?;
                let mut rets = Vec::new();
                for _ in 0..nr {
                    rets.push(index_type(&mut r, n)?);
                }
                let s = r.pos;
                let nm = r.count()?;
                if r.pos - s != 1 {
                    return over("non-minimal annotation count");
                }
                if nm > 1 {
                    return mal("more than one function annotation");
                }
                let mut modes = Vec::new();
                for _ in 0..nm {
                    modes.push(match r.byte()? {
                        1 => Mode::Query,
                        2 => Mode::Oneway,
                        3 => Mode::CompositeQuery,
                        x => return mal(format!("unknown annotation {x}")),
                    });
                }
                RType::Func { args, rets, modes }
            }
            -23 => {
                let nm = r.count()?;
                let mut ms: Vec<(String, RType)> = Vec::new();
                for _ in 0..nm {
                    let l = r.count()?;
                    if l > (bytes.len() - r.pos) as u64 {
                        return mal("method name longer than input");
                    }
                    let name = match std::str::from_utf8(r.take(l as usize)?) {
                        Ok(s) => s.to_string(),
                        Err(_) => return mal("method name not utf8"),
                    };
                    if let Some(last) = ms.last() {
                        if last.0.as_bytes() >= name.as_bytes() {
                            return mal("method names not strictly ascending");
                        }
                    }
                    let t = index_type(&mut r, n)?;
                    ms.push((name, t));
                }
                RType::Service(ms)
            }
            op if op < -24 => {
                let l = r.count()?;
                if l > (bytes.len() - r.pos) as u64 {
                    return mal("future type longer than input");
                }
                r.take(l as usize)?;
                has_future = true;
                RType::Future
            }
            op => return mal(format!("type table entry with opcode {op}")),
        };
        env.push(t);
    }
    // a method type must denote a function type
    for t in &env {
        if let RType::Service(ms) = t {
            for (name, mt) in ms {
                match mt {
                    RType::Ref(i) if matches!(env[*i], RType::Func { .. }) => {}
                    _ => return mal(format!("method {name} is not a function")),
                }
            }
        }
    }
    let na = r.count()?;
    let mut types = Vec::new();
    for _ in 0..na {
        if r.pos >= bytes.len() {
            return mal("argument type list longer than input");
        }
        types.push(index_type(&mut r, n)?);
    }
    Ok((REnv(env), types, r.pos, r.nonminimal, has_future))
}

/// Greatest set S of record entries having a field that refers to an entry in S:
/// such records contain themselves through record fields alone and have no finite value.
pub fn mu_records(env: &REnv) -> Vec<bool> {
    let n = env.0.len();
    let mut s: Vec<bool> = env.0.iter().map(|t| matches!(t, RType::Record(_))).collect();
    loop {
        let mut changed = false;
        for i in 0..n {
            if !s[i] {
                continue;
            }
            let keep = match &env.0[i] {
                RType::Record(fs) => fs.iter().any(|(_, t)| match t {
                    RType::Ref(j) => s[*j],
                    _ => false,
                }),
                _ => false,
            };
            if !keep {
                s[i] = false;
                changed = true;
            }
        }
        if !changed {
            return s;
        }
    }
}

/// The wire table as the decoder is documented to see it: µ-records denote `empty`.
pub fn normalize_wire(env: &REnv) -> REnv {
    let s = mu_records(env);
    REnv(
        env.0
            .iter()
            .enumerate()
            .map(|(i, t)| if s[i] { RType::Empty } else { t.clone() })
            .collect(),
    )
}

/// Least number of value bytes a value of type t occupies (least fixed point; uninhabited = large).
pub fn min_sizes(env: &REnv) -> Vec<u64> {
    const INF: u64 = 1 << 40;
    let n = env.0.len();
    let mut m = vec![INF; n];
    fn sz(t: &RType, m: &[u64]) -> u64 {
        const INF: u64 = 1 << 40;
        match t {
            RType::Null | RType::Reserved => 0,
            RType::Empty => INF,
            RType::Bool | RType::Nat8 | RType::Int8 | RType::Nat | RType::Int | RType::Text => 1,
            RType::Nat16 | RType::Int16 => 2,
            RType::Nat32 | RType::Int32 | RType::Float32 => 4,
            RType::Nat64 | RType::Int64 | RType::Float64 => 8,
            RType::Principal | RType::Service(_) => 2,
            RType::Func { .. } => 4,
            RType::Opt(_) | RType::Vec(_) => 1,
            RType::Future => 2,
            RType::Record(fs) => fs.iter().fold(0u64, |a, f| (a + sz(&f.1, m)).min(INF)),
            RType::Variant(fs) => fs.iter().map(|f| 1 + sz(&f.1, m)).min().unwrap_or(INF).min(INF),
            RType::Ref(i) => m[*i],
        }
    }
    loop {
        let mut changed = false;
        for i in 0..n {
            let v = sz(&env.0[i], &m);
            if v < m[i] {
                m[i] = v;
                changed = true;
            }
        }
        if !changed {
            return m;
        }
    }
}
pub fn min_size(env: &REnv, mins: &[u64], t: &RType) -> u64 {
    let mut e2 = mins.to_vec();
    // reuse sz via a tiny env-less evaluation
    fn sz(t: &RType, m: &[u64]) -> u64 {
        const INF: u64 = 1 << 40;
        match t {
            RType::Null | RType::Reserved => 0,
            RType::Empty => INF,
            RType::Bool | RType::Nat8 | RType::Int8 | RType::Nat | RType::Int | RType::Text => 1,
            RType::Nat16 | RType::Int16 => 2,
            RType::Nat32 | RType::Int32 | RType::Float32 => 4,
            RType::Nat64 | RType::Int64 | RType::Float64 => 8,
            RType::Principal | RType::Service(_) => 2,
            RType::Func { .. } => 4,
            RType::Opt(_) | RType::Vec(_) => 1,
            RType::Future => 2,
            RType::Record(fs) => fs.iter().fold(0u64, |a, f| (a + sz(&f.1, m)).min(INF)),
            RType::Variant(fs) => fs.iter().map(|f| 1 + sz(&f.1, m)).min().unwrap_or(INF).min(INF),
            RType::Ref(i) => m.get(*i).copied().unwrap_or(INF),
        }
    }
    let _ = env;
    e2.truncate(mins.len());
    sz(t, &e2)
}

struct VDec<'e> {
    env: &'e REnv,
    mu: Vec<bool>,
    mins: Vec<u64>,
    nodes: std::cell::Cell<u64>,
}

impl<'e> VDec<'e> {
    fn principal_bytes(&self, r: &mut Rd) -> Result<Vec<u8>, DecErr> {
        match r.byte()? {
            1 => {}
            0 => return mal("opaque reference"),
            x => return mal(format!("bad reference flag {x}")),
        }
        let l = r.count()?;
        if l > MAX_PRINCIPAL {
            if l > (r.b.len() - r.pos) as u64 {
                return mal("principal longer than input");
            }
            return over("principal longer than 29 bytes");
        }
        Ok(r.take(l as usize)?.to_vec())
    }
    fn text(&self, r: &mut Rd) -> Result<String, DecErr> {
        let l = r.count()?;
        if l > (r.b.len() - r.pos) as u64 {
            return mal("text longer than input");
        }
        match std::str::from_utf8(r.take(l as usize)?) {
            Ok(s) => Ok(s.to_string()),
            Err(_) => mal("text is not utf8"),
        }
    }
    fn value(&self, r: &mut Rd, t: &RType, depth: usize) -> Result<RValue, DecErr> {
        if depth > MODEL_MAX_DEPTH {
            return over("nesting deeper than the model explores");
        }
        self.nodes.set(self.nodes.get() + 1);
        if self.nodes.get() > MODEL_MAX_NODES {
            return over("more value nodes than the model explores");
        }
        Ok(match t {
            RType::Ref(i) => {
                if self.mu[*i] {
                    return mal("value of a record type that contains itself");
                }
                return self.value(r, &self.env.0[*i], depth);
            }
            RType::Null => RValue::Null,
            RType::Reserved => RValue::Reserved,
            RType::Empty => return mal("value of type empty"),
            RType::Bool => match r.byte()? {
                0 => RValue::Bool(false),
                1 => RValue::Bool(true),
                x => return mal(format!("bool byte {x}")),
            },
            RType::Nat => RValue::Nat(r.leb_big()?),
            RType::Int => RValue::Int(r.sleb_big()?),
            RType::Nat8 => RValue::Nat8(r.byte()?),
            RType::Int8 => RValue::Int8(r.byte()? as i8),
            RType::Nat16 => RValue::Nat16(u16::from_le_bytes(r.take(2)?.try_into().unwrap())),
            RType::Int16 => RValue::Int16(i16::from_le_bytes(r.take(2)?.try_into().unwrap())),
            RType::Nat32 => RValue::Nat32(u32::from_le_bytes(r.take(4)?.try_into().unwrap())),
            RType::Int32 => RValue::Int32(i32::from_le_bytes(r.take(4)?.try_into().unwrap())),
            RType::Nat64 => RValue::Nat64(u64::from_le_bytes(r.take(8)?.try_into().unwrap())),
            RType::Int64 => RValue::Int64(i64::from_le_bytes(r.take(8)?.try_into().unwrap())),
            RType::Float32 => RValue::Float32(u32::from_le_bytes(r.take(4)?.try_into().unwrap())),
            RType::Float64 => RValue::Float64(u64::from_le_bytes(r.take(8)?.try_into().unwrap())),
            RType::Text => RValue::Text(self.text(r)?),
            RType::Principal => RValue::Principal(self.principal_bytes(r)?),
            RType::Service(_) => RValue::Service(self.principal_bytes(r)?),
            RType::Func { .. } => {
                match r.byte()? {
                    1 => {}
                    0 => return mal("opaque function reference"),
                    x => return mal(format!("bad reference flag {x}")),
                }
                let p = self.principal_bytes(r)?;
                let m = self.text(r)?;
                RValue::Func(p, m)
            }
            RType::Opt(t) => match r.byte()? {
                0 => RValue::Null,
                1 => RValue::opt(self.value(r, t, depth + 1)?),
                x => return mal(format!("opt tag {x}")),
            },
            RType::Vec(t) => {
                let len = r.count()?;
                let ms = min_size(self.env, &self.mins, t);
                let rest = (r.b.len() - r.pos) as u64;
                if len > 0 && ms >= (1 << 40) {
                    return mal("non-empty vector of an uninhabited type");
                }
                if ms > 0 {
                    if len.saturating_mul(ms) > rest {
                        return mal("vector longer than input");
                    }
                } else if len > MODEL_MAX_ZST {
                    return over("huge vector of zero-sized elements");
                }
                let mut vs = Vec::new();
                for _ in 0..len {
                    vs.push(self.value(r, t, depth + 1)?);
                }
                RValue::Vec(vs)
            }
            RType::Record(fs) => {
                let mut out = Vec::new();
                for (id, ft) in fs {
                    out.push((*id, self.value(r, ft, depth + 1)?));
                }
                RValue::Record(out)
            }
            RType::Variant(fs) => {
                let idx = r.count()?;
                if idx >= fs.len() as u64 {
                    return mal("variant index out of range");
                }
                let (id, ft) = &fs[idx as usize];
                RValue::Variant(*id, Box::new(self.value(r, ft, depth + 1)?))
            }
            RType::Future => {
                let m = r.count()?;
                let _n = r.count()?;
                if m > (r.b.len() - r.pos) as u64 {
                    return mal("future value longer than input");
                }
                r.take(m as usize)?;
                RValue::Future
            }
        })
    }
}

/// Decode a whole message (no expected types): the inverse of B in the spec.
pub fn decode(bytes: &[u8]) -> Result<Decoded, DecErr> {
    let (env, types, hlen, nonmin, has_future) = decode_header(bytes)?;
    let d = VDec {
        mu: mu_records(&env),
        mins: min_sizes(&env),
        env: &env,
        nodes: std::cell::Cell::new(0),
    };
    let mut r = Rd {
        b: bytes,
        pos: hlen,
        nonminimal: nonmin,
    };
    let mut values = Vec::new();
    for t in &types {
        values.push(d.value(&mut r, t, 0)?);
    }
    if r.pos != bytes.len() {
        return mal("trailing bytes after the last argument");
    }
    let nonminimal = r.nonminimal;
    Ok(Decoded {
        env,
        types,
        values,
        nonminimal,
        has_future,
        header_len: hlen,
    })
}

// ---------------------------------------------------------------------------------------
// Reference encoder

#[derive(Clone, Debug, Default)]
pub struct EncOpts {
    /// do not share structurally equal table entries
    pub duplicate_entries: bool,
    /// add this many unused entries
    pub unused_entries: usize,
    /// permute the table (creates forward references)
    pub shuffle: bool,
    /// pad some count/number LEBs with redundant groups
    pub pad_lebs: bool,
}

#[derive(Clone, Debug)]
enum Flat {
    Opt(i64),
    Vec(i64),
    Record(Vec<(u32, i64)>),
    Variant(Vec<(u32, i64)>),
    Func(Vec<i64>, Vec<i64>, Vec<Mode>),
    Service(Vec<(String, i64)>),
    Hole,
}

pub struct Encoder<'a> {
    env: &'a REnv,
    table: Vec<Flat>,
    by_ref: HashMap<usize, i64>,
    by_struct: HashMap<RType, i64>,
    opts: EncOpts,
}

impl<'a> Encoder<'a> {
    pub fn new(env: &'a REnv, opts: EncOpts) -> Self {
        Encoder {
            env,
            table: Vec::new(),
            by_ref: HashMap::new(),
            by_struct: HashMap::new(),
            opts,
        }
    }
    fn intern(&mut self, t: &RType) -> i64 {
        if let Some(op) = t.prim_opcode() {
            return op;
        }
        match t {
            RType::Ref(i) => {
                if let Some(x) = self.by_ref.get(i) {
                    return *x;
                }
                let target = self.env.0[*i].clone();
                if target.is_prim() || matches!(target, RType::Ref(_)) {
                    // alias: inline
                    let x = self.intern(&target);
                    self.by_ref.insert(*i, x);
                    return x;
                }
                let idx = self.table.len() as i64;
                self.table.push(Flat::Hole);
                self.by_ref.insert(*i, idx);
                let f = self.flat(&target);
                self.table[idx as usize] = f;
                idx
            }
            RType::Future => panic!("cannot encode a future type"),
            _ => {
                if !self.opts.duplicate_entries {
                    if let Some(x) = self.by_struct.get(t) {
                        return *x;
                    }
                }
                let idx = self.table.len() as i64;
                self.table.push(Flat::Hole);
                if !self.opts.duplicate_entries {
                    self.by_struct.insert(t.clone(), idx);
                }
                let f = self.flat(t);
                self.table[idx as usize] = f;
                idx
            }
        }
    }
    fn flat(&mut self, t: &RType) -> Flat {
        match t {
            RType::Opt(t) => Flat::Opt(self.intern(t)),
            RType::Vec(t) => Flat::Vec(self.intern(t)),
            RType::Record(fs) => Flat::Record(fs.iter().map(|(i, t)| (*i, self.intern(t))).collect()),
            RType::Variant(fs) => Flat::Variant(fs.iter().map(|(i, t)| (*i, self.intern(t))).collect()),
            RType::Func { args, rets, modes } => Flat::Func(
                args.iter().map(|t| self.intern(t)).collect(),
                rets.iter().map(|t| self.intern(t)).collect(),
                modes.clone(),
            ),
            RType::Service(ms) => Flat::Service(
                ms.iter()
                    .map(|(n, t)| {
                        // method types must be table entries denoting functions
                        (n.clone(), self.intern(t))
                    })
                    .collect(),
            ),
            _ => unreachable!(),
        }
    }
}

fn leb(out: &mut Vec<u8>, v: u64, rng: &mut Option<&mut Rng>, pad: bool) {
    if pad {
        if let Some(r) = rng {
            if r.chance(1, 4) {
                let p = 1 + r.usize(2);
                out.extend(leb_padded(&BigUint::from(v), p));
                return;
            }
        }
    }
    out.extend(leb_u64(v));
}
fn sleb(out: &mut Vec<u8>, v: i64, rng: &mut Option<&mut Rng>, pad: bool) {
    if pad {
        if let Some(r) = rng {
            if r.chance(1, 4) {
                let p = 1 + r.usize(2);
                out.extend(sleb_padded(&BigInt::from(v), p));
                return;
            }
        }
    }
    out.extend(sleb_i64(v));
}

/// M(v : t)
pub fn encode_value(env: &REnv, t: &RType, v: &RValue, out: &mut Vec<u8>) -> Result<(), String> {
    let t = env.unfold(t).ok_or("dangling type")?;
    match (t, v) {
        (RType::Null, RValue::Null) => {}
        (RType::Reserved, _) => {}
        (RType::Bool, RValue::Bool(b)) => out.push(*b as u8),
        (RType::Nat, RValue::Nat(n)) => out.extend(encode_leb(n)),
        (RType::Int, RValue::Int(n)) => out.extend(encode_sleb(n)),
        (RType::Nat8, RValue::Nat8(n)) => out.push(*n),
        (RType::Int8, RValue::Int8(n)) => out.push(*n as u8),
        (RType::Nat16, RValue::Nat16(n)) => out.extend(n.to_le_bytes()),
        (RType::Int16, RValue::Int16(n)) => out.extend(n.to_le_bytes()),
        (RType::Nat32, RValue::Nat32(n)) => out.extend(n.to_le_bytes()),
        (RType::Int32, RValue::Int32(n)) => out.extend(n.to_le_bytes()),
        (RType::Nat64, RValue::Nat64(n)) => out.extend(n.to_le_bytes()),
        (RType::Int64, RValue::Int64(n)) => out.extend(n.to_le_bytes()),
        (RType::Float32, RValue::Float32(b)) => out.extend(b.to_le_bytes()),
        (RType::Float64, RValue::Float64(b)) => out.extend(b.to_le_bytes()),
        (RType::Text, RValue::Text(s)) => {
            out.extend(leb_u64(s.len() as u64));
            out.extend(s.as_bytes());
        }
        (RType::Principal, RValue::Principal(b)) | (RType::Service(_), RValue::Service(b)) => {
            out.push(1);
            out.extend(leb_u64(b.len() as u64));
            out.extend(b);
        }
        (RType::Func { .. }, RValue::Func(b, m)) => {
            out.push(1);
            out.push(1);
            out.extend(leb_u64(b.len() as u64));
            out.extend(b);
            out.extend(leb_u64(m.len() as u64));
            out.extend(m.as_bytes());
        }
        (RType::Opt(_), RValue::Null) => out.push(0),
        (RType::Opt(t), RValue::Opt(v)) => {
            out.push(1);
            encode_value(env, t, v, out)?;
        }
        (RType::Vec(t), RValue::Vec(vs)) => {
            out.extend(leb_u64(vs.len() as u64));
            for v in vs {
                encode_value(env, t, v, out)?;
            }
        }
        (RType::Record(fs), RValue::Record(vs)) => {
            if fs.len() != vs.len() {
                return Err(format!("record arity {t} vs {v}"));
            }
            for ((i, ft), (j, fv)) in fs.iter().zip(vs.iter()) {
                if i != j {
                    return Err(format!("record field {i} vs {j}"));
                }
                encode_value(env, ft, fv, out)?;
            }
        }
        (RType::Variant(fs), RValue::Variant(id, pv)) => {
            let idx = fs.iter().position(|f| f.0 == *id).ok_or("variant tag not in type")?;
            out.extend(leb_u64(idx as u64));
            encode_value(env, &fs[idx].1, pv, out)?;
        }
        (t, v) => return Err(format!("value {v} is not of type {t}")),
    }
    Ok(())
}

/// B(kv* : t*): the whole message. `rng` drives the legal non-canonical choices in `opts`.
pub fn encode(
    env: &REnv,
    types: &[RType],
    values: &[RValue],
    opts: &EncOpts,
    mut rng: Option<&mut Rng>,
) -> Result<Vec<u8>, String> {
    let mut e = Encoder::new(env, opts.clone());
    let mut arg_codes: Vec<i64> = types.iter().map(|t| e.intern(t)).collect();
    // unused entries
    if let Some(r) = rng.as_deref_mut() {
        for _ in 0..opts.unused_entries {
            let n = e.table.len() as i64 + 1;
            let pick = |r: &mut Rng| -> i64 {
                if r.bool() {
                    -(1 + r.below(17) as i64)
                } else {
                    r.below(n as u64) as i64
                }
            };
            let f = match r.below(4) {
                0 => Flat::Opt(pick(r)),
                1 => Flat::Vec(pick(r)),
                2 => Flat::Record(vec![(r.below(5) as u32, pick(r)), (7 + r.below(100) as u32, pick(r))]),
                _ => Flat::Variant(vec![(r.below(1000) as u32, pick(r))]),
            };
            e.table.push(f);
        }
    }
    let n = e.table.len();
    let mut perm: Vec<usize> = (0..n).collect(); // old -> new
    if opts.shuffle {
        if let Some(r) = rng.as_deref_mut() {
            r.shuffle(&mut perm);
        }
    }
    let mp = |c: i64| -> i64 {
        if c >= 0 {
            perm[c as usize] as i64
        } else {
            c
        }
    };
    let mut new_table: Vec<Flat> = vec![Flat::Hole; n];
    for (old, f) in e.table.iter().enumerate() {
        let g = match f {
            Flat::Opt(c) => Flat::Opt(mp(*c)),
            Flat::Vec(c) => Flat::Vec(mp(*c)),
            Flat::Record(fs) => Flat::Record(fs.iter().map(|(i, c)| (*i, mp(*c))).collect()),
            Flat::Variant(fs) => Flat::Variant(fs.iter().map(|(i, c)| (*i, mp(*c))).collect()),
            Flat::Func(a, b, m) => Flat::Func(
                a.iter().map(|c| mp(*c)).collect(),
                b.iter().map(|c| mp(*c)).collect(),
                m.clone(),
            ),
            Flat::Service(ms) => Flat::Service(ms.iter().map(|(s, c)| (s.clone(), mp(*c))).collect()),
            Flat::Hole => return Err("hole in type table".into()),
        };
        new_table[perm[old]] = g;
    }
    for c in arg_codes.iter_mut() {
        *c = mp(*c);
    }
    let pad = opts.pad_lebs;
    let mut out = b"DIDL".to_vec();
    leb(&mut out, n as u64, &mut rng, pad);
    for f in &new_table {
        match f {
            Flat::Opt(c) => {
                out.push(0x6e);
                sleb(&mut out, *c, &mut rng, pad);
            }
            Flat::Vec(c) => {
                out.push(0x6d);
                sleb(&mut out, *c, &mut rng, pad);
            }
            Flat::Record(fs) | Flat::Variant(fs) => {
                out.push(if matches!(f, Flat::Record(_)) { 0x6c } else { 0x6b });
                leb(&mut out, fs.len() as u64, &mut rng, pad);
                for (i, c) in fs {
                    leb(&mut out, *i as u64, &mut rng, pad);
                    sleb(&mut out, *c, &mut rng, pad);
                }
            }
            Flat::Func(a, b, m) => {
                out.push(0x6a);
                leb(&mut out, a.len() as u64, &mut rng, pad);
                for c in a {
                    sleb(&mut out, *c, &mut rng, pad);
                }
                leb(&mut out, b.len() as u64, &mut rng, pad);
                for c in b {
                    sleb(&mut out, *c, &mut rng, pad);
                }
                out.push(m.len() as u8);
                for x in m {
                    out.push(match x {
                        Mode::Query => 1,
                        Mode::Oneway => 2,
                        Mode::CompositeQuery => 3,
                    });
                }
            }
            Flat::Service(ms) => {
                out.push(0x69);
                leb(&mut out, ms.len() as u64, &mut rng, pad);
                for (s, c) in ms {
                    leb(&mut out, s.len() as u64, &mut rng, pad);
                    out.extend(s.as_bytes());
                    sleb(&mut out, *c, &mut rng, pad);
                }
            }
            Flat::Hole => unreachable!(),
        }
    }
    leb(&mut out, types.len() as u64, &mut rng, pad);
    for c in &arg_codes {
        sleb(&mut out, *c, &mut rng, pad);
    }
    if types.len() != values.len() {
        return Err("types/values length mismatch".into());
    }
    for (t, v) in types.iter().zip(values.iter()) {
        encode_value(env, t, v, &mut out)?;
    }
    Ok(out)
}

/// Table entries whose method types are not function entries cannot be encoded; used by generators.
pub fn encodable(env: &REnv, t: &RType) -> bool {
    fn go(env: &REnv, t: &RType, seen: &mut Vec<bool>) -> bool {
        match t {
            RType::Ref(i) => {
                if *i >= env.0.len() {
                    return false;
                }
                if seen[*i] {
                    return true;
                }
                seen[*i] = true;
                go(env, &env.0[*i], seen)
            }
            RType::Opt(t) | RType::Vec(t) => go(env, t, seen),
            RType::Record(fs) | RType::Variant(fs) => fs.iter().all(|f| go(env, &f.1, seen)),
            RType::Func { args, rets, .. } => args.iter().chain(rets.iter()).all(|t| go(env, t, seen)),
            RType::Service(ms) => ms
                .iter()
                .all(|(_, t)| matches!(env.unfold(t), Some(RType::Func { .. })) && go(env, t, seen)),
            RType::Future => false,
            _ => true,
        }
    }
    let mut seen = vec![false; env.0.len()];
    go(env, t, &mut seen)
}
