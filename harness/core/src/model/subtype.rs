//! R3: subtyping as a greatest fixed point over all reachable pairs, and structural
//! equality (bisimulation) of type graphs. No memo shared between queries, no order dependence.
use super::types::*;
use std::collections::HashMap;

enum Rule {
    True,
    False,
    All(Vec<(RType, RType)>),
}

fn sub_rule(env: &REnv, a: &RType, b: &RType) -> Rule {
    let (Some(a), Some(b)) = (env.unfold(a), env.unfold(b)) else {
        return Rule::False;
    };
    match (a, b) {
        (_, RType::Reserved) => Rule::True,
        (RType::Empty, _) => Rule::True,
        (RType::Nat, RType::Int) => Rule::True,
        (RType::Service(_), RType::Principal) => Rule::True,
        // The option rules of the spec, taken together, make every type a subtype of every option type.
        (_, RType::Opt(_)) => Rule::True,
        (RType::Vec(x), RType::Vec(y)) => Rule::All(vec![((**x).clone(), (**y).clone())]),
        (RType::Record(f1), RType::Record(f2)) => {
            let mut ps = Vec::new();
            for (id, t2) in f2 {
                match f1.iter().find(|f| f.0 == *id) {
                    Some((_, t1)) => ps.push((t1.clone(), t2.clone())),
                    None => {
                        if !env.is_nullable(t2) {
                            return Rule::False;
                        }
                    }
                }
            }
            Rule::All(ps)
        }
        (RType::Variant(f1), RType::Variant(f2)) => {
            let mut ps = Vec::new();
            for (id, t1) in f1 {
                match f2.iter().find(|f| f.0 == *id) {
                    Some((_, t2)) => ps.push((t1.clone(), t2.clone())),
                    None => return Rule::False,
                }
            }
            Rule::All(ps)
        }
        (
            RType::Func {
                args: a1,
                rets: r1,
                modes: m1,
            },
            RType::Func {
                args: a2,
                rets: r2,
                modes: m2,
            },
        ) => {
            let mut s1 = m1.clone();
            let mut s2 = m2.clone();
            s1.sort();
            s1.dedup();
            s2.sort();
            s2.dedup();
            if s1 != s2 {
                return Rule::False;
            }
            let mut ps = Vec::new();
            // record(a2) <: record(a1)
            for (i, t) in a1.iter().enumerate() {
                match a2.get(i) {
                    Some(u) => ps.push((u.clone(), t.clone())),
                    None => {
                        if !env.is_nullable(t) {
                            return Rule::False;
                        }
                    }
                }
            }
            // record(r1) <: record(r2)
            for (i, t) in r2.iter().enumerate() {
                match r1.get(i) {
                    Some(u) => ps.push((u.clone(), t.clone())),
                    None => {
                        if !env.is_nullable(t) {
                            return Rule::False;
                        }
                    }
                }
            }
            Rule::All(ps)
        }
        (RType::Service(m1), RType::Service(m2)) => {
            let mut ps = Vec::new();
            for (name, t2) in m2 {
                match m1.iter().find(|m| m.0 == *name) {
                    Some((_, t1)) => ps.push((t1.clone(), t2.clone())),
                    None => return Rule::False,
                }
            }
            Rule::All(ps)
        }
        (RType::Future, RType::Future) => Rule::True,
        (x, y) if x.is_prim() && x == y => Rule::True,
        _ => Rule::False,
    }
}

fn eq_rule(env: &REnv, a: &RType, b: &RType) -> Rule {
    let (Some(a), Some(b)) = (env.unfold(a), env.unfold(b)) else {
        return Rule::False;
    };
    match (a, b) {
        (RType::Opt(x), RType::Opt(y)) | (RType::Vec(x), RType::Vec(y)) => {
            Rule::All(vec![((**x).clone(), (**y).clone())])
        }
        (RType::Record(f1), RType::Record(f2)) | (RType::Variant(f1), RType::Variant(f2)) => {
            if f1.len() != f2.len() {
                return Rule::False;
            }
            let mut ps = Vec::new();
            for ((i, t), (j, u)) in f1.iter().zip(f2.iter()) {
                if i != j {
                    return Rule::False;
                }
                ps.push((t.clone(), u.clone()));
            }
            Rule::All(ps)
        }
        (
            RType::Func {
                args: a1,
                rets: r1,
                modes: m1,
            },
            RType::Func {
                args: a2,
                rets: r2,
                modes: m2,
            },
        ) => {
            if m1 != m2 || a1.len() != a2.len() || r1.len() != r2.len() {
                return Rule::False;
            }
            Rule::All(
                a1.iter()
                    .zip(a2.iter())
                    .chain(r1.iter().zip(r2.iter()))
                    .map(|(x, y)| (x.clone(), y.clone()))
                    .collect(),
            )
        }
        (RType::Service(m1), RType::Service(m2)) => {
            if m1.len() != m2.len() {
                return Rule::False;
            }
            let mut ps = Vec::new();
            for ((n, t), (m, u)) in m1.iter().zip(m2.iter()) {
                if n != m {
                    return Rule::False;
                }
                ps.push((t.clone(), u.clone()));
            }
            Rule::All(ps)
        }
        (RType::Future, RType::Future) => Rule::True,
        (x, y) if x.is_prim() && x == y => Rule::True,
        _ => Rule::False,
    }
}

fn gfp(env: &REnv, a: &RType, b: &RType, rule: fn(&REnv, &RType, &RType) -> Rule) -> (bool, usize) {
    let mut index: HashMap<(RType, RType), usize> = HashMap::new();
    let mut prem: Vec<Vec<usize>> = Vec::new();
    let mut alive: Vec<bool> = Vec::new();
    let mut work: Vec<(RType, RType)> = vec![(a.clone(), b.clone())];
    index.insert((a.clone(), b.clone()), 0);
    prem.push(vec![]);
    alive.push(true);
    while let Some((x, y)) = work.pop() {
        let me = index[&(x.clone(), y.clone())];
        match rule(env, &x, &y) {
            Rule::True => {}
            Rule::False => alive[me] = false,
            Rule::All(ps) => {
                let mut ids = Vec::new();
                for p in ps {
                    let id = match index.get(&p) {
                        Some(i) => *i,
                        None => {
                            let i = prem.len();
                            index.insert(p.clone(), i);
                            prem.push(vec![]);
                            alive.push(true);
                            work.push(p);
                            i
                        }
                    };
                    ids.push(id);
                }
                prem[me] = ids;
            }
        }
    }
    loop {
        let mut changed = false;
        for i in 0..prem.len() {
            if alive[i] && prem[i].iter().any(|j| !alive[*j]) {
                alive[i] = false;
                changed = true;
            }
        }
        if !changed {
            break;
        }
    }
    (alive[0], prem.len())
}

/// t1 <: t2 in `env` (greatest fixed point). Returns (answer, number of pairs explored).
pub fn subtype_n(env: &REnv, t1: &RType, t2: &RType) -> (bool, usize) {
    gfp(env, t1, t2, sub_rule)
}
pub fn subtype(env: &REnv, t1: &RType, t2: &RType) -> bool {
    subtype_n(env, t1, t2).0
}
/// Structural equality of the (possibly infinite) trees denoted by t1 and t2.
pub fn requal(env: &REnv, t1: &RType, t2: &RType) -> bool {
    gfp(env, t1, t2, eq_rule).0
}
/// Equality across two environments.
pub fn requal2(e1: &REnv, t1: &RType, e2: &REnv, t2: &RType) -> bool {
    let mut env = e1.clone();
    let off = env.append(e2);
    requal(&env, t1, &t2.shift_refs(off))
}
/// Subtyping across two environments.
pub fn subtype2(e1: &REnv, t1: &RType, e2: &REnv, t2: &RType) -> bool {
    let mut env = e1.clone();
    let off = env.append(e2);
    subtype(&env, t1, &t2.shift_refs(off))
}

#[cfg(test)]
mod tests {
    use super::*;
    #[test]
    fn basics() {
        let env = REnv(vec![
            // T0 = opt T0
            RType::opt(RType::Ref(0)),
            // T1 = record { 0: nat; 1: opt T1 }
            RType::record(vec![(0, RType::Nat), (1, RType::opt(RType::Ref(1)))]),
            // T2 = record { 0: int; 1: opt T2 }
            RType::record(vec![(0, RType::Int), (1, RType::opt(RType::Ref(2)))]),
            // T3 = vec T3, T4 = vec T4
            RType::vec(RType::Ref(3)),
            RType::vec(RType::Ref(4)),
            // T5 = record { a: vec T5 ; z: text }, T6 = same with nat
            RType::record(vec![(1, RType::vec(RType::Ref(5))), (9, RType::Text)]),
            RType::record(vec![(1, RType::vec(RType::Ref(6))), (9, RType::Nat)]),
        ]);
        assert!(subtype(&env, &RType::Nat, &RType::Int));
        assert!(!subtype(&env, &RType::Int, &RType::Nat));
        assert!(subtype(&env, &RType::Ref(1), &RType::Ref(2)));
        assert!(!subtype(&env, &RType::Ref(2), &RType::Ref(1)));
        assert!(subtype(&env, &RType::Ref(3), &RType::Ref(4)));
        assert!(requal(&env, &RType::Ref(3), &RType::Ref(4)));
        assert!(!requal(&env, &RType::Ref(1), &RType::Ref(2)));
        assert!(!subtype(&env, &RType::Ref(5), &RType::Ref(6)));
        assert!(subtype(&env, &RType::Text, &RType::opt(RType::Nat)));
        assert!(subtype(
            &env,
            &RType::record(vec![(1, RType::Nat)]),
            &RType::record(vec![(2, RType::opt(RType::Nat))])
        ));
        assert!(!subtype(
            &env,
            &RType::record(vec![(1, RType::Nat)]),
            &RType::record(vec![(2, RType::Nat)])
        ));
        // contravariant function arguments
        let f1 = RType::func(vec![RType::Int], vec![RType::Nat], vec![]);
        let f2 = RType::func(vec![RType::Nat], vec![RType::Int], vec![]);
        assert!(subtype(&env, &f1, &f2));
        assert!(!subtype(&env, &f2, &f1));
    }
}
