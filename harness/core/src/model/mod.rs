pub mod coerce;
pub mod leb;
pub mod misc;
pub mod subtype;
pub mod types;
pub mod wire;
pub use types::*;
