//! Model types: a type graph (`REnv` + `RType`) and abstract values (`RValue`).
//! Written from spec/Candid.md; shares no code with candid.
use num_bigint::{BigInt, BigUint};
use std::fmt;

#[derive(Clone, Copy, Debug, PartialEq, Eq, Hash, PartialOrd, Ord)]
pub enum Mode {
    Query,
    Oneway,
    CompositeQuery,
}

#[derive(Clone, Debug, PartialEq, Eq, Hash, PartialOrd, Ord)]
pub enum RType {
    Null,
    Bool,
    Nat,
    Int,
    Nat8,
    Nat16,
    Nat32,
    Nat64,
    Int8,
    Int16,
    Int32,
    Int64,
    Float32,
    Float64,
    Text,
    Reserved,
    Empty,
    Principal,
    Opt(Box<RType>),
    Vec(Box<RType>),
    /// fields sorted by id, ids unique
    Record(Vec<(u32, RType)>),
    Variant(Vec<(u32, RType)>),
    Func {
        args: Vec<RType>,
        rets: Vec<RType>,
        modes: Vec<Mode>,
    },
    /// methods sorted by name (byte order), unique
    Service(Vec<(String, RType)>),
    /// reference to entry `i` of the environment
    Ref(usize),
    /// a type with an opcode this version does not know (wire only)
    Future,
}

pub const PRIMS: [RType; 18] = [
    RType::Null,
    RType::Bool,
    RType::Nat,
    RType::Int,
    RType::Nat8,
    RType::Nat16,
    RType::Nat32,
    RType::Nat64,
    RType::Int8,
    RType::Int16,
    RType::Int32,
    RType::Int64,
    RType::Float32,
    RType::Float64,
    RType::Text,
    RType::Reserved,
    RType::Empty,
    RType::Principal,
];

impl RType {
    pub fn opt(t: RType) -> RType {
        RType::Opt(Box::new(t))
    }
    pub fn vec(t: RType) -> RType {
        RType::Vec(Box::new(t))
    }
    pub fn record(mut fs: Vec<(u32, RType)>) -> RType {
        fs.sort_by_key(|f| f.0);
        RType::Record(fs)
    }
    pub fn variant(mut fs: Vec<(u32, RType)>) -> RType {
        fs.sort_by_key(|f| f.0);
        RType::Variant(fs)
    }
    pub fn tuple(ts: Vec<RType>) -> RType {
        RType::Record(ts.into_iter().enumerate().map(|(i, t)| (i as u32, t)).collect())
    }
    pub fn func(args: Vec<RType>, rets: Vec<RType>, modes: Vec<Mode>) -> RType {
        RType::Func { args, rets, modes }
    }
    pub fn service(mut ms: Vec<(String, RType)>) -> RType {
        ms.sort_by(|a, b| a.0.as_bytes().cmp(b.0.as_bytes()));
        RType::Service(ms)
    }
    pub fn is_prim(&self) -> bool {
        !matches!(
            self,
            RType::Opt(_)
                | RType::Vec(_)
                | RType::Record(_)
                | RType::Variant(_)
                | RType::Func { .. }
                | RType::Service(_)
                | RType::Ref(_)
                | RType::Future
        )
    }
    pub fn prim_opcode(&self) -> Option<i64> {
        Some(match self {
            RType::Null => -1,
            RType::Bool => -2,
            RType::Nat => -3,
            RType::Int => -4,
            RType::Nat8 => -5,
            RType::Nat16 => -6,
            RType::Nat32 => -7,
            RType::Nat64 => -8,
            RType::Int8 => -9,
            RType::Int16 => -10,
            RType::Int32 => -11,
            RType::Int64 => -12,
            RType::Float32 => -13,
            RType::Float64 => -14,
            RType::Text => -15,
            RType::Reserved => -16,
            RType::Empty => -17,
            RType::Principal => -24,
            _ => return None,
        })
    }
    pub fn from_prim_opcode(op: i64) -> Option<RType> {
        Some(match op {
            -1 => RType::Null,
            -2 => RType::Bool,
            -3 => RType::Nat,
            -4 => RType::Int,
            -5 => RType::Nat8,
            -6 => RType::Nat16,
            -7 => RType::Nat32,
            -8 => RType::Nat64,
            -9 => RType::Int8,
            -10 => RType::Int16,
            -11 => RType::Int32,
            -12 => RType::Int64,
            -13 => RType::Float32,
            -14 => RType::Float64,
            -15 => RType::Text,
            -16 => RType::Reserved,
            -17 => RType::Empty,
            -24 => RType::Principal,
            _ => return None,
        })
    }
    /// size of the type tree (not following refs)
    pub fn size(&self) -> usize {
        match self {
            RType::Opt(t) | RType::Vec(t) => 1 + t.size(),
            RType::Record(fs) | RType::Variant(fs) => 1 + fs.iter().map(|f| f.1.size()).sum::<usize>(),
            RType::Func { args, rets, .. } => {
                1 + args.iter().chain(rets.iter()).map(|t| t.size()).sum::<usize>()
            }
            RType::Service(ms) => 1 + ms.iter().map(|m| m.1.size()).sum::<usize>(),
            _ => 1,
        }
    }
    pub fn shift_refs(&self, by: usize) -> RType {
        self.map_refs(&|i| RType::Ref(i + by))
    }
    pub fn map_refs(&self, f: &dyn Fn(usize) -> RType) -> RType {
        match self {
            RType::Ref(i) => f(*i),
            RType::Opt(t) => RType::opt(t.map_refs(f)),
            RType::Vec(t) => RType::vec(t.map_refs(f)),
            RType::Record(fs) => RType::Record(fs.iter().map(|(i, t)| (*i, t.map_refs(f))).collect()),
            RType::Variant(fs) => RType::Variant(fs.iter().map(|(i, t)| (*i, t.map_refs(f))).collect()),
            RType::Func { args, rets, modes } => RType::Func {
                args: args.iter().map(|t| t.map_refs(f)).collect(),
                rets: rets.iter().map(|t| t.map_refs(f)).collect(),
                modes: modes.clone(),
            },
            RType::Service(ms) => RType::Service(ms.iter().map(|(n, t)| (n.clone(), t.map_refs(f))).collect()),
            t => t.clone(),
        }
    }
}

#[derive(Clone, Debug, Default, PartialEq, Eq)]
pub struct REnv(pub Vec<RType>);

impl REnv {
    pub fn new() -> Self {
        REnv(Vec::new())
    }
    /// Follow references until a non-reference type; `None` on a vacuous cycle or a dangling index.
    pub fn unfold<'a>(&'a self, t: &'a RType) -> Option<&'a RType> {
        let mut cur = t;
        let mut steps = 0;
        while let RType::Ref(i) = cur {
            cur = self.0.get(*i)?;
            steps += 1;
            if steps > self.0.len() + 1 {
                return None;
            }
        }
        Some(cur)
    }
    /// Append another environment, returning the offset to add to its references.
    pub fn append(&mut self, other: &REnv) -> usize {
        let off = self.0.len();
        for t in &other.0 {
            self.0.push(t.shift_refs(off));
        }
        off
    }
    /// `null <: t` in the sense of the spec's side conditions: t is null, opt or reserved.
    pub fn is_nullable(&self, t: &RType) -> bool {
        matches!(self.unfold(t), Some(RType::Null | RType::Opt(_) | RType::Reserved))
    }
}

#[derive(Clone, Debug, PartialEq, Eq, Hash)]
pub enum RValue {
    /// `null`: the value of type null and the absent option
    Null,
    Bool(bool),
    Nat(BigUint),
    Int(BigInt),
    Nat8(u8),
    Nat16(u16),
    Nat32(u32),
    Nat64(u64),
    Int8(i8),
    Int16(i16),
    Int32(i32),
    Int64(i64),
    /// bit patterns, so NaNs compare bit-for-bit
    Float32(u32),
    Float64(u64),
    Text(String),
    /// the value of type reserved
    Reserved,
    Opt(Box<RValue>),
    Vec(Vec<RValue>),
    /// sorted by id
    Record(Vec<(u32, RValue)>),
    Variant(u32, Box<RValue>),
    Principal(Vec<u8>),
    Service(Vec<u8>),
    Func(Vec<u8>, String),
    /// a skipped value of a future type
    Future,
}

impl RValue {
    pub fn opt(v: RValue) -> RValue {
        RValue::Opt(Box::new(v))
    }
    pub fn nat(n: u64) -> RValue {
        RValue::Nat(BigUint::from(n))
    }
    pub fn int(n: i64) -> RValue {
        RValue::Int(BigInt::from(n))
    }
    pub fn blob(b: &[u8]) -> RValue {
        RValue::Vec(b.iter().map(|x| RValue::Nat8(*x)).collect())
    }
    pub fn record(mut fs: Vec<(u32, RValue)>) -> RValue {
        fs.sort_by_key(|f| f.0);
        RValue::Record(fs)
    }
    pub fn node_count(&self) -> usize {
        match self {
            RValue::Opt(v) | RValue::Variant(_, v) => 1 + v.node_count(),
            RValue::Vec(vs) => 1 + vs.iter().map(|v| v.node_count()).sum::<usize>(),
            RValue::Record(fs) => 1 + fs.iter().map(|f| f.1.node_count()).sum::<usize>(),
            _ => 1,
        }
    }
    pub fn depth(&self) -> usize {
        match self {
            RValue::Opt(v) | RValue::Variant(_, v) => 1 + v.depth(),
            RValue::Vec(vs) => 1 + vs.iter().map(|v| v.depth()).max().unwrap_or(0),
            RValue::Record(fs) => 1 + fs.iter().map(|f| f.1.depth()).max().unwrap_or(0),
            _ => 1,
        }
    }
}

fn esc(s: &str) -> String {
    let mut o = String::new();
    for c in s.chars() {
        match c {
            '"' => o.push_str("\\\""),
            '\\' => o.push_str("\\\\"),
            c if (c as u32) < 0x20 || c as u32 == 0x7f => o.push_str(&format!("\\u{{{:x}}}", c as u32)),
            c => o.push(c),
        }
    }
    o
}
fn hex(b: &[u8]) -> String {
    b.iter().map(|x| format!("{x:02x}")).collect()
}

impl fmt::Display for RType {
    fn fmt(&self, f: &mut fmt::Formatter<'_>) -> fmt::Result {
        match self {
            RType::Opt(t) => write!(f, "opt {t}"),
            RType::Vec(t) => write!(f, "vec {t}"),
            RType::Record(fs) => {
                write!(f, "record {{")?;
                for (i, t) in fs {
                    write!(f, " {i} : {t};")?;
                }
                write!(f, " }}")
            }
            RType::Variant(fs) => {
                write!(f, "variant {{")?;
                for (i, t) in fs {
                    write!(f, " {i} : {t};")?;
                }
                write!(f, " }}")
            }
            RType::Func { args, rets, modes } => {
                write!(f, "func (")?;
                for (i, t) in args.iter().enumerate() {
                    if i > 0 {
                        write!(f, ", ")?;
                    }
                    write!(f, "{t}")?;
                }
                write!(f, ") -> (")?;
                for (i, t) in rets.iter().enumerate() {
                    if i > 0 {
                        write!(f, ", ")?;
                    }
                    write!(f, "{t}")?;
                }
                write!(f, ")")?;
                for m in modes {
                    write!(
                        f,
                        " {}",
                        match m {
                            Mode::Query => "query",
                            Mode::Oneway => "oneway",
                            Mode::CompositeQuery => "composite_query",
                        }
                    )?;
                }
                Ok(())
            }
            RType::Service(ms) => {
                write!(f, "service {{")?;
                for (n, t) in ms {
                    write!(f, " \"{}\" : {t};", esc(n))?;
                }
                write!(f, " }}")
            }
            RType::Ref(i) => write!(f, "T{i}"),
            RType::Future => write!(f, "future"),
            p => write!(f, "{}", format!("{p:?}").to_lowercase()),
        }
    }
}

impl fmt::Display for REnv {
    fn fmt(&self, f: &mut fmt::Formatter<'_>) -> fmt::Result {
        for (i, t) in self.0.iter().enumerate() {
            write!(f, "type T{i} = {t}; ")?;
        }
        Ok(())
    }
}

impl fmt::Display for RValue {
    fn fmt(&self, f: &mut fmt::Formatter<'_>) -> fmt::Result {
        match self {
            RValue::Null => write!(f, "null"),
            RValue::Bool(b) => write!(f, "{b}"),
            RValue::Nat(n) => write!(f, "{n}:nat"),
            RValue::Int(n) => write!(f, "{n}:int"),
            RValue::Nat8(n) => write!(f, "{n}:nat8"),
            RValue::Nat16(n) => write!(f, "{n}:nat16"),
            RValue::Nat32(n) => write!(f, "{n}:nat32"),
            RValue::Nat64(n) => write!(f, "{n}:nat64"),
            RValue::Int8(n) => write!(f, "{n}:int8"),
            RValue::Int16(n) => write!(f, "{n}:int16"),
            RValue::Int32(n) => write!(f, "{n}:int32"),
            RValue::Int64(n) => write!(f, "{n}:int64"),
            RValue::Float32(b) => write!(f, "f32#{b:08x}"),
            RValue::Float64(b) => write!(f, "f64#{b:016x}"),
            RValue::Text(s) => write!(f, "\"{}\"", esc(s)),
            RValue::Reserved => write!(f, "reserved"),
            RValue::Opt(v) => write!(f, "opt {v}"),
            RValue::Vec(vs) => {
                if !vs.is_empty() && vs.iter().all(|v| matches!(v, RValue::Nat8(_))) {
                    let b: Vec<u8> = vs
                        .iter()
                        .map(|v| if let RValue::Nat8(x) = v { *x } else { 0 })
                        .collect();
                    return write!(f, "blob#{}", hex(&b));
                }
                write!(f, "vec {{")?;
                for (i, v) in vs.iter().enumerate() {
                    if i > 20 {
                        write!(f, " …{} more", vs.len() - i)?;
                        break;
                    }
                    write!(f, " {v};")?;
                }
                write!(f, " }}")
            }
            RValue::Record(fs) => {
                write!(f, "record {{")?;
                for (i, v) in fs {
                    write!(f, " {i} = {v};")?;
                }
                write!(f, " }}")
            }
            RValue::Variant(i, v) => write!(f, "variant {{ {i} = {v} }}"),
            RValue::Principal(b) => write!(f, "principal#{}", hex(b)),
            RValue::Service(b) => write!(f, "service#{}", hex(b)),
            RValue::Func(b, m) => write!(f, "func#{}.\"{}\"", hex(b), esc(m)),
            RValue::Future => write!(f, "future"),
        }
    }
}
