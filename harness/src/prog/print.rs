//! Printer for `super::ast` written from the grammar in spec/Candid.md. Nothing here calls candid.
//!
//! The layout is randomised (driven by an `Rng`, so still deterministic per case): order of
//! definitions, order of fields and methods, optional trailing separators, whitespace, block and
//! inline comments between tokens, quoting and escaping of names, spelling of numeric ids.
//! `PrintCfg::plain()` gives a fixed, boring layout (source order, one definition per line).
use super::ast::*;
use crate::rng::Rng;

#[derive(Clone, Debug)]
pub struct PrintCfg {
    /// print the definitions in a random order (the spec: definitions are mutually recursive)
    pub shuffle_defs: bool,
    /// print fields (of records without tuple-shorthand fields, and of variants) and methods in a random order
    pub shuffle_fields: bool,
    /// percent chance of a trailing `;` / `,` after the last element of a list
    pub trailing_sep_pct: u64,
    /// percent chance, per gap between two tokens, of something other than a single space
    pub noise_pct: u64,
    /// percent chance that optional white space between two tokens is omitted altogether
    pub compact_pct: u64,
    /// print doc comments (`// ...` lines directly above definitions, fields, methods, the actor)
    pub docs: bool,
    /// percent chance of quoting a name that needs no quotes
    pub quote_pct: u64,
    /// percent chance, per character of a quoted name, of an escape that is not required
    pub escape_pct: u64,
    /// percent chance of spelling a numeric id in hex or with `_` separators
    pub num_style_pct: u64,
    /// percent chance of `;` after the actor
    pub actor_semi_pct: u64,
}

impl PrintCfg {
    pub fn plain() -> PrintCfg {
        PrintCfg {
            shuffle_defs: false,
            shuffle_fields: false,
            trailing_sep_pct: 0,
            noise_pct: 0,
            compact_pct: 0,
            docs: true,
            quote_pct: 0,
            escape_pct: 0,
            num_style_pct: 0,
            actor_semi_pct: 0,
        }
    }
    pub fn random(rng: &mut Rng) -> PrintCfg {
        if rng.chance(1, 6) {
            return PrintCfg::plain();
        }
        PrintCfg {
            shuffle_defs: rng.bool(),
            shuffle_fields: rng.bool(),
            trailing_sep_pct: *rng.pick(&[0, 30, 100]),
            noise_pct: *rng.pick(&[0, 5, 25]),
            compact_pct: *rng.pick(&[0, 0, 40, 100]),
            docs: true,
            quote_pct: *rng.pick(&[0, 10, 60]),
            escape_pct: *rng.pick(&[0, 5, 50]),
            num_style_pct: *rng.pick(&[0, 20, 60]),
            actor_semi_pct: *rng.pick(&[0, 50, 100]),
        }
    }
    pub fn without_docs(mut self) -> PrintCfg {
        self.docs = false;
        self
    }
}

/// Is `c` a character that must be escaped inside `<text>` (spec: `<ascii>` is '\20'..'\7e' except `"` and `\`)?
fn must_escape(c: char) -> bool {
    c == '"' || c == '\\' || (c as u32) < 0x20 || c as u32 == 0x7f
}

fn hexnum(rng: &mut Rng, v: u32, fancy: bool) -> String {
    let mut s = if fancy && rng.bool() {
        format!("{v:X}")
    } else {
        format!("{v:x}")
    };
    if fancy && rng.chance(1, 3) {
        // leading zeros
        s = format!("{}{}", "0".repeat(1 + rng.usize(3)), s);
    }
    if fancy && s.len() > 1 && rng.chance(1, 3) {
        let at = 1 + rng.usize(s.len() - 1);
        s.insert(at, '_');
    }
    s
}

/// `"…"` with the escapes of the spec's `<char>` production.
pub fn quote(rng: &mut Rng, s: &str, escape_pct: u64) -> String {
    let mut o = String::with_capacity(s.len() + 2);
    o.push('"');
    for c in s.chars() {
        let optional = rng.below(100) < escape_pct;
        match c {
            '"' => o.push_str("\\\""),
            '\\' => o.push_str("\\\\"),
            '\n' if !optional => o.push_str("\\n"),
            '\r' if !optional => o.push_str("\\r"),
            '\t' if !optional => o.push_str("\\t"),
            '\'' if optional => o.push_str("\\'"),
            c if must_escape(c) || optional => match rng.below(3) {
                0 if (c as u32) < 0x80 => o.push_str(&format!("\\{:02x}", c as u32)),
                1 if (c as u32) < 0x80 => o.push_str(&format!("\\{:02X}", c as u32)),
                2 if optional => {
                    // the UTF-8 encoding byte by byte
                    let mut buf = [0u8; 4];
                    for b in c.encode_utf8(&mut buf).as_bytes() {
                        o.push_str(&format!("\\{b:02x}"));
                    }
                }
                _ => {
                    o.push_str("\\u{");
                    o.push_str(&hexnum(rng, c as u32, optional));
                    o.push('}');
                }
            },
            c => o.push(c),
        }
    }
    o.push('"');
    o
}

/// A `<name>`: bare when legal (or quoted anyway with probability `quote_pct`), quoted otherwise.
pub fn name(rng: &mut Rng, s: &str, cfg: &PrintCfg) -> String {
    if bare_ok(s) && rng.below(100) >= cfg.quote_pct {
        s.to_string()
    } else {
        quote(rng, s, cfg.escape_pct)
    }
}

pub fn nat(rng: &mut Rng, v: u32, cfg: &PrintCfg) -> String {
    if rng.below(100) >= cfg.num_style_pct {
        return v.to_string();
    }
    match rng.below(3) {
        0 => {
            // groups separated by `_`
            let s = v.to_string();
            let mut o = String::new();
            for (i, ch) in s.chars().enumerate() {
                if i > 0 && rng.chance(1, 3) {
                    o.push('_');
                }
                o.push(ch);
            }
            o
        }
        1 => format!("0x{}", hexnum(rng, v, true)),
        _ => format!("{}{}", "0".repeat(rng.usize(3)), v),
    }
}

struct P<'a> {
    out: String,
    cfg: &'a PrintCfg,
    rng: &'a mut Rng,
    /// the last token ends in a character that would merge with a following word
    last_word: bool,
    /// the last thing emitted is a regular (non-string) token and no newline followed it
    inline_ok: bool,
    indent: usize,
    fresh: bool,
    /// the next token must follow without any gap (it carries the doc comment just printed)
    glue: bool,
}

const NOISE_COMMENTS: &[&str] = &[
    "/**/",
    "/* c */",
    "/* type X = nat; */",
    "/* a /* nested */ b */",
    "/* \" */",
    "/* // */",
    "/*\n multi\n line\n*/",
    "/* service : {} */",
];

impl<'a> P<'a> {
    fn gap(&mut self, next_word: bool) {
        if self.glue {
            self.glue = false;
            self.fresh = false;
            return;
        }
        if self.fresh {
            self.fresh = false;
            if self.rng.below(100) < self.cfg.noise_pct {
                self.out.push_str(*self.rng.pick(&["\n", " ", "\t", "/* header */ ", "\n\n"]));
            }
            return;
        }
        let required = self.last_word && next_word;
        if self.rng.below(100) < self.cfg.noise_pct {
            match self.rng.below(8) {
                0 => self.out.push_str("  "),
                1 => self.out.push('\t'),
                2 => {
                    self.out.push('\n');
                    self.inline_ok = false;
                }
                3 => {
                    self.out.push_str("\r\n");
                    self.inline_ok = false;
                }
                4 | 5 => {
                    let c = *self.rng.pick(NOISE_COMMENTS);
                    self.out.push(' ');
                    self.out.push_str(c);
                    self.out.push(' ');
                    if c.contains('\n') {
                        self.inline_ok = false;
                    }
                }
                6 if self.inline_ok => {
                    // a line comment on the line of the previous token is not a doc comment
                    self.out.push_str(*self.rng.pick(&[" // inline", "//", " // \"", " // */ /*"]));
                    self.out.push('\n');
                    self.inline_ok = false;
                }
                _ => {
                    self.out.push('\n');
                    for _ in 0..self.rng.usize(6) {
                        self.out.push(' ');
                    }
                    self.inline_ok = false;
                }
            }
            return;
        }
        if required || self.rng.below(100) >= self.cfg.compact_pct {
            self.out.push(' ');
        }
    }
    fn word(&mut self, s: &str) {
        self.gap(true);
        self.out.push_str(s);
        self.last_word = true;
        self.inline_ok = true;
    }
    fn punct(&mut self, s: &str) {
        self.gap(false);
        self.out.push_str(s);
        self.last_word = false;
        self.inline_ok = true;
    }
    fn string(&mut self, s: &str) {
        self.gap(false);
        self.out.push_str(s);
        self.last_word = false;
        // candid's lexer does not record string tokens as "previous token on this line"
        self.inline_ok = false;
    }
    fn name(&mut self, s: &str) {
        let t = name(self.rng, s, self.cfg);
        if t.starts_with('"') {
            self.string(&t)
        } else {
            self.word(&t)
        }
    }
    fn newline(&mut self) {
        self.out.push('\n');
        for _ in 0..self.indent {
            self.out.push_str("  ");
        }
        self.last_word = false;
        self.inline_ok = false;
        self.fresh = false;
    }
    /// Doc comment lines directly above the next token: each on its own line, no blank line in
    /// between or after, and the next token follows on the line after the last one.
    fn docs(&mut self, docs: &[String]) -> bool {
        if !self.cfg.docs || docs.is_empty() {
            return false;
        }
        for d in docs {
            self.newline();
            self.out.push_str("//");
            if !d.is_empty() && (self.cfg.compact_pct == 0 || self.rng.bool()) {
                self.out.push(' ');
            }
            self.out.push_str(d);
        }
        self.newline();
        // the token must follow immediately (only indentation in between)
        self.glue = true;
        true
    }
    fn label_token(&mut self, l: &Label) {
        match l {
            Label::Named(n) => self.name(n),
            Label::Id(i) => {
                let t = nat(self.rng, *i, self.cfg);
                self.word(&t)
            }
            Label::Unnamed => {}
        }
    }
    fn order(&mut self, n: usize, fixed: bool) -> Vec<usize> {
        let mut ix: Vec<usize> = (0..n).collect();
        if self.cfg.shuffle_fields && !fixed {
            self.rng.shuffle(&mut ix);
        }
        ix
    }
    fn trailing(&mut self, sep: &str) {
        if self.rng.below(100) < self.cfg.trailing_sep_pct {
            self.punct(sep);
        }
    }
    fn fields(&mut self, fs: &[Field], variant: bool) {
        self.punct("{");
        let fixed = fs.iter().any(|f| f.label == Label::Unnamed);
        let ix = self.order(fs.len(), fixed);
        self.indent += 1;
        for (k, i) in ix.iter().enumerate() {
            let f = &fs[*i];
            self.docs(&f.docs);
            if f.label == Label::Unnamed {
                self.ty(&f.ty);
            } else {
                self.label_token(&f.label);
                if !(variant && f.short && f.ty == Ty::Prim(Prim::Null)) {
                    self.punct(":");
                    self.ty(&f.ty);
                }
            }
            if k + 1 < ix.len() {
                self.punct(";");
            } else {
                self.trailing(";");
            }
        }
        self.indent -= 1;
        self.punct("}");
    }
    fn args(&mut self, args: &[ArgTy]) {
        self.punct("(");
        for (k, a) in args.iter().enumerate() {
            if let Some(n) = &a.name {
                self.name(n);
                self.punct(":");
            }
            self.ty(&a.ty);
            if k + 1 < args.len() {
                self.punct(",");
            } else {
                self.trailing(",");
            }
        }
        self.punct(")");
    }
    fn func(&mut self, f: &Func) {
        self.args(&f.args);
        self.punct("->");
        self.args(&f.rets);
        for m in &f.modes {
            self.word(m.keyword());
        }
    }
    fn methods(&mut self, ms: &[Method]) {
        self.punct("{");
        let ix = self.order(ms.len(), false);
        self.indent += 1;
        for (k, i) in ix.iter().enumerate() {
            let m = &ms[*i];
            self.docs(&m.docs);
            self.name(&m.name);
            self.punct(":");
            match &m.ty {
                MethTy::Func(f) => self.func(f),
                MethTy::Var(v) => self.word(v),
                MethTy::Raw(t) => self.ty(t),
            }
            if k + 1 < ix.len() {
                self.punct(";");
            } else {
                self.trailing(";");
            }
        }
        self.indent -= 1;
        self.punct("}");
    }
    fn ty(&mut self, t: &Ty) {
        match t {
            Ty::Prim(p) => self.word(p.keyword()),
            Ty::Principal => self.word("principal"),
            Ty::Var(v) => self.word(v),
            Ty::Opt(t) => {
                self.word("opt");
                self.ty(t)
            }
            Ty::Vec(t) => {
                self.word("vec");
                self.ty(t)
            }
            Ty::Blob => self.word("blob"),
            Ty::Record(fs) => {
                self.word("record");
                self.fields(fs, false)
            }
            Ty::Variant(fs) => {
                self.word("variant");
                self.fields(fs, true)
            }
            Ty::Func(f) => {
                self.word("func");
                self.func(f)
            }
            Ty::Service(ms) => {
                self.word("service");
                self.methods(ms)
            }
        }
    }
    fn def(&mut self, d: &Def) {
        if !self.docs(&d.docs) && !self.out.is_empty() && !self.out.ends_with('\n') && self.cfg.compact_pct < 100 {
            self.newline();
        }
        self.word("type");
        self.word(&d.name);
        self.punct("=");
        self.ty(&d.ty);
    }
    fn defs(&mut self, defs: &[Def], more_follows: bool) {
        let mut ix: Vec<usize> = (0..defs.len()).collect();
        if self.cfg.shuffle_defs {
            self.rng.shuffle(&mut ix);
        }
        for (k, i) in ix.iter().enumerate() {
            self.def(&defs[*i]);
            // `<def>;*` : the separator is required between definitions and before the actor
            if k + 1 < ix.len() || more_follows {
                self.punct(";");
            } else {
                self.trailing(";");
            }
        }
    }
    fn actor(&mut self, a: &Actor) {
        if !self.docs(&a.docs) && !self.out.is_empty() && !self.out.ends_with('\n') && self.cfg.compact_pct < 100 {
            self.newline();
        }
        self.word("service");
        if let Some(n) = &a.name {
            self.word(n);
        }
        self.punct(":");
        if let Some(init) = &a.init {
            self.args(init);
            self.punct("->");
        }
        match &a.body {
            ActorBody::Service(ms) => self.methods(ms),
            ActorBody::Var(v) => self.word(v),
        }
        if self.rng.below(100) < self.cfg.actor_semi_pct {
            self.punct(";");
        }
    }
}

fn finish(mut p: P) -> String {
    if p.rng.below(100) < p.cfg.noise_pct {
        let tail = *p.rng.pick(&["\n", "\n\n", " ", " /* eof */", "\n// trailing comment", "\t\n"]);
        p.out.push_str(tail);
    } else if p.cfg.compact_pct < 100 {
        p.out.push('\n');
    }
    p.out
}

fn new_p<'a>(cfg: &'a PrintCfg, rng: &'a mut Rng) -> P<'a> {
    P {
        out: String::new(),
        cfg,
        rng,
        last_word: false,
        inline_ok: false,
        indent: 0,
        fresh: true,
        glue: false,
    }
}

pub fn print_prog(p: &Prog, cfg: &PrintCfg, rng: &mut Rng) -> String {
    let mut pr = new_p(cfg, rng);
    pr.defs(&p.defs, p.actor.is_some());
    if let Some(a) = &p.actor {
        pr.actor(a);
    }
    finish(pr)
}

pub fn print_init_args(p: &InitArgsProg, cfg: &PrintCfg, rng: &mut Rng) -> String {
    let mut pr = new_p(cfg, rng);
    pr.defs(&p.defs, true);
    pr.args(&p.args);
    finish(pr)
}

pub fn print_ty(t: &Ty, cfg: &PrintCfg, rng: &mut Rng) -> String {
    let mut pr = new_p(cfg, rng);
    pr.ty(t);
    pr.out
}

/// Fixed layout, source order: for witnesses and messages.
pub fn plain(p: &Prog) -> String {
    let mut rng = Rng::new(0);
    print_prog(p, &PrintCfg::plain(), &mut rng)
}
pub fn plain_ty(t: &Ty) -> String {
    let mut rng = Rng::new(0);
    print_ty(t, &PrintCfg::plain(), &mut rng)
}
