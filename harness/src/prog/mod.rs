//! Program-level generators and helpers (own .did AST + printer); see gen::prog.
