//! Candid programs as an AST of our own, with our own printer, a generator of programs that are
//! well-formed by construction, their meaning as a model type graph, and single-fault mutants.
//! Only `bridge` (and the self-tests) call candid.
pub mod ast;
pub mod bridge;
pub mod features;
pub mod gen;
pub mod model;
pub mod mutants;
pub mod print;
#[cfg(test)]
mod tests;

pub use ast::*;
pub use gen::{
    doc_as_seen, gen_actor, gen_defs, gen_init_args, gen_prog, with_synthetic_service, DocKind, Gen, Kind, ProgCfg,
};
pub use model::{has_func_method_cycle, init_args_model, to_model, try_to_model, well_formed, ProgModel};
pub use mutants::{colliding_pairs, gen_lookalike, gen_mutant, FaultKind, LookKind, Mutant};
pub use print::{plain, plain_ty, print_init_args, print_prog, print_ty, PrintCfg};
pub use bridge::{actor_parts, diff_model, parse_check, stable_location, CheckErr};
pub use features::{features, recursion, shape_hash};
