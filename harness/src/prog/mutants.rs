//! Single-fault mutants of well-formed programs with a KNOWN verdict ("must be rejected"), and
//! well-formed look-alikes of the same shapes ("must be accepted"). Every mutant is re-judged by
//! the independent `model::well_formed` before it is handed out, so the verdict does not depend
//! on the planting code being right.
use super::ast::*;
use super::gen::{Gen, Kind, ProgCfg};
use super::model::{field_ids, well_formed};
use crate::model::misc::label_hash;
use crate::rng::Rng;
use std::collections::HashMap;
use std::sync::OnceLock;

#[derive(Clone, Debug, PartialEq, Eq)]
pub enum FaultKind {
    UndefinedName,
    DuplicateDef,
    /// vacuous cycle through names only, of the given length
    AliasCycle(usize),
    DupFieldSameName,
    DupFieldSameNumber,
    DupFieldNameAndItsHash,
    DupFieldCollidingNames,
    /// an unlabeled (tuple shorthand) field whose positional id equals an explicit one
    DupFieldTuplePosition,
    DupMethod,
    /// what the method's type is: prim-direct, record-direct, alias-prim, alias-record, alias-service, alias-opt-func, +chain length
    MethodNotFunc(String),
    OnewayWithResult,
    TwoAnnotations(String),
    DupArgName,
    /// duplicate argument name that reads as a number ("1"): candid drops such names before checking
    DupArgNameNumeric,
    /// what the actor refers to: prim / func / record / undefined-prim-name, +chain length, class or not
    ActorNotService(String),
}

impl FaultKind {
    pub fn class(&self) -> String {
        match self {
            FaultKind::AliasCycle(n) => format!("AliasCycle{n}"),
            FaultKind::MethodNotFunc(h) => format!("MethodNotFunc:{h}"),
            FaultKind::TwoAnnotations(h) => format!("TwoAnnotations:{h}"),
            FaultKind::ActorNotService(h) => format!("ActorNotService:{h}"),
            k => format!("{k:?}"),
        }
    }
}

#[derive(Clone, Debug, PartialEq, Eq)]
pub enum LookKind {
    AliasChainToType(usize),
    ProductiveCycle,
    NamesWithDifferentHashes,
    NumericIdOfAbsentName,
    CollidingNamesInDifferentRecords,
    CollidingMethodNames,
    TupleAfterLabel,
    MethodViaAliasChain(usize),
    OnewayWithoutResult,
    OneAnnotation,
    SameArgNameInTwoFuncs,
    ActorViaAliasChain(usize),
    PrimLikeDefName,
    SameFieldNameNested,
}

#[derive(Clone, Debug)]
pub struct Mutant {
    pub prog: Prog,
    pub kind: FaultKind,
    /// where the fault sits: `def|actor|init` / context / depth bucket (for explanations)
    pub position: String,
    /// coarse position class for signatures: `def|actor|init`, `+svc` when inside a nested service type
    pub root_class: String,
    /// the rule `model::well_formed` reports as violated
    pub reason: String,
}

// ------------------------------------------------------------------------------------------
// colliding names (birthday search over short strings, cached)

static COLLISIONS: OnceLock<Vec<(String, String)>> = OnceLock::new();

/// Pairs of different short names with the same spec hash, found by a birthday search over
/// pseudo-random identifiers of 5..=7 characters (shorter ASCII strings cannot collide: the hash is
/// their value in base 223, which stays below 2^32 up to four bytes).
pub fn colliding_pairs() -> &'static [(String, String)] {
    COLLISIONS.get_or_init(|| {
        let mut seen: HashMap<u32, String> = HashMap::with_capacity(1 << 20);
        let mut out = Vec::new();
        let alphabet: Vec<char> = "abcdefghijklmnopqrstuvwxyz_ABCDEFGHIJKLMNOPQRSTUVWXYZ0123456789".chars().collect();
        let mut rng = Rng::new(0xC0111DE);
        let mut count = 0u64;
        while out.len() < 24 && count < 3_000_000 {
            count += 1;
            let len = 5 + rng.usize(3);
            let mut s = String::with_capacity(len);
            for i in 0..len {
                // first character: a letter or `_`, so that the names are identifiers
                let c = if i == 0 { alphabet[rng.usize(53)] } else { *rng.pick(&alphabet) };
                s.push(c);
            }
            let h = label_hash(&s);
            match seen.get(&h) {
                Some(t) if *t != s => out.push((t.clone(), s.clone())),
                Some(_) => {}
                None => {
                    seen.insert(h, s);
                }
            }
        }
        out
    })
}

// ------------------------------------------------------------------------------------------
// positions

#[derive(Clone, Debug)]
pub struct Pos {
    /// "def", "actor" (the actor's service body) or "init" (constructor arguments)
    pub root: &'static str,
    /// constructors from the root down to the node
    pub path: Vec<&'static str>,
}

impl Pos {
    fn push(&self, s: &'static str) -> Pos {
        let mut p = self.clone();
        p.path.push(s);
        p
    }
    pub fn root_class(&self) -> String {
        format!("{}{}", self.root, if self.path.contains(&"service") { "+svc" } else { "" })
    }
    pub fn class(&self) -> String {
        let ctx = self.path.last().copied().unwrap_or("top");
        let in_service = self.path.contains(&"service");
        let in_func = self.path.contains(&"func");
        let depth = match self.path.len() {
            0 => "d0",
            1 | 2 => "d1-2",
            _ => "d3+",
        };
        format!(
            "{}/{}{}{}/{}",
            self.root,
            ctx,
            if in_service { "+svc" } else { "" },
            if in_func { "+func" } else { "" },
            depth
        )
    }
}

pub enum Node<'a> {
    Ty(&'a mut Ty),
    Func(&'a mut Func),
    Methods(&'a mut Vec<Method>),
    InitArgs(&'a mut Vec<ArgTy>),
}

type Visit<'v> = dyn FnMut(Node, &Pos) + 'v;

fn walk_func(f: &mut Func, pos: &Pos, v: &mut Visit) {
    v(Node::Func(f), pos);
    for a in f.args.iter_mut() {
        walk_ty(&mut a.ty, &pos.push("func-arg"), v);
    }
    for a in f.rets.iter_mut() {
        walk_ty(&mut a.ty, &pos.push("func-ret"), v);
    }
}

fn walk_methods(ms: &mut Vec<Method>, pos: &Pos, v: &mut Visit) {
    v(Node::Methods(ms), pos);
    for m in ms.iter_mut() {
        match &mut m.ty {
            MethTy::Func(f) => walk_func(f, &pos.push("method"), v),
            MethTy::Var(_) => {}
            MethTy::Raw(t) => walk_ty(t, &pos.push("method"), v),
        }
    }
}

fn walk_ty(t: &mut Ty, pos: &Pos, v: &mut Visit) {
    v(Node::Ty(t), pos);
    match t {
        Ty::Opt(x) => walk_ty(x, &pos.push("opt"), v),
        Ty::Vec(x) => walk_ty(x, &pos.push("vec"), v),
        Ty::Record(fs) => {
            for f in fs.iter_mut() {
                walk_ty(&mut f.ty, &pos.push("record"), v)
            }
        }
        Ty::Variant(fs) => {
            for f in fs.iter_mut() {
                walk_ty(&mut f.ty, &pos.push("variant"), v)
            }
        }
        Ty::Func(f) => walk_func(f, &pos.push("func"), v),
        Ty::Service(ms) => walk_methods(ms, &pos.push("service"), v),
        _ => {}
    }
}

/// Pre-order walk over every type expression, function type and method list of the program.
pub fn walk(p: &mut Prog, v: &mut Visit) {
    for d in p.defs.iter_mut() {
        walk_ty(
            &mut d.ty,
            &Pos {
                root: "def",
                path: vec![],
            },
            v,
        );
    }
    if let Some(a) = &mut p.actor {
        if let Some(init) = &mut a.init {
            let pos = Pos {
                root: "init",
                path: vec![],
            };
            v(Node::InitArgs(init), &pos);
            for x in init.iter_mut() {
                walk_ty(&mut x.ty, &pos.push("init-arg"), v);
            }
        }
        if let ActorBody::Service(ms) = &mut a.body {
            walk_methods(
                ms,
                &Pos {
                    root: "actor",
                    path: vec![],
                },
                v,
            );
        }
    }
}

/// Apply `edit` to the k-th node (uniformly chosen) for which `pred` holds. Returns the position.
fn edit_random(
    p: &mut Prog,
    rng: &mut Rng,
    pred: &dyn Fn(&Node, &Pos) -> bool,
    edit: &mut dyn FnMut(Node, &Pos, &mut Rng),
) -> Option<Pos> {
    let mut n = 0usize;
    walk(p, &mut |node, pos| {
        if pred(&node, pos) {
            n += 1;
        }
    });
    if n == 0 {
        return None;
    }
    let k = rng.usize(n);
    let mut i = 0usize;
    let mut done: Option<Pos> = None;
    walk(p, &mut |node, pos| {
        if done.is_none() && pred(&node, pos) {
            if i == k {
                edit(node, pos, rng);
                done = Some(pos.clone());
            }
            i += 1;
        }
    });
    done
}

fn fresh_def_name(p: &Prog, rng: &mut Rng, stem: &str) -> String {
    let stems = [stem, "Zz", "Q", "nat9", "Nat", "text_", "Blob", "float", "Int", "func_", "Service"];
    for _ in 0..30 {
        let s = if rng.chance(1, 2) {
            format!("{}{}", stem, rng.below(1000))
        } else {
            rng.pick(&stems).to_string()
        };
        if def_name_ok(&s) && p.def(&s).is_none() {
            return s;
        }
    }
    let mut k = 0;
    loop {
        let s = format!("{stem}_{k}");
        if p.def(&s).is_none() {
            return s;
        }
        k += 1;
    }
}

fn insert_def(p: &mut Prog, rng: &mut Rng, d: Def) {
    let at = rng.usize(p.defs.len() + 1);
    p.defs.insert(at, d);
}

fn simple_def(name: &str, ty: Ty) -> Def {
    Def {
        name: name.to_string(),
        ty,
        docs: vec![],
    }
}

/// Adds `type C1 = C2; …; type Ck = <end>` and returns C1.
fn add_chain(p: &mut Prog, rng: &mut Rng, len: usize, end: Ty, stem: &str) -> String {
    let mut names = Vec::new();
    for _ in 0..len.max(1) {
        let n = fresh_def_name(p, rng, stem);
        // reserve the name
        p.defs.push(simple_def(&n, Ty::Prim(Prim::Null)));
        names.push(n);
    }
    for (i, n) in names.iter().enumerate() {
        let body = if i + 1 < names.len() {
            Ty::Var(names[i + 1].clone())
        } else {
            end.clone()
        };
        let at = p.defs.iter().position(|d| d.name == *n).unwrap();
        p.defs[at].ty = body;
    }
    // move the new definitions to random places
    for n in &names {
        let at = p.defs.iter().position(|d| d.name == *n).unwrap();
        let d = p.defs.remove(at);
        insert_def(p, rng, d);
    }
    names[0].clone()
}

fn is_ty(n: &Node, _: &Pos) -> bool {
    matches!(n, Node::Ty(_))
}
fn is_inner_ty(n: &Node, pos: &Pos) -> bool {
    matches!(n, Node::Ty(_)) && !(pos.root == "def" && pos.path.is_empty())
}
fn is_methods(n: &Node, _: &Pos) -> bool {
    matches!(n, Node::Methods(_))
}

/// Make sure the program has an inner type slot (something other than the root of a definition).
fn ensure_slot(p: &mut Prog, rng: &mut Rng) {
    let mut n = 0;
    walk(p, &mut |node, pos| {
        if is_inner_ty(&node, pos) {
            n += 1
        }
    });
    if n == 0 {
        let name = fresh_def_name(p, rng, "Slot");
        let ty = match rng.below(4) {
            0 => Ty::opt(Ty::Prim(Prim::Nat)),
            1 => Ty::Record(vec![Field::new(Label::Named("a".into()), Ty::vec(Ty::Prim(Prim::Text)))]),
            2 => Ty::Func(Func {
                args: vec![ArgTy::plain(Ty::Prim(Prim::Int))],
                rets: vec![ArgTy::plain(Ty::opt(Ty::Prim(Prim::Bool)))],
                modes: vec![],
            }),
            _ => Ty::Variant(vec![Field::new(Label::Named("x".into()), Ty::Prim(Prim::Nat8))]),
        };
        insert_def(p, rng, simple_def(&name, ty));
    }
}

/// Replace a random inner type slot by `t`.
fn plant_ty(p: &mut Prog, rng: &mut Rng, t: Ty) -> Pos {
    ensure_slot(p, rng);
    edit_random(p, rng, &is_inner_ty, &mut |node, _, _| {
        if let Node::Ty(slot) = node {
            *slot = t.clone();
        }
    })
    .expect("slot exists")
}

fn small_data(rng: &mut Rng) -> Ty {
    match rng.below(5) {
        0 => Ty::Prim(Prim::Nat),
        1 => Ty::Prim(Prim::Text),
        2 => Ty::opt(Ty::Prim(Prim::Bool)),
        3 => Ty::Blob,
        _ => Ty::Record(vec![]),
    }
}

fn small_func(rng: &mut Rng) -> Func {
    Func {
        args: if rng.bool() {
            vec![ArgTy::plain(small_data(rng))]
        } else {
            vec![]
        },
        rets: if rng.bool() {
            vec![ArgTy::plain(small_data(rng))]
        } else {
            vec![]
        },
        modes: vec![],
    }
}

fn fresh_method_name(ms: &[Method], rng: &mut Rng) -> String {
    let pool = ["bad", "m", "get", "query", "f", "method name", "oneway"];
    for _ in 0..20 {
        let s = rng.pick(&pool).to_string();
        if !ms.iter().any(|m| m.name == s) {
            return s;
        }
    }
    format!("m{}", ms.len())
}

/// A methods list to plant a method in: an existing one, or a new `service {…}` type at a random slot,
/// or (when the program has none) the main actor.
fn with_methods(p: &mut Prog, rng: &mut Rng, edit: &mut dyn FnMut(&mut Vec<Method>, &mut Rng)) -> Pos {
    let mut existing = 0;
    walk(p, &mut |node, pos| {
        if is_methods(&node, pos) {
            existing += 1
        }
    });
    match rng.below(4) {
        0 | 1 if existing > 0 => {}
        2 => {
            plant_ty(p, rng, Ty::Service(vec![]));
        }
        _ if existing > 0 => {}
        _ => {
            if p.actor.is_none() {
                p.actor = Some(Actor {
                    name: None,
                    init: None,
                    body: ActorBody::Service(vec![]),
                    docs: vec![],
                });
            } else {
                plant_ty(p, rng, Ty::Service(vec![]));
            }
        }
    }
    edit_random(p, rng, &is_methods, &mut |node, _, rng| {
        if let Node::Methods(ms) = node {
            edit(ms, rng)
        }
    })
    .expect("a methods list exists")
}

/// A function type to edit: an existing one or a new `func` at a random slot.
fn with_func(p: &mut Prog, rng: &mut Rng, edit: &mut dyn FnMut(&mut Func, &mut Rng)) -> Pos {
    let is_func = |n: &Node, _: &Pos| matches!(n, Node::Func(_));
    let mut existing = 0;
    walk(p, &mut |node, pos| {
        if is_func(&node, pos) {
            existing += 1
        }
    });
    if existing == 0 || rng.chance(1, 4) {
        let f = small_func(rng);
        plant_ty(p, rng, Ty::Func(f));
    }
    edit_random(p, rng, &is_func, &mut |node, _, rng| {
        if let Node::Func(f) = node {
            edit(f, rng)
        }
    })
    .expect("a function type exists")
}

/// A record or variant to edit: an existing one or a new one at a random slot.
fn with_fields(p: &mut Prog, rng: &mut Rng, want_record: Option<bool>, edit: &mut dyn FnMut(&mut Vec<Field>, bool, &mut Rng)) -> Pos {
    let ok = move |n: &Node, _: &Pos| match n {
        Node::Ty(t) => match &**t {
            Ty::Record(_) => want_record != Some(false),
            Ty::Variant(_) => want_record != Some(true),
            _ => false,
        },
        _ => false,
    };
    let mut existing = 0;
    walk(p, &mut |node, pos| {
        if ok(&node, pos) {
            existing += 1
        }
    });
    if existing == 0 || rng.chance(1, 4) {
        let record = want_record.unwrap_or_else(|| rng.bool());
        let fs = vec![Field::new(Label::Named("keep".into()), Ty::Prim(Prim::Nat))];
        plant_ty(p, rng, if record { Ty::Record(fs) } else { Ty::Variant(fs) });
    }
    edit_random(p, rng, &ok, &mut |node, _, rng| {
        if let Node::Ty(t) = node {
            match t {
                Ty::Record(fs) => edit(fs, true, rng),
                Ty::Variant(fs) => edit(fs, false, rng),
                _ => {}
            }
        }
    })
    .expect("a record/variant exists")
}

fn unused_label_name(fs: &[Field], rng: &mut Rng) -> String {
    let ids = field_ids(fs).unwrap_or_default();
    let pool = ["dup", "a", "x", "name", "record", "with space", "quo\"te", "é", "Ok"];
    for _ in 0..30 {
        let s = rng.pick(&pool).to_string();
        if !ids.contains(&label_hash(&s)) {
            return s;
        }
    }
    loop {
        let s = format!("n{}", rng.below(1_000_000));
        if !ids.contains(&label_hash(&s)) {
            return s;
        }
    }
}

const NOT_FUNC_ENDS: &[&str] = &["prim", "record", "service", "opt-func", "principal", "vec-func"];

fn not_func_end(rng: &mut Rng, which: &str) -> Ty {
    match which {
        "prim" => Ty::Prim(*rng.pick(&[Prim::Nat, Prim::Text, Prim::Null, Prim::Reserved, Prim::Empty])),
        "record" => Ty::Record(vec![]),
        "service" => Ty::Service(vec![]),
        "opt-func" => Ty::opt(Ty::Func(small_func(rng))),
        "vec-func" => Ty::vec(Ty::Func(small_func(rng))),
        _ => Ty::Principal,
    }
}

const NOT_SERVICE_ENDS: &[&str] = &["prim", "record", "func", "opt-service", "principal"];

fn not_service_end(rng: &mut Rng, which: &str) -> Ty {
    match which {
        "prim" => Ty::Prim(*rng.pick(&[Prim::Nat, Prim::Text, Prim::Null, Prim::Reserved, Prim::Empty])),
        "record" => Ty::Record(vec![]),
        "func" => Ty::Func(small_func(rng)),
        "opt-service" => Ty::opt(Ty::Service(vec![])),
        _ => Ty::Principal,
    }
}

const KINDS: usize = 15;

/// One single-fault mutant of `orig` (which must be well-formed). `None` when the chosen fault
/// could not be planted (rare); the caller just draws again.
pub fn gen_mutant(rng: &mut Rng, orig: &Prog) -> Option<Mutant> {
    let which = rng.usize(KINDS);
    gen_mutant_of(rng, orig, which)
}

pub fn gen_mutant_of(rng: &mut Rng, orig: &Prog, which: usize) -> Option<Mutant> {
    let mut p = orig.clone();
    let (kind, pos): (FaultKind, Pos) = match which {
        0 => {
            // undefined name
            let undefined = fresh_def_name(&p, rng, "Undefined");
            let pos = match rng.below(6) {
                0 if p.actor.is_some() => {
                    p.actor.as_mut().unwrap().body = ActorBody::Var(undefined.clone());
                    Pos {
                        root: "actor",
                        path: vec!["actor-name"],
                    }
                }
                1 => with_methods(&mut p, rng, &mut |ms, rng| {
                    let name = fresh_method_name(ms, rng);
                    ms.push(Method {
                        name,
                        ty: MethTy::Var(undefined.clone()),
                        docs: vec![],
                    })
                })
                .push("method-name"),
                2 if !p.defs.is_empty() => {
                    // whole body of a definition
                    let i = rng.usize(p.defs.len());
                    p.defs[i].ty = Ty::Var(undefined.clone());
                    Pos {
                        root: "def",
                        path: vec![],
                    }
                }
                _ => {
                    ensure_slot(&mut p, rng);
                    edit_random(&mut p, rng, &is_ty, &mut |node, _, _| {
                        if let Node::Ty(t) = node {
                            *t = Ty::Var(undefined.clone())
                        }
                    })?
                }
            };
            (FaultKind::UndefinedName, pos)
        }
        1 => {
            // duplicate definition
            if p.defs.is_empty() {
                let n = fresh_def_name(&p, rng, "Dup");
                p.defs.push(simple_def(&n, small_data(rng)));
            }
            let i = rng.usize(p.defs.len());
            let mut d = p.defs[i].clone();
            let same = rng.bool();
            if !same {
                d.ty = small_data(rng);
            }
            insert_def(&mut p, rng, d);
            (
                FaultKind::DuplicateDef,
                Pos {
                    root: "def",
                    path: vec![if same { "same-body" } else { "other-body" }],
                },
            )
        }
        2 => {
            // vacuous alias cycle
            let len = 1 + rng.usize(5);
            let mut names = Vec::new();
            let existing = !p.defs.is_empty() && rng.chance(1, 3);
            if existing {
                // an existing definition becomes part of the cycle
                names.push(p.defs[rng.usize(p.defs.len())].name.clone());
            }
            while names.len() < len {
                let n = fresh_def_name(&p, rng, "Cyc");
                p.defs.push(simple_def(&n, Ty::Prim(Prim::Null)));
                names.push(n);
            }
            for (i, n) in names.iter().enumerate() {
                let next = names[(i + 1) % names.len()].clone();
                let at = p.defs.iter().position(|d| d.name == *n).unwrap();
                p.defs[at].ty = Ty::Var(next);
            }
            let referenced = !existing && rng.bool();
            if referenced {
                plant_ty(&mut p, rng, Ty::Var(names[0].clone()));
            }
            let mut rng2 = rng.fork();
            rng2.shuffle(&mut p.defs);
            (
                FaultKind::AliasCycle(len),
                Pos {
                    root: "def",
                    path: vec![if existing {
                        "existing-def"
                    } else if referenced {
                        "referenced"
                    } else {
                        "unreferenced"
                    }],
                },
            )
        }
        3..=7 => {
            let kind = match which {
                3 => FaultKind::DupFieldSameName,
                4 => FaultKind::DupFieldSameNumber,
                5 => FaultKind::DupFieldNameAndItsHash,
                6 => FaultKind::DupFieldCollidingNames,
                _ => FaultKind::DupFieldTuplePosition,
            };
            let k2 = kind.clone();
            let want_record = if which == 7 { Some(true) } else { None };
            let pos = with_fields(&mut p, rng, want_record, &mut |fs, is_record, rng| {
                let t1 = small_data(rng);
                let t2 = if rng.bool() { t1.clone() } else { small_data(rng) };
                let has_unnamed = fs.iter().any(|f| f.label == Label::Unnamed);
                let (l1, l2): (Label, Label) = match k2 {
                    FaultKind::DupFieldSameName => {
                        let n = unused_label_name(fs, rng);
                        (Label::Named(n.clone()), Label::Named(n))
                    }
                    FaultKind::DupFieldSameNumber => {
                        let ids = field_ids(fs).unwrap_or_default();
                        let mut id = rng.next() as u32 >> rng.below(32);
                        while ids.contains(&id) || id >= u32::MAX - 1 {
                            id = rng.next() as u32 >> 1;
                        }
                        (Label::Id(id), Label::Id(id))
                    }
                    FaultKind::DupFieldNameAndItsHash => {
                        let n = unused_label_name(fs, rng);
                        let h = label_hash(&n);
                        if rng.bool() {
                            (Label::Named(n), Label::Id(h))
                        } else {
                            (Label::Id(h), Label::Named(n))
                        }
                    }
                    FaultKind::DupFieldCollidingNames => {
                        let pairs = colliding_pairs();
                        let (a, b) = rng.pick(pairs).clone();
                        (Label::Named(a), Label::Named(b))
                    }
                    _ => {
                        // `N : t1 ; … ; t2` where the unlabeled field lands on an id that is taken
                        (Label::Unnamed, Label::Unnamed)
                    }
                };
                if k2 == FaultKind::DupFieldTuplePosition {
                    debug_assert!(is_record);
                    // append: <id = last+2> then two unlabeled... simplest certain shape:
                    // existing fields, then `K : t1` with K = next + 1, then `K' : t2` with K' = next, then an
                    // unlabeled field: it gets id K' + 1 = K.
                    let ids = field_ids(fs).unwrap_or_default();
                    let mut base = rng.below(1000) as u32 + 2;
                    while ids.contains(&base) || ids.contains(&(base + 1)) {
                        base += 7;
                    }
                    fs.push(Field::new(Label::Id(base + 1), t1));
                    fs.push(Field::new(Label::Id(base), t2.clone()));
                    fs.push(Field::new(Label::Unnamed, t2));
                    return;
                }
                // existing unlabeled fields keep their ids when the new fields come last; an explicit
                // label resets the running position, so order among the two new ones is free
                let _ = has_unnamed;
                // make sure the first new label does not collide with an existing field (single fault)
                fs.push(Field::new(l1, t1));
                if !is_record || !has_unnamed {
                    // the second copy may go anywhere
                    let at = rng.usize(fs.len() + 1);
                    fs.insert(at, Field::new(l2, t2));
                } else {
                    fs.push(Field::new(l2, t2));
                }
            });
            (kind, pos)
        }
        8 => {
            let pos = with_methods(&mut p, rng, &mut |ms, rng| {
                if ms.is_empty() {
                    let name = fresh_method_name(ms, rng);
                    ms.push(Method {
                        name,
                        ty: MethTy::Func(small_func(rng)),
                        docs: vec![],
                    });
                }
                let mut m = ms[rng.usize(ms.len())].clone();
                if rng.bool() {
                    m.ty = MethTy::Func(small_func(rng));
                }
                let at = rng.usize(ms.len() + 1);
                ms.insert(at, m);
            });
            (FaultKind::DupMethod, pos)
        }
        9 => {
            // a method that is not a function
            let end = *rng.pick(NOT_FUNC_ENDS);
            let chain = rng.usize(4); // 0 = written directly
            let mut mention_in_method = false;
            let mut mention_head = String::new();
            let (mty, how) = if chain == 0 {
                match end {
                    // `m : nat` — reads as a name that is not defined; `m : record {}` is no <methtype> at all
                    "prim" | "principal" | "record" | "service" | "opt-func" | "vec-func" => {
                        (MethTy::Raw(not_func_end(rng, end)), format!("{end}-direct"))
                    }
                    _ => unreachable!(),
                }
            } else {
                let ty = not_func_end(rng, end);
                let head = add_chain(&mut p, rng, chain, ty, "NotFunc");
                // the alias may also be used (legally, as a data type) elsewhere: by another definition, whose name
                // sorts before or after everything else, or by an earlier method of the same service
                let mention = rng.below(5);
                let mut how = format!("alias-{end}-chain{chain}");
                match mention {
                    0 | 1 => {
                        let stem = if mention == 0 { "AaUse" } else { "zzUse" };
                        let n = fresh_def_name(&p, rng, stem);
                        let body = match rng.below(3) {
                            0 => Ty::opt(Ty::Var(head.clone())),
                            1 => Ty::vec(Ty::Var(head.clone())),
                            _ => Ty::Record(vec![Field::new(Label::Named("x".into()), Ty::Var(head.clone()))]),
                        };
                        let d = simple_def(&n, body);
                        insert_def(&mut p, rng, d);
                        how.push_str("+mentioned-by-definition");
                    }
                    2 => how.push_str("+mentioned-by-method"),
                    _ => {}
                }
                mention_in_method = mention == 2;
                mention_head = head.clone();
                (MethTy::Var(head), how)
            };
            let pos = with_methods(&mut p, rng, &mut |ms, rng| {
                let name = fresh_method_name(ms, rng);
                let at = rng.usize(ms.len() + 1);
                ms.insert(
                    at,
                    Method {
                        name,
                        ty: mty.clone(),
                        docs: vec![],
                    },
                );
                if mention_in_method {
                    let name = fresh_method_name(ms, rng);
                    ms.insert(
                        0,
                        Method {
                            name,
                            ty: MethTy::Func(Func { args: vec![ArgTy::plain(Ty::Var(mention_head.clone()))], rets: vec![], modes: vec![] }),
                            docs: vec![],
                        },
                    );
                }
            });
            (FaultKind::MethodNotFunc(how), pos)
        }
        10 => {
            let pos = with_func(&mut p, rng, &mut |f, rng| {
                f.modes = vec![FMode::Oneway];
                if f.rets.is_empty() {
                    f.rets.push(ArgTy::plain(small_data(rng)));
                }
            });
            (FaultKind::OnewayWithResult, pos)
        }
        11 => {
            let combos: [(&str, [FMode; 2]); 6] = [
                ("query-oneway", [FMode::Query, FMode::Oneway]),
                ("oneway-query", [FMode::Oneway, FMode::Query]),
                ("query-composite", [FMode::Query, FMode::CompositeQuery]),
                ("composite-oneway", [FMode::CompositeQuery, FMode::Oneway]),
                ("query-query", [FMode::Query, FMode::Query]),
                ("oneway-oneway", [FMode::Oneway, FMode::Oneway]),
            ];
            let (name, modes) = rng.pick(&combos).clone();
            let pos = with_func(&mut p, rng, &mut |f, _| {
                f.modes = modes.to_vec();
                if modes.contains(&FMode::Oneway) {
                    // keep it a single fault
                    f.rets.clear();
                }
            });
            (FaultKind::TwoAnnotations(name.to_string()), pos)
        }
        12 | 13 => {
            let numeric = which == 13;
            let in_init = p.actor.as_ref().map(|a| a.init.is_some()).unwrap_or(false) && rng.chance(1, 4);
            let plant = |list: &mut Vec<ArgTy>, rng: &mut Rng| {
                let taken: Vec<String> = list.iter().filter_map(|a| a.name.clone()).collect();
                let name = if numeric {
                    rng.pick(&["1", "0", "42", "4294967295"]).to_string()
                } else {
                    let pool = ["dup", "x", "arg", "query", "with space", "é", "a\"b", "1x", "-1", "4294967296", "0x1"];
                    let mut s = rng.pick(&pool).to_string();
                    while taken.contains(&s) {
                        s.push('_');
                    }
                    s
                };
                for _ in 0..2 {
                    let at = rng.usize(list.len() + 1);
                    list.insert(
                        at,
                        ArgTy {
                            name: Some(name.clone()),
                            ty: small_data(rng),
                        },
                    );
                }
            };
            let pos = if in_init {
                let init = p.actor.as_mut().unwrap().init.as_mut().unwrap();
                plant(init, rng);
                Pos {
                    root: "init",
                    path: vec!["init-args"],
                }
            } else {
                with_func(&mut p, rng, &mut |f, rng| {
                    let oneway = f.modes == vec![FMode::Oneway];
                    if rng.bool() || oneway {
                        plant(&mut f.args, rng)
                    } else {
                        plant(&mut f.rets, rng)
                    }
                })
                .push("arg-list")
            };
            (
                if numeric {
                    FaultKind::DupArgNameNumeric
                } else {
                    FaultKind::DupArgName
                },
                pos,
            )
        }
        _ => {
            // main actor that is not a service
            let end = *rng.pick(NOT_SERVICE_ENDS);
            let chain = rng.usize(4);
            let class = rng.bool();
            let target = if chain == 0 {
                if end == "prim" {
                    // `service : nat` reads as an undefined name
                    rng.pick(&["nat", "text", "reserved", "empty", "bool"]).to_string()
                } else {
                    let ty = not_service_end(rng, end);
                    add_chain(&mut p, rng, 1, ty, "NotService")
                }
            } else {
                let ty = not_service_end(rng, end);
                add_chain(&mut p, rng, chain, ty, "NotService")
            };
            let init = match p.actor.as_ref().and_then(|a| a.init.clone()) {
                Some(i) if class => Some(i),
                _ if class => Some(vec![ArgTy::plain(small_data(rng))]),
                _ => None,
            };
            let old = p.actor.take();
            p.actor = Some(Actor {
                name: old.as_ref().and_then(|a| a.name.clone()),
                init,
                body: ActorBody::Var(target),
                docs: old.map(|a| a.docs).unwrap_or_default(),
            });
            (
                FaultKind::ActorNotService(format!(
                    "{}{}-chain{}",
                    if class { "class-" } else { "" },
                    end,
                    chain
                )),
                Pos {
                    root: "actor",
                    path: vec!["actor-name"],
                },
            )
        }
    };
    // the independent judge must agree that the program is now ill-formed
    match well_formed(&p) {
        Ok(()) => None,
        Err(reason) => Some(Mutant {
            prog: p,
            kind,
            position: pos.class(),
            root_class: pos.root_class(),
            reason,
        }),
    }
}

const LOOKS: usize = 14;

/// A well-formed program with the *shape* of a fault but without the fault. Must be accepted.
pub fn gen_lookalike(rng: &mut Rng, orig: &Prog) -> Option<(Prog, LookKind)> {
    let which = rng.usize(LOOKS);
    gen_lookalike_of(rng, orig, which)
}

pub fn gen_lookalike_of(rng: &mut Rng, orig: &Prog, which: usize) -> Option<(Prog, LookKind)> {
    let mut p = orig.clone();
    let kind = match which {
        0 => {
            let len = 1 + rng.usize(5);
            let end = if rng.bool() {
                small_data(rng)
            } else {
                Ty::Func(small_func(rng))
            };
            let head = add_chain(&mut p, rng, len, end, "Chain");
            if rng.bool() {
                plant_ty(&mut p, rng, Ty::Var(head));
            }
            LookKind::AliasChainToType(len)
        }
        1 => {
            // a cycle through names that is productive: A = B; B = opt A  /  vec / record / variant / func
            let a = fresh_def_name(&p, rng, "Loop");
            p.defs.push(simple_def(&a, Ty::Prim(Prim::Null)));
            let b = fresh_def_name(&p, rng, "Loop");
            let va = Ty::Var(a.clone());
            let body = match rng.below(6) {
                0 => Ty::opt(va),
                1 => Ty::vec(va),
                2 => Ty::Record(vec![Field::new(Label::Unnamed, va)]),
                3 => Ty::Variant(vec![Field::new(Label::Named("again".into()), va)]),
                4 => Ty::Func(Func {
                    args: vec![ArgTy::plain(va)],
                    rets: vec![],
                    modes: vec![],
                }),
                _ => Ty::Service(vec![Method {
                    name: "next".into(),
                    ty: MethTy::Func(Func {
                        args: vec![],
                        rets: vec![ArgTy::plain(va)],
                        modes: vec![FMode::Query],
                    }),
                    docs: vec![],
                }]),
            };
            p.defs.push(simple_def(&b, body));
            let at = p.defs.iter().position(|d| d.name == a).unwrap();
            p.defs[at].ty = Ty::Var(b);
            let mut r2 = rng.fork();
            r2.shuffle(&mut p.defs);
            LookKind::ProductiveCycle
        }
        2..=4 | 6 | 13 => {
            let k = match which {
                2 => LookKind::NamesWithDifferentHashes,
                3 => LookKind::NumericIdOfAbsentName,
                4 => LookKind::CollidingNamesInDifferentRecords,
                6 => LookKind::TupleAfterLabel,
                _ => LookKind::SameFieldNameNested,
            };
            let k2 = k.clone();
            with_fields(
                &mut p,
                rng,
                if which == 6 { Some(true) } else { None },
                &mut |fs, is_record, rng| {
                    let ids = field_ids(fs).unwrap_or_default();
                    let has_unnamed = fs.iter().any(|f| f.label == Label::Unnamed);
                    let free = |l: &Label, ids: &[u32]| match l {
                        Label::Named(n) => !ids.contains(&label_hash(n)),
                        Label::Id(i) => !ids.contains(i),
                        Label::Unnamed => false,
                    };
                    let mut add: Vec<Field> = Vec::new();
                    match k2 {
                        LookKind::NamesWithDifferentHashes => {
                            let pairs = [("a", "A"), ("ab", "ba"), ("a_b", "aB"), ("x", "x_"), ("name", "name "), ("é", "e")];
                            let (a, b) = rng.pick(&pairs);
                            add.push(Field::new(Label::Named(a.to_string()), small_data(rng)));
                            add.push(Field::new(Label::Named(b.to_string()), small_data(rng)));
                        }
                        LookKind::NumericIdOfAbsentName => {
                            let n = unused_label_name(fs, rng);
                            add.push(Field::new(Label::Id(label_hash(&n)), small_data(rng)));
                        }
                        LookKind::CollidingNamesInDifferentRecords => {
                            let (a, b) = rng.pick(colliding_pairs()).clone();
                            // the second name lives in a nested record/variant of its own
                            let inner = vec![Field::new(Label::Named(b), small_data(rng))];
                            let inner = if rng.bool() { Ty::Record(inner) } else { Ty::Variant(inner) };
                            add.push(Field::new(Label::Named(a), inner));
                        }
                        LookKind::TupleAfterLabel => {
                            debug_assert!(is_record);
                            let mut base = rng.below(100_000) as u32 + 10;
                            while ids.contains(&base) || ids.contains(&(base + 1)) || ids.contains(&(base + 2)) {
                                base += 13;
                            }
                            // `base : t; t; t` -> ids base, base+1, base+2
                            fs.push(Field::new(Label::Id(base), small_data(rng)));
                            fs.push(Field::new(Label::Unnamed, small_data(rng)));
                            fs.push(Field::new(Label::Unnamed, small_data(rng)));
                            return;
                        }
                        _ => {
                            let n = unused_label_name(fs, rng);
                            let inner = vec![Field::new(Label::Named(n.clone()), small_data(rng))];
                            add.push(Field::new(Label::Named(n), Ty::Record(inner)));
                        }
                    }
                    let mut ids = ids;
                    for f in add {
                        if free(&f.label, &ids) {
                            ids.push(match &f.label {
                                Label::Named(n) => label_hash(n),
                                Label::Id(i) => *i,
                                Label::Unnamed => 0,
                            });
                            if has_unnamed {
                                fs.push(f);
                            } else {
                                let at = rng.usize(fs.len() + 1);
                                fs.insert(at, f);
                            }
                        }
                    }
                },
            );
            k
        }
        5 => {
            let (a, b) = rng.pick(colliding_pairs()).clone();
            with_methods(&mut p, rng, &mut |ms, rng| {
                for n in [&a, &b] {
                    if !ms.iter().any(|m| m.name == **n) {
                        ms.push(Method {
                            name: n.to_string(),
                            ty: MethTy::Func(small_func(rng)),
                            docs: vec![],
                        });
                    }
                }
            });
            LookKind::CollidingMethodNames
        }
        7 => {
            let len = 1 + rng.usize(4);
            let f = small_func(rng);
            let head = add_chain(&mut p, rng, len, Ty::Func(f), "FuncAlias");
            with_methods(&mut p, rng, &mut |ms, rng| {
                let name = fresh_method_name(ms, rng);
                ms.push(Method {
                    name,
                    ty: MethTy::Var(head.clone()),
                    docs: vec![],
                });
            });
            LookKind::MethodViaAliasChain(len)
        }
        8 => {
            with_func(&mut p, rng, &mut |f, _| {
                f.modes = vec![FMode::Oneway];
                f.rets.clear();
            });
            LookKind::OnewayWithoutResult
        }
        9 => {
            with_func(&mut p, rng, &mut |f, rng| {
                let m = *rng.pick(&[FMode::Query, FMode::CompositeQuery]);
                f.modes = vec![m];
            });
            LookKind::OneAnnotation
        }
        10 => {
            for _ in 0..2 {
                let f = Func {
                    args: vec![ArgTy {
                        name: Some("same".into()),
                        ty: small_data(rng),
                    }],
                    rets: vec![],
                    modes: vec![],
                };
                plant_ty(&mut p, rng, Ty::Func(f));
            }
            LookKind::SameArgNameInTwoFuncs
        }
        11 => {
            let len = 1 + rng.usize(4);
            let head = add_chain(&mut p, rng, len, Ty::Service(vec![]), "SvcAlias");
            let init = if rng.bool() {
                Some(vec![ArgTy::plain(small_data(rng))])
            } else {
                None
            };
            p.actor = Some(Actor {
                name: None,
                init,
                body: ActorBody::Var(head),
                docs: vec![],
            });
            LookKind::ActorViaAliasChain(len)
        }
        _ => {
            let cands = ["nat_", "Nat", "Text", "blob_", "Blob", "float", "int128", "nat0", "null_", "Opt", "record_", "service_", "principal_", "Principal"];
            let n = rng.pick(&cands).to_string();
            if p.def(&n).is_some() || !def_name_ok(&n) {
                return None;
            }
            let t = small_data(rng);
            insert_def(&mut p, rng, simple_def(&n, t));
            if rng.bool() {
                plant_ty(&mut p, rng, Ty::Var(n));
            }
            LookKind::PrimLikeDefName
        }
    };
    match well_formed(&p) {
        Ok(()) => Some((p, kind)),
        Err(_) => None,
    }
}

/// Convenience for monitors: a fresh well-formed base program plus a mutant of it.
pub fn gen_base_and_mutant(rng: &mut Rng, cfg: &ProgCfg) -> Option<(Prog, Mutant)> {
    let base = super::gen::gen_prog(rng, cfg);
    let m = gen_mutant(rng, &base)?;
    Some((base, m))
}

#[allow(dead_code)]
fn _unused(_: &Gen, _: Kind) {}
