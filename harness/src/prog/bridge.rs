//! The only file of `prog` that touches candid: feed a program text to the real parser and type
//! checker, and compare what comes back with a `ProgModel` (structural equality of type graphs).
use super::model::ProgModel;
use crate::conv::FromCandid;
use crate::ctx::{catch, PanicInfo};
use crate::model::subtype::requal;
use crate::model::{REnv, RType};
use candid::types::{Type, TypeEnv, TypeInner};
use candid_parser::{check_prog, IDLProg};

pub enum CheckErr {
    Parse(String),
    Check(String),
    Panic(PanicInfo),
}

impl CheckErr {
    pub fn stage(&self) -> &'static str {
        match self {
            CheckErr::Parse(_) => "parse",
            CheckErr::Check(_) => "check",
            CheckErr::Panic(_) => "panic",
        }
    }
    pub fn message(&self) -> String {
        match self {
            CheckErr::Parse(m) | CheckErr::Check(m) => m.clone(),
            CheckErr::Panic(p) => format!("panic at {}: {}", p.location, p.message),
        }
    }
    /// coarse, stable class: stage + first words of the message without digits
    pub fn class(&self) -> String {
        match self {
            CheckErr::Panic(p) => format!("panic|{}", stable_location(&p.location)),
            e => format!("{}|{}", e.stage(), crate::mon::common::err_class(&e.message())),
        }
    }
}

/// Panic location without build-specific directories (the lalrpop output lives in a hashed build dir).
pub fn stable_location(loc: &str) -> String {
    if loc.contains("/out/grammar.rs") {
        return "candid_parser/grammar.rs(generated)".into();
    }
    match loc.find("/rust/") {
        Some(i) => loc[i + 6..].to_string(),
        None => loc.to_string(),
    }
}

/// `str::parse::<IDLProg>()` + `check_prog`, panics caught.
pub fn parse_check(text: &str) -> Result<(TypeEnv, Option<Type>, IDLProg), CheckErr> {
    let r = catch(|| {
        let ast = text.parse::<IDLProg>().map_err(|e| CheckErr::Parse(e.to_string()))?;
        let mut env = TypeEnv::new();
        let actor = check_prog(&mut env, &ast).map_err(|e| CheckErr::Check(e.to_string()))?;
        Ok((env, actor, ast))
    });
    match r {
        Ok(x) => x,
        Err(p) => Err(CheckErr::Panic(p)),
    }
}

/// Split a checked actor into (init args if it is a constructor, service type).
pub fn actor_parts(actor: &Type) -> (Option<Vec<Type>>, Type) {
    match actor.as_ref() {
        TypeInner::Class(args, t) => (Some(args.clone()), t.clone()),
        _ => (None, actor.clone()),
    }
}

/// First difference between a checked candid environment/actor and the model of the program it
/// was checked from, as `<what>|<detail>`; `None` when every definition (matched by name) and the
/// actor are structurally equal.
pub fn diff_model(pm: &ProgModel, env: &TypeEnv, actor: &Option<Type>) -> Option<String> {
    for name in pm.def_index.keys() {
        if !env.0.contains_key(name) {
            return Some(format!("def-missing|{name}"));
        }
    }
    for name in env.0.keys() {
        if !pm.def_index.contains_key(name) {
            return Some(format!("def-extra|{name}"));
        }
    }
    let mut c = FromCandid::new(env);
    let mut got: Vec<(String, usize, RType)> = Vec::new();
    for (name, idx) in &pm.def_index {
        let t: Type = TypeInner::Var(name.clone()).into();
        match c.ty(&t) {
            Ok(rt) => got.push((name.clone(), *idx, rt)),
            Err(e) => return Some(format!("def-unconvertible|{name}: {e}")),
        }
    }
    let mut got_actor: Option<(Option<Vec<RType>>, RType)> = None;
    if let Some(a) = actor {
        let (init, serv) = actor_parts(a);
        let init = match init {
            None => None,
            Some(ts) => {
                let mut v = Vec::new();
                for t in &ts {
                    match c.ty(t) {
                        Ok(rt) => v.push(rt),
                        Err(e) => return Some(format!("init-unconvertible|{e}")),
                    }
                }
                Some(v)
            }
        };
        let serv = match c.ty(&serv) {
            Ok(rt) => rt,
            Err(e) => return Some(format!("actor-unconvertible|{e}")),
        };
        got_actor = Some((init, serv));
    }
    let mut all: REnv = pm.env.clone();
    let off = all.append(&c.out);
    for (name, idx, rt) in &got {
        if !requal(&all, &RType::Ref(*idx), &rt.shift_refs(off)) {
            return Some(format!(
                "def-differs|{name}: model {} vs candid {}",
                crate::mon::common::shape(&pm.env, &RType::Ref(*idx), 4),
                crate::mon::common::shape(&c.out, rt, 4)
            ));
        }
    }
    match (&pm.actor, &got_actor) {
        (None, None) => None,
        (Some(_), None) => Some("actor-missing|".into()),
        (None, Some(_)) => Some("actor-extra|".into()),
        (Some((minit, mserv)), Some((cinit, cserv))) => {
            match (pm.is_class, cinit) {
                (false, None) => {}
                (true, Some(ci)) => {
                    if ci.len() != minit.len() {
                        return Some(format!("init-arity|model {} vs candid {}", minit.len(), ci.len()));
                    }
                    for (k, (a, b)) in minit.iter().zip(ci.iter()).enumerate() {
                        if !requal(&all, a, &b.shift_refs(off)) {
                            return Some(format!(
                                "init-arg-differs|#{k}: model {} vs candid {}",
                                crate::mon::common::shape(&pm.env, a, 4),
                                crate::mon::common::shape(&c.out, b, 4)
                            ));
                        }
                    }
                }
                (true, None) => return Some("class-lost|model has init args, candid has a plain service".into()),
                (false, Some(_)) => return Some("class-invented|candid has init args, model has none".into()),
            }
            if !requal(&all, mserv, &cserv.shift_refs(off)) {
                return Some(format!(
                    "service-differs|model {} vs candid {}",
                    crate::mon::common::shape(&pm.env, mserv, 4),
                    crate::mon::common::shape(&c.out, cserv, 4)
                ));
            }
            None
        }
    }
}
