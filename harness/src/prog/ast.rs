//! An abstract syntax of Candid programs written from spec/Candid.md ("Core Grammar" plus the
//! "Syntactic Shorthands"). It shares no code with candid's own syntax tree; the only thing a
//! program of this type ever gives to candid is the text produced by `super::print`.
//!
//! The tree is deliberately a little *wider* than the grammar (a method may carry an arbitrary
//! type, a function any number of annotations, a name may be defined twice...) so that the
//! single-fault mutants of `super::mutants` can be expressed in it.

#[derive(Clone, Copy, Debug, PartialEq, Eq, Hash, PartialOrd, Ord)]
pub enum Prim {
    Null,
    Bool,
    Nat,
    Int,
    Nat8,
    Nat16,
    Nat32,
    Nat64,
    Int8,
    Int16,
    Int32,
    Int64,
    Float32,
    Float64,
    Text,
    Reserved,
    Empty,
}

pub const ALL_PRIMS: [Prim; 17] = [
    Prim::Null,
    Prim::Bool,
    Prim::Nat,
    Prim::Int,
    Prim::Nat8,
    Prim::Nat16,
    Prim::Nat32,
    Prim::Nat64,
    Prim::Int8,
    Prim::Int16,
    Prim::Int32,
    Prim::Int64,
    Prim::Float32,
    Prim::Float64,
    Prim::Text,
    Prim::Reserved,
    Prim::Empty,
];

impl Prim {
    pub fn keyword(&self) -> &'static str {
        match self {
            Prim::Null => "null",
            Prim::Bool => "bool",
            Prim::Nat => "nat",
            Prim::Int => "int",
            Prim::Nat8 => "nat8",
            Prim::Nat16 => "nat16",
            Prim::Nat32 => "nat32",
            Prim::Nat64 => "nat64",
            Prim::Int8 => "int8",
            Prim::Int16 => "int16",
            Prim::Int32 => "int32",
            Prim::Int64 => "int64",
            Prim::Float32 => "float32",
            Prim::Float64 => "float64",
            Prim::Text => "text",
            Prim::Reserved => "reserved",
            Prim::Empty => "empty",
        }
    }
}

#[derive(Clone, Copy, Debug, PartialEq, Eq, Hash, PartialOrd, Ord)]
pub enum FMode {
    Query,
    Oneway,
    CompositeQuery,
}

impl FMode {
    pub fn keyword(&self) -> &'static str {
        match self {
            FMode::Query => "query",
            FMode::Oneway => "oneway",
            FMode::CompositeQuery => "composite_query",
        }
    }
}

/// A field label as written in the source.
#[derive(Clone, Debug, PartialEq, Eq, Hash)]
pub enum Label {
    /// `name : t` — the id is the hash of the name
    Named(String),
    /// `42 : t`
    Id(u32),
    /// tuple shorthand (records only): id = 0 for the first field, previous id + 1 otherwise
    Unnamed,
}

#[derive(Clone, Debug, PartialEq, Eq)]
pub struct Field {
    pub label: Label,
    pub ty: Ty,
    /// variants only, and only meaningful when `ty` is `null`: print `label` instead of `label : null`
    pub short: bool,
    pub docs: Vec<String>,
}

impl Field {
    pub fn new(label: Label, ty: Ty) -> Field {
        Field {
            label,
            ty,
            short: false,
            docs: vec![],
        }
    }
}

#[derive(Clone, Debug, PartialEq, Eq)]
pub struct ArgTy {
    pub name: Option<String>,
    pub ty: Ty,
}

impl ArgTy {
    pub fn plain(ty: Ty) -> ArgTy {
        ArgTy { name: None, ty }
    }
}

#[derive(Clone, Debug, PartialEq, Eq, Default)]
pub struct Func {
    pub args: Vec<ArgTy>,
    pub rets: Vec<ArgTy>,
    /// well-formed programs have at most one
    pub modes: Vec<FMode>,
}

#[derive(Clone, Debug, PartialEq, Eq)]
pub enum MethTy {
    Func(Func),
    /// the name of a definition that is (an alias of) a function type
    Var(String),
    /// ILLEGAL escape hatch for mutants: any type printed where `<functype> | <id>` is expected
    Raw(Ty),
}

#[derive(Clone, Debug, PartialEq, Eq)]
pub struct Method {
    pub name: String,
    pub ty: MethTy,
    pub docs: Vec<String>,
}

#[derive(Clone, Debug, PartialEq, Eq)]
pub enum Ty {
    Prim(Prim),
    Principal,
    Var(String),
    Opt(Box<Ty>),
    Vec(Box<Ty>),
    /// the shorthand `blob` (= `vec nat8`)
    Blob,
    Record(Vec<Field>),
    Variant(Vec<Field>),
    Func(Func),
    Service(Vec<Method>),
}

impl Ty {
    pub fn opt(t: Ty) -> Ty {
        Ty::Opt(Box::new(t))
    }
    pub fn vec(t: Ty) -> Ty {
        Ty::Vec(Box::new(t))
    }
    pub fn var(s: &str) -> Ty {
        Ty::Var(s.to_string())
    }
    /// number of syntax nodes
    pub fn size(&self) -> usize {
        match self {
            Ty::Opt(t) | Ty::Vec(t) => 1 + t.size(),
            Ty::Record(fs) | Ty::Variant(fs) => 1 + fs.iter().map(|f| f.ty.size()).sum::<usize>(),
            Ty::Func(f) => 1 + f.args.iter().chain(f.rets.iter()).map(|a| a.ty.size()).sum::<usize>(),
            Ty::Service(ms) => {
                1 + ms
                    .iter()
                    .map(|m| match &m.ty {
                        MethTy::Func(f) => Ty::Func(f.clone()).size(),
                        MethTy::Var(_) => 1,
                        MethTy::Raw(t) => t.size(),
                    })
                    .sum::<usize>()
            }
            _ => 1,
        }
    }
}

#[derive(Clone, Debug, PartialEq, Eq)]
pub struct Def {
    pub name: String,
    pub ty: Ty,
    pub docs: Vec<String>,
}

#[derive(Clone, Debug, PartialEq, Eq)]
pub enum ActorBody {
    /// `service : { ... }`
    Service(Vec<Method>),
    /// `service : Name`
    Var(String),
}

#[derive(Clone, Debug, PartialEq, Eq)]
pub struct Actor {
    /// `service name : ...` (documentation only)
    pub name: Option<String>,
    /// `service : (args) -> ...`
    pub init: Option<Vec<ArgTy>>,
    pub body: ActorBody,
    pub docs: Vec<String>,
}

#[derive(Clone, Debug, PartialEq, Eq, Default)]
pub struct Prog {
    pub defs: Vec<Def>,
    pub actor: Option<Actor>,
}

/// `<defs> ( <args> )` — the format of the `candid:args` metadata (candid_parser's `IDLInitArgs`).
#[derive(Clone, Debug, PartialEq, Eq, Default)]
pub struct InitArgsProg {
    pub defs: Vec<Def>,
    pub args: Vec<ArgTy>,
}

/// Tokens the lexer never returns as `<id>`: they must be quoted when used as a name, and can
/// never name a definition. (`true`/`false` are value keywords; the rest are the keywords of the
/// type grammar that have their own token.)
pub const RESERVED_TOKENS: [&str; 16] = [
    "null",
    "vec",
    "record",
    "variant",
    "func",
    "service",
    "oneway",
    "query",
    "composite_query",
    "blob",
    "type",
    "import",
    "opt",
    "principal",
    "true",
    "false",
];

/// Names of primitive types: legal `<id>` tokens for candid's lexer, but an occurrence in type
/// position denotes the primitive, so they are never used as definition names.
pub const PRIM_NAMES: [&str; 16] = [
    "bool", "nat", "int", "nat8", "nat16", "nat32", "nat64", "int8", "int16", "int32", "int64", "float32", "float64",
    "text", "reserved", "empty",
];

/// `(A..Z|a..z|_)(A..Z|a..z|_|0..9)*`
pub fn is_ident(s: &str) -> bool {
    let mut cs = s.chars();
    match cs.next() {
        Some(c) if c.is_ascii_alphabetic() || c == '_' => {}
        _ => return false,
    }
    cs.all(|c| c.is_ascii_alphanumeric() || c == '_')
}

/// May this name be written without quotes (as `<id>`) in a `<name>` position?
pub fn bare_ok(s: &str) -> bool {
    is_ident(s) && !RESERVED_TOKENS.contains(&s)
}

/// May this name be the name of a definition?
pub fn def_name_ok(s: &str) -> bool {
    bare_ok(s) && !PRIM_NAMES.contains(&s)
}

impl Prog {
    pub fn def(&self, name: &str) -> Option<&Def> {
        self.defs.iter().find(|d| d.name == name)
    }
    pub fn size(&self) -> usize {
        self.defs.iter().map(|d| d.ty.size()).sum::<usize>()
    }
}
