//! The meaning of a program of `super::ast` as a type graph of the reference model, computed
//! from the spec's desugaring rules alone (no candid code involved):
//!   * `name : t`  :=  `hash(name) : t`            (crate::model::misc::label_hash)
//!   * `t` in a record := `N : t`, N = 0 for the first field, previous id + 1 otherwise
//!   * `name` / `N` in a variant := `name : null`
//!   * `blob` := `vec nat8`; argument names have no meaning
//!   * fields sorted by id, methods sorted by name
use super::ast::*;
use crate::conv::Names;
use crate::model::misc::label_hash;
use crate::model::{Mode, REnv, RType};
use std::collections::BTreeMap;

#[derive(Clone, Debug)]
pub struct ProgModel {
    /// entry i = body of `prog.defs[i]`
    pub env: REnv,
    pub def_index: BTreeMap<String, usize>,
    /// (init argument types — empty unless the actor is a service constructor, service type)
    pub actor: Option<(Vec<RType>, RType)>,
    /// true iff the actor was written with init arguments (`service : (…) -> …`), even if `()`
    pub is_class: bool,
    /// id -> a spelling used in the program (an aid for printing values; not part of the meaning)
    pub names: Names,
}

pub fn prim_model(p: Prim) -> RType {
    match p {
        Prim::Null => RType::Null,
        Prim::Bool => RType::Bool,
        Prim::Nat => RType::Nat,
        Prim::Int => RType::Int,
        Prim::Nat8 => RType::Nat8,
        Prim::Nat16 => RType::Nat16,
        Prim::Nat32 => RType::Nat32,
        Prim::Nat64 => RType::Nat64,
        Prim::Int8 => RType::Int8,
        Prim::Int16 => RType::Int16,
        Prim::Int32 => RType::Int32,
        Prim::Int64 => RType::Int64,
        Prim::Float32 => RType::Float32,
        Prim::Float64 => RType::Float64,
        Prim::Text => RType::Text,
        Prim::Reserved => RType::Reserved,
        Prim::Empty => RType::Empty,
    }
}

pub fn mode_model(m: FMode) -> Mode {
    match m {
        FMode::Query => Mode::Query,
        FMode::Oneway => Mode::Oneway,
        FMode::CompositeQuery => Mode::CompositeQuery,
    }
}

/// Ids of the fields of a record/variant in source order (spec shorthand rules). `Err` when an
/// unlabeled field would need an id above 2^32 - 1.
pub fn field_ids(fs: &[Field]) -> Result<Vec<u32>, String> {
    let mut out = Vec::with_capacity(fs.len());
    let mut next: Option<u32> = Some(0);
    for f in fs {
        let id = match &f.label {
            Label::Named(n) => label_hash(n),
            Label::Id(i) => *i,
            Label::Unnamed => next.ok_or("tuple field after id 2^32-1")?,
        };
        next = id.checked_add(1);
        out.push(id);
    }
    Ok(out)
}

pub struct Modeller<'a> {
    pub index: &'a BTreeMap<String, usize>,
    pub names: Names,
}

impl<'a> Modeller<'a> {
    pub fn ty(&mut self, t: &Ty) -> Result<RType, String> {
        Ok(match t {
            Ty::Prim(p) => prim_model(*p),
            Ty::Principal => RType::Principal,
            Ty::Var(v) => RType::Ref(*self.index.get(v).ok_or_else(|| format!("undefined name {v}"))?),
            Ty::Opt(t) => RType::opt(self.ty(t)?),
            Ty::Vec(t) => RType::vec(self.ty(t)?),
            Ty::Blob => RType::vec(RType::Nat8),
            Ty::Record(fs) | Ty::Variant(fs) => {
                let ids = field_ids(fs)?;
                let mut out = Vec::new();
                for (f, id) in fs.iter().zip(ids.iter()) {
                    if out.iter().any(|(i, _)| i == id) {
                        return Err(format!("duplicate field id {id}"));
                    }
                    if let Label::Named(n) = &f.label {
                        self.names.insert(*id, n.clone());
                    }
                    out.push((*id, self.ty(&f.ty)?));
                }
                if matches!(t, Ty::Record(_)) {
                    RType::record(out)
                } else {
                    RType::variant(out)
                }
            }
            Ty::Func(f) => self.func(f)?,
            Ty::Service(ms) => self.service(ms)?,
        })
    }
    pub fn func(&mut self, f: &Func) -> Result<RType, String> {
        let mut args = Vec::new();
        for a in &f.args {
            args.push(self.ty(&a.ty)?);
        }
        let mut rets = Vec::new();
        for a in &f.rets {
            rets.push(self.ty(&a.ty)?);
        }
        Ok(RType::Func {
            args,
            rets,
            modes: f.modes.iter().map(|m| mode_model(*m)).collect(),
        })
    }
    pub fn service(&mut self, ms: &[Method]) -> Result<RType, String> {
        let mut out: Vec<(String, RType)> = Vec::new();
        for m in ms {
            if out.iter().any(|(n, _)| *n == m.name) {
                return Err(format!("duplicate method {:?}", m.name));
            }
            let t = match &m.ty {
                MethTy::Func(f) => self.func(f)?,
                MethTy::Var(v) => RType::Ref(*self.index.get(v).ok_or_else(|| format!("undefined name {v}"))?),
                MethTy::Raw(t) => self.ty(t)?,
            };
            out.push((m.name.clone(), t));
        }
        Ok(RType::service(out))
    }
    pub fn args(&mut self, args: &[ArgTy]) -> Result<Vec<RType>, String> {
        args.iter().map(|a| self.ty(&a.ty)).collect()
    }
}

pub fn def_index(defs: &[Def]) -> Result<BTreeMap<String, usize>, String> {
    let mut index = BTreeMap::new();
    for (i, d) in defs.iter().enumerate() {
        if index.insert(d.name.clone(), i).is_some() {
            return Err(format!("duplicate definition {}", d.name));
        }
    }
    Ok(index)
}

/// Structure only: does not judge well-formedness beyond what is needed to build the graph
/// (undefined names, duplicate definitions / ids / methods are errors).
pub fn try_to_model(p: &Prog) -> Result<ProgModel, String> {
    let index = def_index(&p.defs)?;
    let mut m = Modeller {
        index: &index,
        names: Names::new(),
    };
    let mut env = REnv::new();
    for d in &p.defs {
        env.0.push(m.ty(&d.ty)?);
    }
    let mut is_class = false;
    let actor = match &p.actor {
        None => None,
        Some(a) => {
            let init = match &a.init {
                Some(args) => {
                    is_class = true;
                    m.args(args)?
                }
                None => vec![],
            };
            let body = match &a.body {
                ActorBody::Service(ms) => m.service(ms)?,
                ActorBody::Var(v) => RType::Ref(*index.get(v).ok_or_else(|| format!("undefined name {v}"))?),
            };
            Some((init, body))
        }
    };
    let names = m.names;
    Ok(ProgModel {
        env,
        def_index: index,
        actor,
        is_class,
        names,
    })
}

/// For programs that came out of `gen_prog` (well-formed by construction).
pub fn to_model(p: &Prog) -> ProgModel {
    try_to_model(p).expect("to_model on an ill-formed program")
}

/// Model of an init-args program (its own definitions only) and of its argument types. Names that
/// are not defined locally are looked up in `main` (indices of `main.env` come first).
pub fn init_args_model(p: &InitArgsProg, main: Option<&ProgModel>) -> Result<(REnv, Vec<RType>), String> {
    let mut env = main.map(|m| m.env.clone()).unwrap_or_default();
    let off = env.0.len();
    let mut index: BTreeMap<String, usize> = main.map(|m| m.def_index.clone()).unwrap_or_default();
    let mut local = BTreeMap::new();
    for (i, d) in p.defs.iter().enumerate() {
        if local.insert(d.name.clone(), off + i).is_some() {
            return Err(format!("duplicate definition {}", d.name));
        }
    }
    for (k, v) in &local {
        index.insert(k.clone(), *v);
    }
    // definitions of the init-args program may only see each other
    let mut m = Modeller {
        index: &local,
        names: Names::new(),
    };
    for d in &p.defs {
        let t = m.ty(&d.ty)?;
        env.0.push(t);
    }
    let mut m = Modeller {
        index: &index,
        names: Names::new(),
    };
    let args = m.args(&p.args)?;
    Ok((env, args))
}

/// Independent well-formedness judgement per spec/Candid.md, used to double check the generator
/// and the mutants (an `Err` names the first violated rule).
pub fn well_formed(p: &Prog) -> Result<(), String> {
    let m = try_to_model(p)?;
    check_env(&m.env)?;
    // syntactic rules that the graph does not show
    fn walk_ty(t: &Ty, f: &mut dyn FnMut(&Ty) -> Result<(), String>) -> Result<(), String> {
        f(t)?;
        match t {
            Ty::Opt(x) | Ty::Vec(x) => walk_ty(x, f),
            Ty::Record(fs) | Ty::Variant(fs) => fs.iter().try_for_each(|x| walk_ty(&x.ty, f)),
            Ty::Func(fun) => fun.args.iter().chain(fun.rets.iter()).try_for_each(|a| walk_ty(&a.ty, f)),
            Ty::Service(ms) => ms.iter().try_for_each(|m| match &m.ty {
                MethTy::Func(fun) => walk_ty(&Ty::Func(fun.clone()), f),
                MethTy::Var(_) => Ok(()),
                MethTy::Raw(t) => walk_ty(t, f),
            }),
            _ => Ok(()),
        }
    }
    fn arg_names(args: &[ArgTy]) -> Result<(), String> {
        let mut seen: Vec<&str> = Vec::new();
        for a in args {
            if let Some(n) = &a.name {
                if seen.contains(&n.as_str()) {
                    return Err(format!("duplicate argument name {n:?}"));
                }
                seen.push(n);
            }
        }
        Ok(())
    }
    let mut rule = |t: &Ty| -> Result<(), String> {
        if let Ty::Func(f) = t {
            if f.modes.len() > 1 {
                return Err("more than one annotation".into());
            }
            if f.modes == vec![FMode::Oneway] && !f.rets.is_empty() {
                return Err("oneway with results".into());
            }
            arg_names(&f.args)?;
            arg_names(&f.rets)?;
        }
        Ok(())
    };
    for d in &p.defs {
        if !def_name_ok(&d.name) {
            return Err(format!("illegal definition name {}", d.name));
        }
        walk_ty(&d.ty, &mut rule)?;
    }
    if let Some(a) = &p.actor {
        if let Some(init) = &a.init {
            arg_names(init)?;
            for x in init {
                walk_ty(&x.ty, &mut rule)?;
            }
        }
        if let ActorBody::Service(ms) = &a.body {
            walk_ty(&Ty::Service(ms.clone()), &mut rule)?;
        }
        let (init, body) = m.actor.as_ref().unwrap();
        for t in init {
            check_type(&m.env, t)?;
        }
        check_type(&m.env, body)?;
        match m.env.unfold(body) {
            Some(RType::Service(_)) => {}
            _ => return Err("main actor is not a service".into()),
        }
    }
    Ok(())
}

/// Graph-level rules: no vacuous definition, every method type is a function.
pub fn check_env(env: &REnv) -> Result<(), String> {
    for (i, t) in env.0.iter().enumerate() {
        if env.unfold(&RType::Ref(i)).is_none() {
            return Err(format!("definition {i} is vacuous"));
        }
        check_type(env, t)?;
    }
    Ok(())
}

pub fn check_type(env: &REnv, t: &RType) -> Result<(), String> {
    match t {
        RType::Opt(x) | RType::Vec(x) => check_type(env, x),
        RType::Record(fs) | RType::Variant(fs) => fs.iter().try_for_each(|f| check_type(env, &f.1)),
        RType::Func { args, rets, .. } => args.iter().chain(rets.iter()).try_for_each(|x| check_type(env, x)),
        RType::Service(ms) => {
            for (n, mt) in ms {
                match env.unfold(mt) {
                    Some(RType::Func { .. }) => {}
                    _ => return Err(format!("method {n:?} is not a function")),
                }
                check_type(env, mt)?;
            }
            Ok(())
        }
        _ => Ok(()),
    }
}

/// A shape the pinned candid tree cannot check although it is well-formed: a definition that is a
/// function type which contains — without passing through a type name — a service type with a
/// method given BY NAME whose alias chain ends in a function definition from which the first one
/// is reached again the same way. (`type F = func (service { m : F }) -> ()`.) candid's
/// `validate_type` only cuts cycles at names in data position, so it recurses until the stack
/// guard fires ("Recursion limit exceeded"). Generators avoid the shape unless asked.
pub fn has_func_method_cycle(defs: &[Def]) -> bool {
    use std::collections::BTreeMap;
    let index: BTreeMap<&str, usize> = defs.iter().enumerate().map(|(i, d)| (d.name.as_str(), i)).collect();
    // end of the alias chain starting at definition i (None on a vacuous cycle / undefined name)
    let resolve = |mut i: usize| -> Option<usize> {
        for _ in 0..=defs.len() {
            match &defs[i].ty {
                Ty::Var(v) => i = *index.get(v.as_str())?,
                _ => return Some(i),
            }
        }
        None
    };
    // method names reachable from a type expression by structural descent (never through Ty::Var)
    fn method_refs<'a>(t: &'a Ty, in_service: bool, out: &mut Vec<&'a str>) {
        let _ = in_service;
        match t {
            Ty::Opt(x) | Ty::Vec(x) => method_refs(x, false, out),
            Ty::Record(fs) | Ty::Variant(fs) => fs.iter().for_each(|f| method_refs(&f.ty, false, out)),
            Ty::Func(f) => func_refs(f, out),
            Ty::Service(ms) => {
                for m in ms {
                    match &m.ty {
                        MethTy::Var(v) => out.push(v),
                        MethTy::Func(f) => func_refs(f, out),
                        MethTy::Raw(t) => method_refs(t, false, out),
                    }
                }
            }
            _ => {}
        }
    }
    fn func_refs<'a>(f: &'a Func, out: &mut Vec<&'a str>) {
        for a in f.args.iter().chain(f.rets.iter()) {
            method_refs(&a.ty, false, out);
        }
    }
    let n = defs.len();
    let mut edges: Vec<Vec<usize>> = vec![vec![]; n];
    for (i, d) in defs.iter().enumerate() {
        // candid enters validate_func for a definition whose body is a function, and for every
        // method reference it meets on the way down (whatever kind of definition it started from)
        let mut refs = Vec::new();
        method_refs(&d.ty, false, &mut refs);
        for r in refs {
            if let Some(j) = index.get(r).and_then(|j| resolve(*j)) {
                if matches!(defs[j].ty, Ty::Func(_)) {
                    edges[i].push(j);
                }
            }
        }
    }
    // a cycle among function definitions reachable through such edges
    let mut state = vec![0u8; n];
    fn dfs(i: usize, edges: &[Vec<usize>], state: &mut [u8]) -> bool {
        state[i] = 1;
        for &j in &edges[i] {
            if state[j] == 1 || (state[j] == 0 && dfs(j, edges, state)) {
                return true;
            }
        }
        state[i] = 2;
        false
    }
    (0..n).any(|i| state[i] == 0 && dfs(i, &edges, &mut state))
}
