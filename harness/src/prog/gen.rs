//! Generator of Candid programs that are well-formed BY CONSTRUCTION (spec/Candid.md):
//!   * every referenced name is defined exactly once; definition names are identifiers that are
//!     neither keywords nor primitive type names;
//!   * a definition whose body is a bare name only refers to an EARLIER definition in generation
//!     order (so alias chains end in a real type; the printer may still print them in any order);
//!   * field ids (after hashing names and numbering tuple fields) are unique within a record/variant;
//!   * method names are unique within a service; a method's type is an inline function type or the
//!     name of a definition whose alias chain ends in a function type;
//!   * at most one annotation; oneway functions have no results; argument names are unique within
//!     a function type;
//!   * the main actor is a service type, the name of (an alias of) one, or a constructor returning one.
use super::ast::*;
use super::model::field_ids;
use crate::model::misc::label_hash;
use crate::rng::Rng;

#[derive(Clone, Copy, Debug, PartialEq, Eq)]
pub enum DocKind {
    None,
    Benign,
    Hostile,
}

#[derive(Clone, Debug)]
pub struct ProgCfg {
    /// number of definitions is uniform in 0..=max_defs
    pub max_defs: usize,
    /// nesting depth of a type expression
    pub depth: usize,
    /// maximum number of fields / methods / arguments
    pub fields: usize,
    /// func / service / principal types
    pub refs: bool,
    /// `empty` and `variant {}`
    pub empty_types: bool,
    /// Candid keywords (quoted) and JS/TS/Rust/Motoko keywords as names
    pub keyword_names: bool,
    /// quoted names with spaces, quotes, backslashes, control characters, unicode, template syntax
    pub hostile_names: bool,
    /// additionally names containing NUL
    pub nul_names: bool,
    /// names that collide after case conversion (a_b / aB / AB / a__b, a / A)
    pub case_collisions: bool,
    /// method names are identifiers (the Motoko generator documents a panic otherwise)
    pub motoko_compat: bool,
    pub docs: DocKind,
    /// percent chance of a main actor
    pub actor_pct: u64,
    /// percent chance that the actor is a service constructor
    pub class_pct: u64,
    /// allow the id 2^32-1 inside records (well-formed; the pinned tree overflows on it: C13 finding)
    pub max_id: bool,
    /// percent chance that a leaf position refers to a definition
    pub ref_pct: u64,
    /// allow `type F = func (service { m : F }) -> ()` and friends (well-formed; the pinned tree
    /// rejects them with "Recursion limit exceeded": see `model::has_func_method_cycle`)
    pub func_method_cycles: bool,
}

impl Default for ProgCfg {
    fn default() -> Self {
        ProgCfg {
            max_defs: 6,
            depth: 3,
            fields: 4,
            refs: true,
            empty_types: true,
            keyword_names: true,
            hostile_names: false,
            nul_names: false,
            case_collisions: false,
            motoko_compat: false,
            docs: DocKind::None,
            actor_pct: 75,
            class_pct: 35,
            max_id: false,
            ref_pct: 30,
            func_method_cycles: false,
        }
    }
}

impl ProgCfg {
    /// A random configuration (sizes and name classes); `nul_names`, `max_id` stay off.
    pub fn random(rng: &mut Rng) -> ProgCfg {
        ProgCfg {
            max_defs: *rng.pick(&[0, 1, 2, 4, 6, 8]),
            depth: 1 + rng.usize(4),
            fields: 1 + rng.usize(5),
            refs: !rng.chance(1, 6),
            empty_types: rng.bool(),
            keyword_names: rng.bool(),
            hostile_names: rng.chance(1, 3),
            nul_names: false,
            case_collisions: rng.chance(1, 4),
            motoko_compat: rng.chance(1, 4),
            docs: *rng.pick(&[DocKind::None, DocKind::None, DocKind::Benign, DocKind::Hostile]),
            actor_pct: *rng.pick(&[0, 60, 100]),
            class_pct: *rng.pick(&[0, 35, 100]),
            max_id: false,
            ref_pct: *rng.pick(&[10, 30, 50]),
            func_method_cycles: false,
        }
    }
}

pub const IDENT_NAMES: &[&str] = &[
    "a", "b", "c", "id", "name", "value", "head", "tail", "Ok", "Err", "ok", "err", "key", "x", "y", "_", "_0", "_1_",
    "a_b", "left", "right", "next", "data", "list", "node", "foo", "bar", "result", "msg", "from", "to", "amount",
    "owner", "get", "set", "f", "g", "h", "m0", "field1", "CamelCase", "snake_case", "SCREAMING", "x1y2", "__", "a1",
];

/// Candid's own keywords and primitive type names: legal as field/method/argument names (quoted
/// when they are tokens of their own), never as definition names.
pub const CANDID_KEYWORDS: &[&str] = &[
    "null", "vec", "record", "variant", "func", "service", "oneway", "query", "composite_query", "blob", "type",
    "import", "opt", "principal", "true", "false", "bool", "nat", "int", "nat8", "nat16", "nat32", "nat64", "int8",
    "int16", "int32", "int64", "float32", "float64", "text", "reserved", "empty",
];

/// Keywords, reserved words and well-known globals of the binding targets.
pub const FOREIGN_KEYWORDS: &[&str] = &[
    // JavaScript / TypeScript
    "break", "case", "catch", "class", "const", "continue", "debugger", "default", "delete", "do", "else", "enum",
    "export", "extends", "finally", "for", "function", "if", "in", "instanceof", "new", "return", "super", "switch",
    "this", "throw", "try", "typeof", "var", "void", "while", "with", "yield", "let", "static", "implements",
    "interface", "package", "private", "protected", "public", "await", "async", "of", "undefined", "NaN", "Infinity",
    "arguments", "eval", "constructor", "prototype", "__proto__", "toString", "hasOwnProperty", "valueOf", "Array",
    "Object", "Number", "Symbol", "any", "never", "unknown", "string", "number", "boolean", "object", "bigint",
    "symbol", "declare", "namespace", "module", "readonly", "keyof", "abstract", "as", "is", "IDL", "idlFactory",
    "init", "Principal", "ActorMethod", "_SERVICE",
    // Rust
    "crate", "dyn", "fn", "impl", "loop", "match", "mod", "move", "mut", "pub", "ref", "self", "Self", "struct",
    "trait", "unsafe", "use", "where", "box", "final", "macro", "override", "priv", "unsized", "virtual", "become",
    "extern", "union", "Box", "Option", "Vec", "String", "Result", "Some", "None", "Ok", "Err", "u8", "i32", "str",
    "candid", "serde", "Deserialize", "CandidType", "main", "std", "core",
    // Motoko
    "actor", "and", "assert", "debug", "debug_show", "flexible", "from_candid", "to_candid", "label", "not", "or",
    "shared", "stable", "system", "composite", "Nat", "Int", "Text", "Bool", "Blob", "Null", "Any", "Error", "Char",
    "Float", "Nat8", "Int64",
];

pub const CASE_NAMES: &[&str] = &[
    "a_b", "aB", "AB", "a__b", "a", "A", "A_b", "a_B", "ab", "Ab", "AB_", "_ab", "ab_", "aB_c", "a_bC", "A_B", "a_b_",
    "_a_b", "aBC", "a_b_c", "ABC", "Abc", "abC", "a1", "A1", "a_1", "fooBar", "foo_bar", "FooBar", "FOO_BAR", "foobar",
];

pub const ODD_NAMES: &[&str] = &[
    "with space", "quo\"te", "back\\slash", "comma,sep", "semi;colon", "new\nline", "tab\t", "cr\r", "é", "名前",
    "\u{1F600}", "\u{301}x", "1", "42", "4294967295", "0x1F", "-1", "1_000", "", " ", "*/", "/*", "//", "{{", "}}",
    "{{x}}", "${x}", "'", "`", "\"", "\\", "\\\"", "__proto__", "\u{7f}", "\u{1}", "\u{1b}[0m", "\u{feff}", "a.b",
    "a-b", "a:b", "a b c", "</script>", "<!--", "\\u{41}", "\\n", "\u{202e}rtl", "\u{2028}", "\u{85}", "\u{a0}",
    "%s", "#", "@", "a\u{301}", "ǅ", "ß", "İ", "ﬁ", "𝒳", "_1_", "_42_", "record {}", "a : nat", "a;b : c",
    "dir\\0", "C:\\0day", "\\0", "\\01", "a\\x41", "\\u{0}", "caf\u{e9}", "\u{9b}k", "\u{ff}",
];

pub const NUL_NAMES: &[&str] = &["\u{0}", "nul\u{0}", "\u{0}1", "a\u{0}7b"];

pub const DEF_NAMES: &[&str] = &[
    "A", "B", "C", "T", "List", "Node", "Tree", "t", "node", "list", "tree", "stream", "my_type", "Foo", "Bar",
    "Result_", "Value", "Key", "Item", "Callback", "Svc", "Fn", "Rec", "T0", "T1", "x", "_", "_x", "X_", "a", "b",
];

pub const BENIGN_DOCS: &[&str] = &[
    "A simple doc comment.",
    "Returns the value",
    "",
    "TODO: describe",
    "multi word comment 123",
    "See also: other",
];

pub const HOSTILE_DOCS: &[&str] = &[
    "*/",
    "*/ injected(); /*",
    "/* open",
    "\"",
    "'",
    "`",
    "` ${alert(1)} `",
    "{{",
    "}}",
    "{{#if x}}",
    "{{{raw}}}",
    "${x}",
    "a // b",
    "</script><script>alert(1)</script>",
    "--> <!--",
    "\\",
    "\\n",
    "\\\"",
    "'; drop table",
    "# heading",
    "@param x",
    "名前 ünï \u{1F600}",
    "\u{202e}rtl",
    "x\ralert(1)",
    "x\u{2028}alert(1)",
    "x\u{2029}y",
    "x\u{85}y",
    "a\u{0}b",
    "\u{feff}bom",
    "*/ } type X = nat; /*",
    "]]>",
    "%d %s %n",
    "end of comment */ fn main() {}",
    "tab\tseparated",
    "trailing backslash \\",
];

/// What candid's lexer keeps of a `// …` line: leading slashes and surrounding white space removed.
pub fn doc_as_seen(line: &str) -> String {
    line.trim_start_matches('/').trim().to_string()
}

fn doc_ok(s: &str) -> bool {
    !s.contains('\n') && doc_as_seen(s) == s
}

#[derive(Clone, Copy, Debug, PartialEq, Eq)]
pub enum Kind {
    Data,
    Func,
    Service,
}

pub struct Gen<'a> {
    pub cfg: &'a ProgCfg,
    /// (name, kind after resolving aliases) of every definition that may be referenced
    pub defs: Vec<(String, Kind)>,
}

impl<'a> Gen<'a> {
    pub fn new(cfg: &'a ProgCfg) -> Self {
        Gen { cfg, defs: vec![] }
    }

    pub fn docs(&self, rng: &mut Rng) -> Vec<String> {
        match self.cfg.docs {
            DocKind::None => vec![],
            _ if rng.chance(1, 2) => vec![],
            kind => {
                let n = 1 + rng.usize(3);
                (0..n)
                    .map(|_| {
                        let s = if kind == DocKind::Hostile && rng.chance(2, 3) {
                            match rng.below(12) {
                                0 => "long ".repeat(200 + rng.usize(400)).trim().to_string(),
                                1 => {
                                    let t = crate::gen::values::gen_text(rng).replace('\n', " ");
                                    doc_as_seen(&t)
                                }
                                _ => rng.pick(HOSTILE_DOCS).to_string(),
                            }
                        } else {
                            rng.pick(BENIGN_DOCS).to_string()
                        };
                        if doc_ok(&s) {
                            s
                        } else {
                            "doc".to_string()
                        }
                    })
                    .collect()
            }
        }
    }

    /// a field / argument / method name
    pub fn any_name(&self, rng: &mut Rng) -> String {
        let c = self.cfg;
        for _ in 0..20 {
            match rng.below(10) {
                0 | 1 if c.keyword_names => return rng.pick(CANDID_KEYWORDS).to_string(),
                2 | 3 if c.keyword_names => return rng.pick(FOREIGN_KEYWORDS).to_string(),
                4 | 5 if c.hostile_names => {
                    if rng.chance(1, 6) {
                        let t = crate::gen::values::gen_text(rng);
                        if c.nul_names || !t.contains('\u{0}') {
                            return t;
                        }
                    } else {
                        return rng.pick(ODD_NAMES).to_string();
                    }
                }
                6 if c.nul_names => return rng.pick(NUL_NAMES).to_string(),
                7 | 8 if c.case_collisions => return rng.pick(CASE_NAMES).to_string(),
                _ => return rng.pick(IDENT_NAMES).to_string(),
            }
        }
        rng.pick(IDENT_NAMES).to_string()
    }

    pub fn method_name(&self, rng: &mut Rng) -> String {
        loop {
            let n = self.any_name(rng);
            if !self.cfg.motoko_compat || is_ident(&n) {
                return n;
            }
        }
    }

    pub fn def_name(&self, rng: &mut Rng, taken: &[String]) -> String {
        let c = self.cfg;
        for _ in 0..50 {
            let n = match rng.below(10) {
                0..=2 if c.keyword_names => rng.pick(FOREIGN_KEYWORDS).to_string(),
                3..=5 if c.case_collisions => rng.pick(CASE_NAMES).to_string(),
                6 => rng.pick(IDENT_NAMES).to_string(),
                _ => rng.pick(DEF_NAMES).to_string(),
            };
            if def_name_ok(&n) && !taken.contains(&n) {
                return n;
            }
        }
        let mut k = taken.len();
        loop {
            let n = format!("D{k}");
            if !taken.contains(&n) {
                return n;
            }
            k += 1;
        }
    }

    fn prim(&self, rng: &mut Rng) -> Ty {
        loop {
            let p = *rng.pick(&ALL_PRIMS);
            if p == Prim::Empty && (!self.cfg.empty_types || !rng.chance(1, 3)) {
                continue;
            }
            return Ty::Prim(p);
        }
    }

    fn leaf(&self, rng: &mut Rng) -> Ty {
        match rng.below(12) {
            0 if self.cfg.refs => Ty::Principal,
            1 => Ty::Blob,
            _ => self.prim(rng),
        }
    }

    fn pick_def(&self, rng: &mut Rng, kind: Option<Kind>) -> Option<String> {
        let c: Vec<&(String, Kind)> = self.defs.iter().filter(|d| kind.is_none() || Some(d.1) == kind).collect();
        if c.is_empty() {
            None
        } else {
            Some(rng.pick(&c).0.clone())
        }
    }

    fn label_id(l: &Label, prev: Option<u32>) -> Option<u32> {
        match l {
            Label::Named(n) => Some(label_hash(n)),
            Label::Id(i) => Some(*i),
            Label::Unnamed => match prev {
                None => Some(0),
                Some(p) => p.checked_add(1),
            },
        }
    }

    fn numeric_id(&self, rng: &mut Rng) -> u32 {
        match rng.below(10) {
            0 => 0,
            1 => 1,
            2 => rng.below(10) as u32,
            3 => rng.below(1000) as u32,
            4 => u32::MAX - 1,
            5 => label_hash(&self.any_name(rng)),
            6 => 1 << rng.below(32),
            _ => rng.next() as u32,
        }
    }

    /// n labels with pairwise distinct ids
    pub fn labels(&self, rng: &mut Rng, n: usize, variant: bool) -> Vec<Label> {
        // 0 tuple, 1 named, 2 numeric, 3 mixed
        let style = if variant {
            *rng.pick(&[1, 1, 1, 2, 3])
        } else {
            *rng.pick(&[0, 1, 1, 1, 2, 3, 3])
        };
        let mut out: Vec<Label> = Vec::new();
        let mut ids: Vec<u32> = Vec::new();
        while out.len() < n {
            let prev = ids.last().copied();
            let mut tries = 0;
            loop {
                tries += 1;
                let kind = match style {
                    0 => 0,
                    1 => 1,
                    2 => 2,
                    _ => rng.below(if variant { 2 } else { 3 }) + if variant { 1 } else { 0 },
                };
                let l = match kind {
                    0 if tries < 3 => Label::Unnamed,
                    1 if tries < 30 => Label::Named(self.any_name(rng)),
                    _ => Label::Id(if tries < 40 { self.numeric_id(rng) } else { rng.next() as u32 }),
                };
                let Some(id) = Self::label_id(&l, prev) else { continue };
                if ids.contains(&id) {
                    continue;
                }
                if !variant && id == u32::MAX && !self.cfg.max_id {
                    continue;
                }
                out.push(l);
                ids.push(id);
                break;
            }
        }
        out
    }

    pub fn fields(&self, rng: &mut Rng, depth: usize, variant: bool) -> Vec<Field> {
        let n = if variant {
            if self.cfg.empty_types && rng.chance(1, 12) {
                0
            } else {
                1 + rng.usize(self.cfg.fields.max(1))
            }
        } else {
            rng.usize(self.cfg.fields + 1)
        };
        let labels = self.labels(rng, n, variant);
        let fs: Vec<Field> = labels
            .into_iter()
            .map(|label| {
                let ty = if variant && rng.chance(1, 3) {
                    Ty::Prim(Prim::Null)
                } else {
                    self.data(rng, depth)
                };
                Field {
                    label,
                    short: variant && rng.bool(),
                    docs: self.docs(rng),
                    ty,
                }
            })
            .collect();
        debug_assert!(field_ids(&fs).is_ok());
        fs
    }

    pub fn arg_list(&self, rng: &mut Rng, depth: usize, n: usize, taken: &mut Vec<String>) -> Vec<ArgTy> {
        (0..n)
            .map(|_| {
                let name = if rng.chance(1, 3) {
                    let mut found = None;
                    for _ in 0..10 {
                        let s = self.any_name(rng);
                        if !taken.contains(&s) {
                            found = Some(s);
                            break;
                        }
                    }
                    if let Some(s) = &found {
                        taken.push(s.clone());
                    }
                    found
                } else {
                    None
                };
                ArgTy {
                    name,
                    ty: self.data(rng, depth),
                }
            })
            .collect()
    }

    pub fn func(&self, rng: &mut Rng, depth: usize) -> Func {
        let max = self.cfg.fields.min(3);
        let na = rng.usize(max + 1);
        let nr = rng.usize(max + 1);
        let modes = match rng.below(6) {
            0 => vec![FMode::Query],
            1 => vec![FMode::Oneway],
            2 => vec![FMode::CompositeQuery],
            _ => vec![],
        };
        let mut taken = Vec::new();
        let d = depth.saturating_sub(1);
        let args = self.arg_list(rng, d, na, &mut taken);
        let rets = if modes == vec![FMode::Oneway] {
            vec![]
        } else {
            self.arg_list(rng, d, nr, &mut taken)
        };
        Func { args, rets, modes }
    }

    pub fn methods(&self, rng: &mut Rng, depth: usize) -> Vec<Method> {
        let n = rng.usize(self.cfg.fields + 1);
        let mut names: Vec<String> = Vec::new();
        while names.len() < n {
            let s = self.method_name(rng);
            if !names.contains(&s) {
                names.push(s);
            }
        }
        names
            .into_iter()
            .map(|name| {
                let ty = match self.pick_def(rng, Some(Kind::Func)) {
                    Some(f) if rng.chance(1, 3) => MethTy::Var(f),
                    _ => MethTy::Func(self.func(rng, depth)),
                };
                Method {
                    name,
                    ty,
                    docs: self.docs(rng),
                }
            })
            .collect()
    }

    /// any data type (everything that may be an argument, a field or a definition body)
    pub fn data(&self, rng: &mut Rng, depth: usize) -> Ty {
        if !self.defs.is_empty() && rng.below(100) < self.cfg.ref_pct {
            return Ty::Var(self.pick_def(rng, None).unwrap());
        }
        if depth == 0 {
            return self.leaf(rng);
        }
        self.constructed(rng, depth, true)
    }

    /// a type expression that is not a bare name
    fn constructed(&self, rng: &mut Rng, depth: usize, leaves: bool) -> Ty {
        let d = depth.saturating_sub(1);
        loop {
            return match rng.below(if self.cfg.refs { 13 } else { 10 }) {
                0..=2 if leaves => self.leaf(rng),
                0..=2 => continue,
                3 | 4 => Ty::opt(self.data(rng, d)),
                5 | 6 => Ty::vec(self.data(rng, d)),
                7 | 8 => Ty::Record(self.fields(rng, d, false)),
                9 => Ty::Variant(self.fields(rng, d, true)),
                10 | 11 => Ty::Func(self.func(rng, depth)),
                _ => Ty::Service(self.methods(rng, d)),
            };
        }
    }
}

fn pick_n(rng: &mut Rng, max: usize) -> usize {
    if max > 0 && rng.chance(1, 4) {
        max
    } else {
        rng.usize(max + 1)
    }
}

enum Plan {
    Body(Kind),
    AliasDef(usize),
    AliasPrim,
}

/// Definitions only (well-formed, closed). `avoid`: names that must not be defined.
pub fn gen_defs(rng: &mut Rng, cfg: &ProgCfg, avoid: &[String]) -> (Vec<Def>, Vec<(String, Kind)>) {
    for _ in 0..30 {
        let r = gen_defs_once(rng, cfg, avoid);
        if cfg.func_method_cycles || !super::model::has_func_method_cycle(&r.0) {
            return r;
        }
    }
    // give up on method references: inline every method type
    let (mut defs, kinds) = gen_defs_once(rng, cfg, avoid);
    fn inline(t: &mut Ty) {
        match t {
            Ty::Opt(x) | Ty::Vec(x) => inline(x),
            Ty::Record(fs) | Ty::Variant(fs) => fs.iter_mut().for_each(|f| inline(&mut f.ty)),
            Ty::Func(f) => f.args.iter_mut().chain(f.rets.iter_mut()).for_each(|a| inline(&mut a.ty)),
            Ty::Service(ms) => {
                for m in ms.iter_mut() {
                    match &mut m.ty {
                        MethTy::Var(_) => m.ty = MethTy::Func(Func::default()),
                        MethTy::Func(f) => f.args.iter_mut().chain(f.rets.iter_mut()).for_each(|a| inline(&mut a.ty)),
                        MethTy::Raw(t) => inline(t),
                    }
                }
            }
            _ => {}
        }
    }
    for d in defs.iter_mut() {
        inline(&mut d.ty);
    }
    (defs, kinds)
}

fn gen_defs_once(rng: &mut Rng, cfg: &ProgCfg, avoid: &[String]) -> (Vec<Def>, Vec<(String, Kind)>) {
    let g0 = Gen::new(cfg);
    let n = pick_n(rng, cfg.max_defs);
    let mut names: Vec<String> = avoid.to_vec();
    for _ in 0..n {
        let s = g0.def_name(rng, &names);
        names.push(s);
    }
    let names: Vec<String> = names[avoid.len()..].to_vec();
    let mut plans: Vec<Plan> = Vec::new();
    let mut kinds: Vec<Kind> = Vec::new();
    for i in 0..n {
        let plan = match rng.below(100) {
            0..=14 if i > 0 => Plan::AliasDef(rng.usize(i)),
            15..=22 => Plan::AliasPrim,
            23..=36 if cfg.refs => Plan::Body(Kind::Func),
            37..=50 if cfg.refs => Plan::Body(Kind::Service),
            _ => Plan::Body(Kind::Data),
        };
        kinds.push(match &plan {
            Plan::Body(k) => *k,
            Plan::AliasDef(j) => kinds[*j],
            Plan::AliasPrim => Kind::Data,
        });
        plans.push(plan);
    }
    let mut g = Gen::new(cfg);
    g.defs = names.iter().cloned().zip(kinds.iter().copied()).collect();
    let mut defs = Vec::new();
    for (i, plan) in plans.iter().enumerate() {
        let ty = match plan {
            Plan::AliasDef(j) => Ty::Var(names[*j].clone()),
            Plan::AliasPrim => g.leaf(rng),
            Plan::Body(Kind::Func) => Ty::Func(g.func(rng, cfg.depth)),
            Plan::Body(Kind::Service) => Ty::Service(g.methods(rng, cfg.depth)),
            Plan::Body(Kind::Data) => g.constructed(rng, cfg.depth.max(1), false),
        };
        // a Data body may have come out as func/service: the recorded kind only promises that
        // Func/Service definitions are functions/services, not that Data ones are not
        defs.push(Def {
            name: names[i].clone(),
            ty,
            docs: g.docs(rng),
        });
    }
    (defs, g.defs)
}

pub fn gen_actor(rng: &mut Rng, g: &Gen) -> Actor {
    let cfg = g.cfg;
    let body = match g.pick_def(rng, Some(Kind::Service)) {
        Some(s) if rng.chance(1, 2) => ActorBody::Var(s),
        _ => ActorBody::Service(g.methods(rng, cfg.depth)),
    };
    let init = if rng.below(100) < cfg.class_pct {
        let n = rng.usize(cfg.fields.min(3) + 1);
        Some(g.arg_list(rng, cfg.depth, n, &mut Vec::new()))
    } else {
        None
    };
    let name = if rng.chance(1, 4) {
        // `service <id> :` — an identifier token
        let taken: Vec<String> = vec![];
        Some(g.def_name(rng, &taken))
    } else {
        None
    };
    Actor {
        name,
        init,
        body,
        docs: g.docs(rng),
    }
}

pub fn gen_prog(rng: &mut Rng, cfg: &ProgCfg) -> Prog {
    let (defs, kinds) = gen_defs(rng, cfg, &[]);
    let mut g = Gen::new(cfg);
    g.defs = kinds;
    let actor = if rng.below(100) < cfg.actor_pct {
        Some(gen_actor(rng, &g))
    } else {
        None
    };
    Prog { defs, actor }
}

/// An init-args program (`candid:args` metadata): its own closed definitions (names disjoint from
/// `main`'s) and an argument list that may refer to both.
pub fn gen_init_args(rng: &mut Rng, cfg: &ProgCfg, main: Option<&Prog>) -> InitArgsProg {
    let main_names: Vec<String> = main.map(|m| m.defs.iter().map(|d| d.name.clone()).collect()).unwrap_or_default();
    let (defs, mut kinds) = gen_defs(rng, cfg, &main_names);
    // kinds of the main definitions do not matter for argument positions
    for n in &main_names {
        kinds.push((n.clone(), Kind::Data));
    }
    let mut g = Gen::new(cfg);
    g.defs = kinds;
    let n = rng.usize(cfg.fields.min(3) + 1);
    let args = g.arg_list(rng, cfg.depth, n, &mut Vec::new());
    InitArgsProg { defs, args }
}

/// C18 helper: the same definitions with a synthetic actor `service : { m0 : (D0) -> (D0); … }`
/// having one method per definition (in the order of `prog.defs`).
pub fn with_synthetic_service(p: &Prog) -> Prog {
    let methods = p
        .defs
        .iter()
        .enumerate()
        .map(|(i, d)| Method {
            name: format!("m{i}"),
            ty: MethTy::Func(Func {
                args: vec![ArgTy::plain(Ty::Var(d.name.clone()))],
                rets: vec![ArgTy::plain(Ty::Var(d.name.clone()))],
                modes: vec![],
            }),
            docs: vec![],
        })
        .collect();
    Prog {
        defs: p.defs.clone(),
        actor: Some(Actor {
            name: None,
            init: None,
            body: ActorBody::Service(methods),
            docs: vec![],
        }),
    }
}
