//! Coverage features of a program (which constructs of the grammar it exercises), for the
//! `cover:` counters of the monitors, and a canonical shape string for distinctness hashing.
use super::ast::*;
use super::model::ProgModel;
use crate::model::RType;
use std::collections::BTreeSet;

pub fn features(p: &Prog) -> BTreeSet<&'static str> {
    let mut out = BTreeSet::new();
    fn name_features(n: &str, out: &mut BTreeSet<&'static str>) {
        if !is_ident(n) {
            out.insert("name:non-identifier");
            if n.is_empty() {
                out.insert("name:empty");
            }
            if n.contains('"') || n.contains('\\') {
                out.insert("name:needs-escape");
            }
            if n.chars().any(|c| (c as u32) < 0x20 || c as u32 == 0x7f) {
                out.insert("name:control-char");
            }
            if n.contains('\u{0}') {
                out.insert("name:nul");
                let cs: Vec<char> = n.chars().collect();
                if cs.windows(2).any(|w| w[0] == '\u{0}' && w[1].is_ascii_hexdigit()) {
                    out.insert("name:nul+hexdigit");
                }
            }
            if !n.is_ascii() {
                out.insert("name:non-ascii");
            }
            if n.parse::<u32>().is_ok() {
                out.insert("name:numeric-text");
            }
        } else if RESERVED_TOKENS.contains(&n) {
            out.insert("name:candid-keyword");
            if n == "true" || n == "false" {
                out.insert("name:true-false");
            }
        } else if PRIM_NAMES.contains(&n) {
            out.insert("name:prim-type-name");
        } else if super::gen::FOREIGN_KEYWORDS.contains(&n) {
            out.insert("name:foreign-keyword");
        }
    }
    fn func(f: &Func, out: &mut BTreeSet<&'static str>, depth: usize) {
        for m in &f.modes {
            out.insert(match m {
                FMode::Query => "mode:query",
                FMode::Oneway => "mode:oneway",
                FMode::CompositeQuery => "mode:composite_query",
            });
        }
        for a in f.args.iter().chain(f.rets.iter()) {
            if let Some(n) = &a.name {
                out.insert("arg:named");
                name_features(n, out);
            }
            ty(&a.ty, out, depth + 1);
        }
    }
    fn methods(ms: &[Method], out: &mut BTreeSet<&'static str>, depth: usize) {
        if ms.is_empty() {
            out.insert("service:empty");
        }
        for m in ms {
            name_features(&m.name, out);
            if !m.docs.is_empty() {
                out.insert("docs:method");
            }
            match &m.ty {
                MethTy::Func(f) => {
                    out.insert("method:inline-func");
                    func(f, out, depth + 1)
                }
                MethTy::Var(_) => {
                    out.insert("method:by-name");
                }
                MethTy::Raw(t) => ty(t, out, depth + 1),
            }
        }
    }
    fn ty(t: &Ty, out: &mut BTreeSet<&'static str>, depth: usize) {
        match t {
            Ty::Prim(Prim::Empty) => {
                out.insert("ty:empty");
            }
            Ty::Prim(Prim::Reserved) => {
                out.insert("ty:reserved");
            }
            Ty::Prim(_) => {
                out.insert("ty:prim");
            }
            Ty::Principal => {
                out.insert("ty:principal");
            }
            Ty::Var(_) => {
                out.insert("ty:var");
            }
            Ty::Blob => {
                out.insert("ty:blob");
            }
            Ty::Opt(x) => {
                out.insert("ty:opt");
                ty(x, out, depth + 1)
            }
            Ty::Vec(x) => {
                out.insert("ty:vec");
                if **x == Ty::Prim(Prim::Nat8) {
                    out.insert("ty:vec-nat8-longhand");
                }
                ty(x, out, depth + 1)
            }
            Ty::Record(fs) | Ty::Variant(fs) => {
                let variant = matches!(t, Ty::Variant(_));
                out.insert(if variant { "ty:variant" } else { "ty:record" });
                if depth > 0 {
                    out.insert(if variant { "nested:variant" } else { "nested:record" });
                }
                if depth > 2 {
                    out.insert("nested:deep-fields");
                }
                if fs.is_empty() {
                    out.insert(if variant { "variant:empty" } else { "record:empty" });
                }
                for f in fs {
                    match &f.label {
                        Label::Named(n) => {
                            out.insert("label:named");
                            name_features(n, out);
                        }
                        Label::Id(_) => {
                            out.insert("label:numeric");
                        }
                        Label::Unnamed => {
                            out.insert("label:tuple-shorthand");
                        }
                    }
                    if variant && f.short && f.ty == Ty::Prim(Prim::Null) {
                        out.insert("variant:null-shorthand");
                    }
                    if !f.docs.is_empty() {
                        out.insert("docs:field");
                    }
                    ty(&f.ty, out, depth + 1);
                }
                if !variant
                    && fs.iter().any(|f| f.label == Label::Unnamed)
                    && fs.iter().any(|f| f.label != Label::Unnamed)
                {
                    out.insert("record:mixed-labels");
                }
            }
            Ty::Func(f) => {
                out.insert("ty:func");
                if depth > 0 {
                    out.insert("nested:func");
                }
                func(f, out, depth)
            }
            Ty::Service(ms) => {
                out.insert("ty:service");
                if depth > 0 {
                    out.insert("nested:service");
                }
                methods(ms, out, depth)
            }
        }
    }
    for d in &p.defs {
        if !d.docs.is_empty() {
            out.insert("docs:def");
        }
        if super::gen::FOREIGN_KEYWORDS.contains(&d.name.as_str()) {
            out.insert("def:foreign-keyword-name");
        }
        match &d.ty {
            Ty::Var(_) => {
                out.insert("def:alias-of-def");
            }
            Ty::Prim(_) | Ty::Principal | Ty::Blob => {
                out.insert("def:alias-of-prim");
            }
            Ty::Func(_) => {
                out.insert("def:func");
            }
            Ty::Service(_) => {
                out.insert("def:service");
            }
            _ => {}
        }
        ty(&d.ty, &mut out, 0);
    }
    match &p.actor {
        None => {
            out.insert("actor:none");
        }
        Some(a) => {
            if a.name.is_some() {
                out.insert("actor:named");
            }
            if !a.docs.is_empty() {
                out.insert("docs:actor");
            }
            match (&a.init, &a.body) {
                (None, ActorBody::Service(_)) => out.insert("actor:service"),
                (None, ActorBody::Var(_)) => out.insert("actor:by-name"),
                (Some(_), ActorBody::Service(_)) => out.insert("actor:class-service"),
                (Some(_), ActorBody::Var(_)) => out.insert("actor:class-by-name"),
            };
            if let Some(init) = &a.init {
                for x in init {
                    if let Some(n) = &x.name {
                        out.insert("arg:named");
                        name_features(n, &mut out);
                    }
                    ty(&x.ty, &mut out, 1);
                }
            }
            if let ActorBody::Service(ms) = &a.body {
                methods(ms, &mut out, 0);
            }
        }
    }
    out
}

/// Is some definition recursive (reaches itself)? Are two definitions mutually recursive?
pub fn recursion(pm: &ProgModel) -> (bool, bool) {
    let n = pm.env.0.len();
    fn refs(t: &RType, out: &mut Vec<usize>) {
        match t {
            RType::Ref(i) => out.push(*i),
            RType::Opt(x) | RType::Vec(x) => refs(x, out),
            RType::Record(fs) | RType::Variant(fs) => fs.iter().for_each(|f| refs(&f.1, out)),
            RType::Func { args, rets, .. } => args.iter().chain(rets.iter()).for_each(|x| refs(x, out)),
            RType::Service(ms) => ms.iter().for_each(|m| refs(&m.1, out)),
            _ => {}
        }
    }
    let mut reach = vec![vec![false; n]; n];
    for i in 0..n {
        let mut r = Vec::new();
        refs(&pm.env.0[i], &mut r);
        for j in r {
            reach[i][j] = true;
        }
    }
    for k in 0..n {
        for i in 0..n {
            for j in 0..n {
                if reach[i][k] && reach[k][j] {
                    reach[i][j] = true;
                }
            }
        }
    }
    let rec = (0..n).any(|i| reach[i][i]);
    let mutual = (0..n).any(|i| (0..n).any(|j| i != j && reach[i][j] && reach[j][i]));
    (rec, mutual)
}

/// Canonical shape (names and ids abstracted) for `ctx.nontrivial`.
pub fn shape_hash(pm: &ProgModel) -> u64 {
    let mut s = String::new();
    for i in 0..pm.env.0.len() {
        s.push_str(&crate::mon::common::shape(&pm.env, &RType::Ref(i), 4));
        s.push('\n');
    }
    if let Some((init, serv)) = &pm.actor {
        for t in init {
            s.push_str(&crate::mon::common::shape(&pm.env, t, 4));
            s.push(',');
        }
        s.push_str("->");
        s.push_str(&crate::mon::common::shape(&pm.env, serv, 4));
    }
    crate::rng::hash_str(&s)
}
