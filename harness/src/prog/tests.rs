use super::*;
use crate::rng::Rng;

fn cfg_for(i: u64, rng: &mut Rng) -> ProgCfg {
    match i % 4 {
        0 => ProgCfg::default(),
        1 => ProgCfg {
            hostile_names: true,
            case_collisions: true,
            docs: DocKind::Hostile,
            ..ProgCfg::default()
        },
        _ => ProgCfg::random(rng),
    }
}

#[test]
fn generated_programs_are_accepted_and_mean_what_the_model_says() {
    crate::ctx::on_thread(16 << 20, accepted_body).unwrap();
}
fn accepted_body() {
    let mut rejected = 0;
    let mut differs = 0;
    let n = 6000;
    for i in 0..n {
        let mut rng = Rng::new(i);
        let cfg = cfg_for(i, &mut rng);
        let p = gen_prog(&mut rng, &cfg);
        if let Err(e) = well_formed(&p) {
            panic!("generator produced an ill-formed program ({e}):\n{}", plain(&p));
        }
        let pc = PrintCfg::random(&mut rng);
        let text = print_prog(&p, &pc, &mut rng);
        match parse_check(&text) {
            Err(e) => {
                rejected += 1;
                if rejected < 8 {
                    println!("=== REJECTED [{}] {}\n{}\n--- plain:\n{}", e.stage(), e.message(), text, plain(&p));
                }
            }
            Ok((env, actor, _)) => {
                let pm = to_model(&p);
                if let Some(d) = diff_model(&pm, &env, &actor) {
                    differs += 1;
                    if differs < 8 {
                        println!("=== DIFFERS {d}\n{}\n--- plain:\n{}", text, plain(&p));
                    }
                }
            }
        }
    }
    println!("rejected {rejected} differs {differs} of {n}");
    assert_eq!((rejected, differs), (0, 0));
}

#[test]
fn mutants_are_ill_formed_and_lookalikes_well_formed() {
    crate::ctx::on_thread(16 << 20, mutants_body).unwrap();
}
fn mutants_body() {
    let mut kinds = std::collections::BTreeMap::new();
    let mut accepted = std::collections::BTreeMap::new();
    let mut look_rejected = 0;
    for i in 0..6000u64 {
        let mut rng = Rng::new(1_000_000 + i);
        let cfg = cfg_for(i, &mut rng);
        let p = gen_prog(&mut rng, &cfg);
        if let Some(m) = gen_mutant(&mut rng, &p) {
            *kinds.entry(m.kind.class()).or_insert(0u32) += 1;
            let text = print_prog(&m.prog, &PrintCfg::random(&mut rng), &mut rng);
            if parse_check(&text).is_ok() {
                let e = accepted.entry(format!("{}|{}", m.kind.class(), m.position)).or_insert(0u32);
                *e += 1;
                if *e == 1 {
                    println!("=== ACCEPTED MUTANT {} at {} ({})\n{}", m.kind.class(), m.position, m.reason, plain(&m.prog));
                }
            }
        }
        if let Some((q, k)) = gen_lookalike(&mut rng, &p) {
            *kinds.entry(format!("look:{k:?}")).or_insert(0u32) += 1;
            let text = print_prog(&q, &PrintCfg::random(&mut rng), &mut rng);
            if let Err(e) = parse_check(&text) {
                look_rejected += 1;
                if look_rejected < 6 {
                    println!("=== REJECTED LOOKALIKE {k:?} [{}] {}\n{}", e.stage(), e.message(), text);
                }
            }
        }
    }
    println!("{kinds:#?}");
    println!("accepted mutants: {accepted:#?}");
    println!("rejected lookalikes: {look_rejected}");
}

#[test]
fn colliding_pairs_collide() {
    let ps = colliding_pairs();
    assert!(ps.len() >= 8);
    for (a, b) in ps {
        assert_ne!(a, b);
        assert_eq!(crate::model::misc::label_hash(a), crate::model::misc::label_hash(b));
    }
}

/// Doc comments printed above definitions, the actor, and identifier-labelled fields/methods are the
/// ones candid's parser attaches to them.
#[test]
fn docs_arrive() {
    use candid_parser::syntax::{Dec, IDLType};
    let mut checked = 0;
    let mut quoted_lost = 0;
    let mut quoted_kept = 0;
    for i in 0..1500u64 {
        let mut rng = Rng::new(77_000 + i);
        let cfg = ProgCfg {
            docs: if i % 2 == 0 { DocKind::Hostile } else { DocKind::Benign },
            hostile_names: i % 3 == 0,
            ..ProgCfg::default()
        };
        let p = gen_prog(&mut rng, &cfg);
        let mut pc = PrintCfg::random(&mut rng);
        pc.quote_pct = 0;
        let text = print_prog(&p, &pc, &mut rng);
        let (_, _, ast) = match parse_check(&text) {
            Ok(x) => x,
            Err(e) => panic!("rejected: {}\n{text}", e.message()),
        };
        for dec in &ast.decs {
            if let Dec::TypD(b) = dec {
                let d = p.def(&b.id).unwrap();
                assert_eq!(b.docs, d.docs, "docs of definition {}\n{text}", b.id);
                checked += 1;
                // one level of fields / methods
                match (&b.typ, &d.ty) {
                    (IDLType::RecordT(cfs), Ty::Record(fs)) | (IDLType::VariantT(cfs), Ty::Variant(fs)) => {
                        let ids = super::model::field_ids(fs).unwrap();
                        for (f, id) in fs.iter().zip(ids.iter()) {
                            let cf = cfs.iter().find(|c| c.label.get_id() == *id).unwrap();
                            let bare = match &f.label {
                                Label::Named(n) => bare_ok(n),
                                _ => true,
                            };
                            if bare {
                                assert_eq!(cf.docs, f.docs, "docs of field {id} of {}\n{text}", b.id);
                                checked += 1;
                            } else if cf.docs == f.docs {
                                quoted_kept += 1;
                            } else {
                                quoted_lost += 1;
                            }
                        }
                    }
                    (IDLType::ServT(cms), Ty::Service(ms)) => {
                        for m in ms {
                            let cm = cms.iter().find(|c| c.id == m.name).unwrap();
                            if bare_ok(&m.name) {
                                assert_eq!(cm.docs, m.docs, "docs of method {} of {}\n{text}", m.name, b.id);
                                checked += 1;
                            }
                        }
                    }
                    _ => {}
                }
            }
        }
        if let (Some(a), Some(ca)) = (&p.actor, &ast.actor) {
            assert_eq!(ca.docs, a.docs, "docs of the actor\n{text}");
            checked += 1;
        }
    }
    println!("docs checked {checked}; quoted labels: docs kept {quoted_kept}, lost {quoted_lost}");
    assert!(checked > 3000);
}

/// Prints what candid does with the minimal witnesses of the findings (run with --ignored --nocapture).
#[test]
#[ignore]
fn minimal_witnesses() {
    crate::ctx::on_thread(8 << 20, || {
        for src in [
            "service : { \"true\" : () -> () }",
            "type T = record { \"false\" : nat };",
            "service : { \"\\u{0}\" : () -> () }",
            "type T = record { \"\\u{0}1\" : nat; \"\\u{2}\" : nat };",
            "type F = func (service { m : F }) -> ();",
            "type F = func (\"1\" : nat, \"1\" : nat) -> ();",
            "type F = func (\"a\" : nat, a : nat) -> ();",
        ] {
            match parse_check(src) {
                Err(e) => println!("SRC {src}\n   -> rejected [{}] {}", e.stage(), e.message()),
                Ok((env, actor, ast)) => {
                    let t1 = candid::pretty::candid::compile(&env, &actor);
                    let t2 = candid_parser::syntax::pretty_print(&candid_parser::syntax::IDLMergedProg::new(ast));
                    for (n, t) in [("compile", t1), ("pretty_print", t2)] {
                        let r = match parse_check(&t) {
                            Ok(_) => "reparses".to_string(),
                            Err(e) => format!("REPARSE FAILS: {}", e.message()),
                        };
                        println!("SRC {src}\n   -> accepted; {n} = {:?} {r}", t);
                    }
                }
            }
        }
    })
    .unwrap();
}
