//! worker <prop> --seed N --shard i --nshards n --tier quick|thorough --lane D|R|A|V
//!        --budget SECONDS --max-cases N --out FILE [--journal FILE] [--only CASE]
use std::time::Instant;
use vh::ctx::{install_panic_hook, write_out, Ctx, Tier};

#[cfg(not(feature = "plain_alloc"))]
#[global_allocator]
static GLOBAL: vh::alloc::Counting = vh::alloc::Counting;

fn main() {
    let args: Vec<String> = std::env::args().collect();
    if args.len() < 2 {
        eprintln!("usage: worker <prop> [options]");
        std::process::exit(2);
    }
    let prop = args[1].clone();
    let mut seed = 0u64;
    let mut shard = 0u64;
    let mut nshards = 1u64;
    let mut tier = Tier::Quick;
    let mut lane = "D".to_string();
    let mut budget = 10.0f64;
    let mut max_cases = u64::MAX >> 8;
    let mut out = None;
    let mut journal = None;
    let mut only = None;
    let mut i = 2;
    while i < args.len() {
        let v = args.get(i + 1).cloned().unwrap_or_default();
        match args[i].as_str() {
            "--seed" => seed = v.parse().unwrap(),
            "--shard" => shard = v.parse().unwrap(),
            "--nshards" => nshards = v.parse().unwrap(),
            "--tier" => tier = if v == "thorough" { Tier::Thorough } else { Tier::Quick },
            "--lane" => lane = v.clone(),
            "--budget" => budget = v.parse().unwrap(),
            "--max-cases" => max_cases = v.parse().unwrap(),
            "--out" => out = Some(v.clone()),
            "--journal" => journal = Some(v.clone()),
            "--only" => only = Some(v.parse::<u64>().unwrap()),
            x => {
                eprintln!("unknown option {x}");
                std::process::exit(2);
            }
        }
        i += 2;
    }
    // anyhow captures (and later symbolises) a backtrace for every error when these are set: that would
    // dominate the allocation and time measurements of the monitors
    std::env::set_var("RUST_BACKTRACE", "0");
    std::env::set_var("RUST_LIB_BACKTRACE", "0");
    #[cfg(not(miri))]
    if lane != "A" && lane != "V" && lane != "M" {
        // a runaway allocation becomes an allocation failure (process death attributed to the journalled case)
        // instead of taking the machine down; the sanitizer lanes need the address space for themselves
        let lim = libc::rlimit {
            rlim_cur: 24 << 30,
            rlim_max: 24 << 30,
        };
        unsafe {
            libc::setrlimit(libc::RLIMIT_AS, &lim);
        }
    }
    install_panic_hook();
    let started = Instant::now();
    let stack = 1usize << 30; // the case loop runs on a 1 GiB stack; monitors choose smaller ones per case
    let handle = std::thread::Builder::new()
        .stack_size(stack)
        .spawn(move || {
            let mut ctx = Ctx::new(
                &prop,
                seed,
                shard,
                nshards,
                tier,
                &lane,
                only,
                budget,
                max_cases,
                journal.as_deref(),
            );
            if !vh::mon::dispatch(&prop, &mut ctx) {
                eprintln!("unknown property {prop}");
                std::process::exit(2);
            }
            ctx
        })
        .unwrap();
    let ctx = match handle.join() {
        Ok(c) => c,
        Err(_) => {
            eprintln!("worker thread panicked outside a case");
            std::process::exit(3);
        }
    };
    let wall = started.elapsed().as_secs_f64();
    let only_mode = ctx.only.is_some();
    let v = ctx.finish(wall);
    if only_mode {
        println!("{}", serde_json::to_string_pretty(&v["violations"]).unwrap());
    }
    if let Some(out) = out {
        write_out(&out, &v);
    } else if !only_mode {
        let mut v2 = v.clone();
        v2["nontrivial"] = serde_json::json!(v["nontrivial"].as_array().map(|a| a.len()).unwrap_or(0));
        println!("{}", serde_json::to_string_pretty(&v2).unwrap());
    }
}
