//! bindprobe <file.did> [js|ts|mo|rs|rs-agent|rs-stub]… — print what the binding generators emit for a
//! program (debugging aid for C17-C19 witnesses; not used by ./check).
use candid_parser::bindings::{javascript, motoko, rust, typescript};
use candid_parser::syntax::{IDLMergedProg, IDLProg};
use std::str::FromStr;

fn main() {
    let args: Vec<String> = std::env::args().collect();
    let text = std::fs::read_to_string(&args[1]).expect("read");
    let ast: IDLProg = text.parse().expect("parse");
    let mut env = candid::TypeEnv::new();
    let actor = candid_parser::typing::check_prog(&mut env, &ast).expect("check");
    let prog = IDLMergedProg::new(ast);
    let which: Vec<&str> = if args.len() > 2 { args[2..].iter().map(|s| s.as_str()).collect() } else { vec!["js", "ts", "mo", "rs"] };
    for w in which {
        println!("===== {w}");
        let r = std::panic::catch_unwind(std::panic::AssertUnwindSafe(|| match w {
            "js" => javascript::compile(&env, &actor),
            "ts" => typescript::compile(&env, &actor, &prog),
            "mo" => motoko::compile(&env, &actor, &prog),
            t => {
                let cfg = rust::Config::new(candid_parser::configs::Configs::from_str("").unwrap());
                let mut e = rust::ExternalConfig::default();
                let target = match t {
                    "rs-agent" => "agent",
                    "rs-stub" => "stub",
                    _ => "canister_call",
                };
                e.0.insert("target".to_string(), target.to_string());
                rust::compile(&cfg, &env, &actor, &prog, e).0
            }
        }));
        match r {
            Ok(s) => println!("{s}"),
            Err(_) => println!("<panic>"),
        }
    }
}
