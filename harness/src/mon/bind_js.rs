//! Shared by C17/C19: path resolution, the node batch executor and the conversion of the recorded
//! type graphs (js/idl_recorder.mjs, rsbind probe) into model types.
use crate::ctx::Ctx;
use crate::model::*;
use serde_json::Value;
use std::collections::{BTreeMap, HashSet};
use std::path::{Path, PathBuf};
use std::process::Command;

/// Root of the verification tree (contains harness/, js/, rsbind/): env VERIF_ROOT, else the parent
/// of the harness crate directory recorded at compile time.
pub fn verif_root() -> PathBuf {
    if let Ok(r) = std::env::var("VERIF_ROOT") {
        if !r.is_empty() {
            return PathBuf::from(r);
        }
    }
    Path::new(env!("CARGO_MANIFEST_DIR"))
        .parent()
        .map(|p| p.to_path_buf())
        .unwrap_or_else(|| PathBuf::from("."))
}

/// Per-worker scratch directory: $VERIF_SCRATCH or <root>/work/scratch, then <prop>-<lane>-<shard>-<pid>.
pub fn scratch_dir(ctx: &Ctx) -> PathBuf {
    let base = match std::env::var("VERIF_SCRATCH") {
        Ok(s) if !s.is_empty() => PathBuf::from(s),
        _ => verif_root().join("work").join("scratch"),
    };
    base.join(format!("{}-{}-{}-{}", ctx.prop, ctx.lane, ctx.shard, std::process::id()))
}

pub fn node_path() -> String {
    match std::env::var("VERIF_NODE") {
        Ok(s) if !s.is_empty() => s,
        _ => "node".to_string(),
    }
}

/// `node --version` works?
pub fn node_available() -> bool {
    Command::new(node_path())
        .arg("--version")
        .output()
        .map(|o| o.status.success())
        .unwrap_or(false)
}

#[derive(Clone, Debug)]
pub struct JsGraphs {
    pub env: REnv,
    pub roots: Vec<RType>,
    /// problems found while converting (duplicate field ids, unknown annotations, unfilled Rec)
    pub notes: Vec<String>,
}

#[derive(Clone, Debug)]
pub enum JsResult {
    Loaded {
        service: Option<JsGraphs>,
        init: Option<JsGraphs>,
    },
    Failed {
        stage: String,
        name: String,
        message: String,
    },
}

pub fn graph_to_model(g: &Value) -> Result<JsGraphs, String> {
    let nodes = g["nodes"].as_array().ok_or("graph without nodes")?;
    let mut env = REnv::new();
    let mut notes = Vec::new();
    let idx = |v: &Value| -> Result<RType, String> {
        let i = v.as_u64().ok_or("node reference is not a number")? as usize;
        if i >= nodes.len() {
            return Err("node reference out of range".into());
        }
        Ok(RType::Ref(i))
    };
    for n in nodes {
        let k = n["k"].as_str().ok_or("node without kind")?;
        let t = match k {
            "null" => RType::Null,
            "bool" => RType::Bool,
            "nat" => RType::Nat,
            "int" => RType::Int,
            "nat8" => RType::Nat8,
            "nat16" => RType::Nat16,
            "nat32" => RType::Nat32,
            "nat64" => RType::Nat64,
            "int8" => RType::Int8,
            "int16" => RType::Int16,
            "int32" => RType::Int32,
            "int64" => RType::Int64,
            "float32" => RType::Float32,
            "float64" => RType::Float64,
            "text" => RType::Text,
            "reserved" => RType::Reserved,
            "empty" => RType::Empty,
            "principal" => RType::Principal,
            "opt" => RType::opt(idx(&n["t"])?),
            "vec" => RType::vec(idx(&n["t"])?),
            "record" | "variant" => {
                let mut fs = Vec::new();
                for f in n["f"].as_array().ok_or("fields")? {
                    let id = f[0].as_u64().ok_or("field id")?;
                    if id > u32::MAX as u64 {
                        return Err("field id out of range".into());
                    }
                    fs.push((id as u32, idx(&f[1])?));
                }
                fs.sort_by_key(|f| f.0);
                if fs.windows(2).any(|w| w[0].0 == w[1].0) {
                    notes.push("duplicate-field-id".to_string());
                }
                if k == "record" {
                    RType::Record(fs)
                } else {
                    RType::Variant(fs)
                }
            }
            "func" => {
                let mut args = Vec::new();
                for a in n["a"].as_array().ok_or("args")? {
                    args.push(idx(a)?);
                }
                let mut rets = Vec::new();
                for a in n["r"].as_array().ok_or("rets")? {
                    rets.push(idx(a)?);
                }
                let mut modes = Vec::new();
                for m in n["m"].as_array().ok_or("modes")? {
                    match m.as_str() {
                        Some("query") => modes.push(Mode::Query),
                        Some("oneway") => modes.push(Mode::Oneway),
                        Some("composite_query") => modes.push(Mode::CompositeQuery),
                        other => notes.push(format!("unknown-annotation:{other:?}")),
                    }
                }
                RType::Func { args, rets, modes }
            }
            "service" => {
                let mut ms = Vec::new();
                for m in n["m"].as_array().ok_or("methods")? {
                    ms.push((m[0].as_str().ok_or("method name")?.to_string(), idx(&m[1])?));
                }
                RType::service(ms)
            }
            "rec" => {
                if n["t"].is_null() {
                    notes.push("rec-never-filled".to_string());
                    RType::Future
                } else {
                    idx(&n["t"])?
                }
            }
            other => return Err(format!("unknown node kind {other}")),
        };
        env.0.push(t);
    }
    let mut roots = Vec::new();
    for r in g["roots"].as_array().ok_or("roots")? {
        roots.push(idx(r)?);
    }
    Ok(JsGraphs { env, roots, notes })
}

#[derive(Debug)]
pub enum NodeError {
    Missing,
    Failed(String),
}

/// Write `modules` (file stem, source) into a fresh directory under `dir`, run the batch runner and
/// return the result per file stem.
pub fn run_node_batch(dir: &Path, modules: &[(String, String)]) -> Result<BTreeMap<String, JsResult>, NodeError> {
    let _ = std::fs::remove_dir_all(dir);
    std::fs::create_dir_all(dir).map_err(|e| NodeError::Failed(format!("mkdir {dir:?}: {e}")))?;
    for (stem, src) in modules {
        std::fs::write(dir.join(format!("{stem}.mjs")), src)
            .map_err(|e| NodeError::Failed(format!("write module: {e}")))?;
    }
    let runner = verif_root().join("js").join("run_batch.mjs");
    let out = match Command::new(node_path()).arg(&runner).arg(dir).output() {
        Ok(o) => o,
        Err(e) if e.kind() == std::io::ErrorKind::NotFound => return Err(NodeError::Missing),
        Err(e) => return Err(NodeError::Failed(format!("spawn node: {e}"))),
    };
    if !out.status.success() {
        return Err(NodeError::Failed(format!(
            "node exited with {:?}: {}",
            out.status.code(),
            String::from_utf8_lossy(&out.stderr).chars().take(600).collect::<String>()
        )));
    }
    let text = String::from_utf8_lossy(&out.stdout);
    let mut res = BTreeMap::new();
    for line in text.lines() {
        let v: Value = serde_json::from_str(line).map_err(|e| NodeError::Failed(format!("bad runner line: {e}")))?;
        let stem = v["file"].as_str().unwrap_or("").trim_end_matches(".mjs").to_string();
        let r = if v["ok"].as_bool() == Some(true) {
            let conv = |g: &Value| -> Result<Option<JsGraphs>, NodeError> {
                if g.is_null() {
                    Ok(None)
                } else {
                    graph_to_model(g).map(Some).map_err(NodeError::Failed)
                }
            };
            JsResult::Loaded {
                service: conv(&v["service"])?,
                init: conv(&v["init"])?,
            }
        } else {
            JsResult::Failed {
                stage: v["stage"].as_str().unwrap_or("?").to_string(),
                name: v["error"]["name"].as_str().unwrap_or("?").to_string(),
                message: v["error"]["message"].as_str().unwrap_or("").to_string(),
            }
        };
        res.insert(stem, r);
    }
    let _ = std::fs::remove_dir_all(dir);
    Ok(res)
}

/// Normalise a JS error message into a class: quoted fragments are blanked (except a few telling ones).
pub fn js_error_class(message: &str) -> String {
    let first = message.lines().next().unwrap_or("");
    let mut out = String::new();
    let mut in_q = false;
    let mut cur = String::new();
    for c in first.chars() {
        if c == '\'' {
            if in_q {
                if cur == "IDL" {
                    out.push_str("IDL");
                } else {
                    out.push('_');
                }
                cur.clear();
            }
            in_q = !in_q;
            out.push('\'');
        } else if in_q {
            cur.push(c);
        } else if !c.is_ascii_digit() {
            out.push(c);
        }
    }
    out.chars().take(90).collect()
}

fn kind_name(t: &RType) -> &'static str {
    match t {
        RType::Opt(_) => "opt",
        RType::Vec(_) => "vec",
        RType::Record(_) => "record",
        RType::Variant(_) => "variant",
        RType::Func { .. } => "func",
        RType::Service(_) => "service",
        RType::Future => "unfilled-rec",
        RType::Ref(_) => "ref",
        _ => "prim",
    }
}

#[derive(Clone, Debug)]
pub struct Diff {
    pub class: String,
    pub path: String,
    /// the differing sub-terms: expected (in the expected env) and observed (in the observed env)
    pub expected: RType,
    pub observed: RType,
    /// field ids expected but not observed / observed but not expected / all observed (at the differing node)
    pub missing_ids: Vec<u32>,
    pub extra_ids: Vec<u32>,
    pub observed_ids: Vec<u32>,
    pub missing_methods: Vec<String>,
    pub extra_methods: Vec<String>,
}

impl Default for Diff {
    fn default() -> Self {
        Diff {
            class: String::new(),
            path: String::new(),
            expected: RType::Future,
            observed: RType::Future,
            missing_ids: vec![],
            extra_ids: vec![],
            observed_ids: vec![],
            missing_methods: vec![],
            extra_methods: vec![],
        }
    }
}

struct Walk<'a> {
    e1: &'a REnv,
    e2: &'a REnv,
    seen: HashSet<(RType, RType)>,
    out: Vec<Diff>,
    limit: usize,
}

impl<'a> Walk<'a> {
    fn push(&mut self, class: String, path: String, a: &RType, b: &RType) -> &mut Diff {
        self.out.push(Diff {
            class,
            path,
            expected: a.clone(),
            observed: b.clone(),
            ..Diff::default()
        });
        self.out.last_mut().unwrap()
    }
    fn go(&mut self, a: &RType, b: &RType, path: &str) {
        if self.out.len() >= self.limit || !self.seen.insert((a.clone(), b.clone())) {
            return;
        }
        let (e1, e2) = (self.e1, self.e2);
        let (Some(x), Some(y)) = (e1.unfold(a), e2.unfold(b)) else {
            self.push("vacuous-or-dangling".into(), path.to_string(), a, b);
            return;
        };
        match (x, y) {
            (RType::Opt(p), RType::Opt(q)) | (RType::Vec(p), RType::Vec(q)) => {
                self.go(p, q, &format!("{path}.{}", kind_name(x)));
            }
            (RType::Record(f1), RType::Record(f2)) | (RType::Variant(f1), RType::Variant(f2)) => {
                let i1: Vec<u32> = f1.iter().map(|f| f.0).collect();
                let i2: Vec<u32> = f2.iter().map(|f| f.0).collect();
                if i1 != i2 {
                    let missing: Vec<u32> = i1.iter().filter(|i| !i2.contains(i)).cloned().collect();
                    let extra: Vec<u32> = i2.iter().filter(|i| !i1.contains(i)).cloned().collect();
                    let class = match (!missing.is_empty(), !extra.is_empty()) {
                        (true, true) => "field-ids-differ",
                        (true, false) => "fields-missing",
                        (false, true) => "fields-extra",
                        _ => "fields-duplicated",
                    };
                    let d = self.push(
                        format!("{}-{class}", kind_name(x)),
                        format!("{path}: expected ids {i1:?}, observed {i2:?}"),
                        a,
                        b,
                    );
                    d.missing_ids = missing;
                    d.extra_ids = extra;
                    d.observed_ids = i2.clone();
                }
                // keep comparing the fields both sides have
                for (i, p) in f1.iter() {
                    let mut it = f2.iter().filter(|f| f.0 == *i);
                    if let (Some((_, q)), None) = (it.next(), it.next()) {
                        self.go(p, q, &format!("{path}.{i}"));
                    }
                }
            }
            (
                RType::Func {
                    args: a1,
                    rets: r1,
                    modes: m1,
                },
                RType::Func {
                    args: a2,
                    rets: r2,
                    modes: m2,
                },
            ) => {
                if m1 != m2 {
                    self.push("func-modes".into(), format!("{path}: expected {m1:?}, observed {m2:?}"), a, b);
                }
                if a1.len() != a2.len() || r1.len() != r2.len() {
                    self.push(
                        "func-arity".into(),
                        format!("{path}: expected {}->{}, observed {}->{}", a1.len(), r1.len(), a2.len(), r2.len()),
                        a,
                        b,
                    );
                    return;
                }
                for (k, (p, q)) in a1.iter().zip(a2.iter()).enumerate() {
                    self.go(p, q, &format!("{path}.arg{k}"));
                }
                for (k, (p, q)) in r1.iter().zip(r2.iter()).enumerate() {
                    self.go(p, q, &format!("{path}.ret{k}"));
                }
            }
            (RType::Service(m1), RType::Service(m2)) => {
                let n1: Vec<&String> = m1.iter().map(|m| &m.0).collect();
                let n2: Vec<&String> = m2.iter().map(|m| &m.0).collect();
                if n1 != n2 {
                    let missing: Vec<String> = n1.iter().filter(|i| !n2.contains(i)).map(|s| s.to_string()).collect();
                    let extra: Vec<String> = n2.iter().filter(|i| !n1.contains(i)).map(|s| s.to_string()).collect();
                    let class = match (!missing.is_empty(), !extra.is_empty()) {
                        (true, true) => "method-names-differ",
                        (true, false) => "methods-missing",
                        (false, true) => "methods-extra",
                        _ => "methods-reordered",
                    };
                    let d = self.push(
                        format!("service-{class}"),
                        format!("{path}: expected methods {n1:?}, observed {n2:?}"),
                        a,
                        b,
                    );
                    d.missing_methods = missing;
                    d.extra_methods = extra;
                }
                for (n, p) in m1.iter() {
                    if let Some((_, q)) = m2.iter().find(|m| m.0 == *n) {
                        self.go(p, q, &format!("{path}.{n:?}"));
                    }
                }
            }
            (x, y) if x.is_prim() && x == y => {}
            (x, y) if x.is_prim() && y.is_prim() => {
                self.push(format!("prim:{x}-vs-{y}"), format!("{path}: expected {x}, observed {y}"), a, b);
            }
            (x, y) => {
                self.push(
                    format!("kind:{}-vs-{}", kind_name(x), kind_name(y)),
                    format!("{path}: expected {x}, observed {y}"),
                    a,
                    b,
                );
            }
        }
    }
}

/// All structural differences (up to `limit`) between (e1,t1) = expected and (e2,t2) = observed.
pub fn diff_all_types(e1: &REnv, t1: &RType, e2: &REnv, t2: &RType, limit: usize) -> Vec<Diff> {
    let mut w = Walk {
        e1,
        e2,
        seen: HashSet::new(),
        out: Vec::new(),
        limit,
    };
    w.go(t1, t2, "");
    w.out
}

/// First structural difference; `None` when the walk finds none (then requal2 said "equal").
pub fn diff_types(e1: &REnv, t1: &RType, e2: &REnv, t2: &RType) -> Option<Diff> {
    diff_all_types(e1, t1, e2, t2, 1).into_iter().next()
}
