//! C09 monitor (not written yet).
use crate::ctx::Ctx;

pub fn run(_ctx: &mut Ctx) {}
