//! C09 — unbounded and 128-bit integer codecs implement (S)LEB128 exactly.
use crate::ctx::{catch, hex, Ctx};
use crate::gen::values::{gen_bigint, gen_biguint};
use crate::model::leb::*;
use crate::rng::{hash_bytes, Rng};
use candid::types::leb128 as cleb;
use candid::{Decode, Encode, IDLArgs, Int, Nat};
use num_bigint::{BigInt, BigUint};
use serde_json::json;
use std::collections::BTreeMap;

const SENTINEL: u8 = 0xAB;

fn u128_of(v: &BigUint) -> Option<u128> {
    let d = v.to_u64_digits();
    match d.len() {
        0 => Some(0),
        1 => Some(d[0] as u128),
        2 => Some(d[0] as u128 | (d[1] as u128) << 64),
        _ => None,
    }
}
fn i128_of(v: &BigInt) -> Option<i128> {
    let min = BigInt::from(i128::MIN);
    let max = BigInt::from(i128::MAX);
    if *v < min || *v > max {
        return None;
    }
    let (sign, mag) = v.clone().into_parts();
    let m = u128_of(&mag)?;
    Some(if sign == num_bigint::Sign::Minus {
        (m as i128).wrapping_neg()
    } else {
        m as i128
    })
}

fn class(s: &[u8]) -> String {
    let n = s.iter().position(|b| b & 0x80 == 0).map(|p| p + 1);
    match n {
        None => format!("unterminated-len{}", s.len().min(41)),
        Some(n) => {
            let bucket = match n {
                0..=3 => "1-3",
                4..=8 => "4-8",
                9 => "9",
                10 => "10",
                11..=17 => "11-17",
                18 => "18",
                19 => "19",
                20 => "20",
                21..=24 => "21-24",
                _ => "25+",
            };
            format!("len{bucket}")
        }
    }
}

/// Check every decoder on the byte string `s` (a number possibly followed by other bytes).
pub fn check_string(ctx: &mut Ctx, s: &[u8], deep: bool) {
    let want_u = decode_leb(s).ok();
    let want_s = decode_sleb(s).ok();
    let cls = class(s);
    let input = || json!({"bytes": hex(s)});
    // ---- standalone bignum decoders
    {
        let mut r: &[u8] = s;
        let got = catch(|| Nat::decode(&mut r).map(|n| (n, s.len() - r.len())));
        match (got, &want_u) {
            (Err(p), _) => ctx.violation(&format!("panic|Nat::decode|{}|{cls}", p.location), &p.message, input()),
            (Ok(Ok((n, used))), Some((v, k))) => {
                if n.0 != *v || used != *k {
                    ctx.violation(
                        &format!("wrong-value|Nat::decode|{cls}"),
                        &format!("got {} consumed {used}, want {v} consumed {k}", n.0),
                        input(),
                    );
                }
            }
            (Ok(Ok((n, _))), None) => ctx.violation(
                &format!("accept-unterminated|Nat::decode|{cls}"),
                &format!("returned {} for an unterminated string", n.0),
                input(),
            ),
            (Ok(Err(e)), Some((v, _))) => ctx.violation(
                &format!("reject-valid|Nat::decode|{cls}"),
                &format!("error {e} but the string denotes {v}"),
                input(),
            ),
            (Ok(Err(_)), None) => {}
        }
    }
    {
        let mut r: &[u8] = s;
        let got = catch(|| Int::decode(&mut r).map(|n| (n, s.len() - r.len())));
        match (got, &want_s) {
            (Err(p), _) => ctx.violation(&format!("panic|Int::decode|{}|{cls}", p.location), &p.message, input()),
            (Ok(Ok((n, used))), Some((v, k))) => {
                if n.0 != *v || used != *k {
                    ctx.violation(
                        &format!("wrong-value|Int::decode|{cls}"),
                        &format!("got {} consumed {used}, want {v} consumed {k}", n.0),
                        input(),
                    );
                }
            }
            (Ok(Ok((n, _))), None) => ctx.violation(
                &format!("accept-unterminated|Int::decode|{cls}"),
                &format!("returned {} for an unterminated string", n.0),
                input(),
            ),
            (Ok(Err(e)), Some((v, _))) => ctx.violation(
                &format!("reject-valid|Int::decode|{cls}"),
                &format!("error {e} but the string denotes {v}"),
                input(),
            ),
            (Ok(Err(_)), None) => {}
        }
    }
    // ---- 128-bit decoders
    {
        let mut r: &[u8] = s;
        let got = catch(|| cleb::decode_nat(&mut r).map(|n| (n, s.len() - r.len())));
        let want = want_u.as_ref().map(|(v, k)| (u128_of(v), *k));
        match (got, want) {
            (Err(p), _) => ctx.violation(&format!("panic|decode_nat|{}|{cls}", p.location), &p.message, input()),
            (Ok(Ok((n, used))), Some((Some(v), k))) => {
                if n != v || used != k {
                    ctx.violation(
                        &format!("wrong-value|decode_nat|{cls}"),
                        &format!("got {n} consumed {used}, want {v} consumed {k}"),
                        input(),
                    );
                }
            }
            (Ok(Ok((n, _))), Some((None, _))) => ctx.violation(
                &format!("accept-out-of-range|decode_nat|{cls}"),
                &format!("returned {n} but the value {} does not fit u128", want_u.as_ref().unwrap().0),
                input(),
            ),
            (Ok(Ok((n, _))), None) => ctx.violation(
                &format!("accept-unterminated|decode_nat|{cls}"),
                &format!("returned {n} for an unterminated string"),
                input(),
            ),
            (Ok(Err(e)), Some((Some(v), _))) => ctx.violation(
                &format!("reject-in-range|decode_nat|{cls}"),
                &format!("error {e} but the string denotes {v} which fits u128"),
                input(),
            ),
            (Ok(Err(_)), _) => {}
        }
    }
    {
        let mut r: &[u8] = s;
        let got = catch(|| cleb::decode_int(&mut r).map(|n| (n, s.len() - r.len())));
        let want = want_s.as_ref().map(|(v, k)| (i128_of(v), *k));
        match (got, want) {
            (Err(p), _) => ctx.violation(&format!("panic|decode_int|{}|{cls}", p.location), &p.message, input()),
            (Ok(Ok((n, used))), Some((Some(v), k))) => {
                if n != v || used != k {
                    ctx.violation(
                        &format!("wrong-value|decode_int|{cls}"),
                        &format!("got {n} consumed {used}, want {v} consumed {k}"),
                        input(),
                    );
                }
            }
            (Ok(Ok((n, _))), Some((None, _))) => ctx.violation(
                &format!("accept-out-of-range|decode_int|{cls}"),
                &format!("returned {n} but the value {} does not fit i128", want_s.as_ref().unwrap().0),
                input(),
            ),
            (Ok(Ok((n, _))), None) => ctx.violation(
                &format!("accept-unterminated|decode_int|{cls}"),
                &format!("returned {n} for an unterminated string"),
                input(),
            ),
            (Ok(Err(e)), Some((Some(v), _))) => ctx.violation(
                &format!("reject-in-range|decode_int|{cls}"),
                &format!("error {e} but the string denotes {v} which fits i128"),
                input(),
            ),
            (Ok(Err(_)), _) => {}
        }
    }
    if !deep {
        return;
    }
    // ---- inside messages: the number, then a sentinel argument
    let Some(k) = s.iter().position(|b| b & 0x80 == 0).map(|p| p + 1) else {
        // unterminated: a message ending inside the number must be rejected
        let mut m = b"DIDL\x00\x01\x7d".to_vec();
        m.extend_from_slice(s);
        if let Ok(Ok(v)) = catch(|| Decode!(&m, Nat)) {
            ctx.violation(
                &format!("accept-unterminated|Decode!(Nat)|{cls}"),
                &format!("decoded {v}"),
                json!({"message": hex(&m)}),
            );
        }
        return;
    };
    let num = &s[..k];
    let vu = want_u.as_ref().unwrap().0.clone();
    let vs = want_s.as_ref().unwrap().0.clone();
    let mk = |code: u8| -> Vec<u8> {
        let mut m = b"DIDL\x00\x02".to_vec();
        m.push(code);
        m.push(0x7b);
        m.extend_from_slice(num);
        m.push(SENTINEL);
        m
    };
    let nat_msg = mk(0x7d);
    let int_msg = mk(0x7c);
    macro_rules! in_msg {
        ($name:expr, $msg:expr, $ty:ty, $want:expr, $eq:expr) => {{
            let msg = &$msg;
            let got = catch(|| Decode!(msg, $ty, u8));
            let want = $want;
            match (got, want) {
                (Err(p), _) => ctx.violation(
                    &format!("panic|{}|{}|{cls}", $name, p.location),
                    &p.message,
                    json!({"message": hex(msg)}),
                ),
                (Ok(Ok((v, sent))), Some(w)) => {
                    if !$eq(&v, &w) || sent != SENTINEL {
                        ctx.violation(
                            &format!("wrong-value|{}|{cls}", $name),
                            &format!("got {v:?} sentinel {sent:#x}, want {w:?}"),
                            json!({"message": hex(msg)}),
                        );
                    }
                }
                (Ok(Ok((v, _))), None) => ctx.violation(
                    &format!("accept-out-of-range|{}|{cls}", $name),
                    &format!("got {v:?} for a value outside the host range"),
                    json!({"message": hex(msg)}),
                ),
                (Ok(Err(e)), Some(w)) => ctx.violation(
                    &format!("reject-valid|{}|{cls}", $name),
                    &format!("error {} but the value is {w:?}", e.to_string().lines().next().unwrap_or("")),
                    json!({"message": hex(msg)}),
                ),
                (Ok(Err(_)), None) => {}
            }
        }};
    }
    in_msg!("Decode!(nat,Nat)", nat_msg, Nat, Some(vu.clone()), |a: &Nat, b: &BigUint| a.0 == *b);
    in_msg!("Decode!(int,Int)", int_msg, Int, Some(vs.clone()), |a: &Int, b: &BigInt| a.0 == *b);
    in_msg!("Decode!(nat,Int)", nat_msg, Int, Some(BigInt::from(vu.clone())), |a: &Int, b: &BigInt| a.0
        == *b);
    in_msg!("Decode!(nat,u128)", nat_msg, u128, u128_of(&vu), |a: &u128, b: &u128| a == b);
    in_msg!("Decode!(int,i128)", int_msg, i128, i128_of(&vs), |a: &i128, b: &i128| a == b);
    in_msg!(
        "Decode!(nat,i128)",
        nat_msg,
        i128,
        i128_of(&BigInt::from(vu.clone())),
        |a: &i128, b: &i128| a == b
    );
    // vectors and maps (fast paths): vec nat = [n, 7, n]; vec record {text; int}; vec record {nat8; nat}
    {
        let mut m = b"DIDL\x01\x6d\x7d\x02\x00\x7b\x03".to_vec();
        m.extend_from_slice(num);
        m.push(7);
        m.extend_from_slice(num);
        m.push(SENTINEL);
        let got = catch(|| Decode!(&m, Vec<Nat>, u8));
        match got {
            Err(p) => ctx.violation(&format!("panic|Decode!(Vec<Nat>)|{}|{cls}", p.location), &p.message, json!({"message": hex(&m)})),
            Ok(Ok((v, sent))) => {
                if v.len() != 3 || v[0].0 != vu || v[1].0 != BigUint::from(7u8) || v[2].0 != vu || sent != SENTINEL {
                    ctx.violation(&format!("wrong-value|Decode!(Vec<Nat>)|{cls}"), &format!("got {v:?} want [{vu},7,{vu}]"), json!({"message": hex(&m)}));
                }
            }
            Ok(Err(e)) => ctx.violation(&format!("reject-valid|Decode!(Vec<Nat>)|{cls}"), &e.to_string(), json!({"message": hex(&m)})),
        }
        // the same bytes as vec int on the wire decoded at Vec<Int>
        let mut m2 = m.clone();
        m2[6] = 0x7c;
        let want2 = [vs.clone(), BigInt::from(7), vs.clone()];
        // 7 as sleb is 0x07: same byte
        let got = catch(|| Decode!(&m2, Vec<Int>, u8));
        match got {
            Err(p) => ctx.violation(&format!("panic|Decode!(Vec<Int>)|{}|{cls}", p.location), &p.message, json!({"message": hex(&m2)})),
            Ok(Ok((v, sent))) => {
                if v.len() != 3 || v.iter().zip(want2.iter()).any(|(a, b)| a.0 != *b) || sent != SENTINEL {
                    ctx.violation(&format!("wrong-value|Decode!(Vec<Int>)|{cls}"), &format!("got {v:?} want {want2:?}"), json!({"message": hex(&m2)}));
                }
            }
            Ok(Err(e)) => ctx.violation(&format!("reject-valid|Decode!(Vec<Int>)|{cls}"), &e.to_string(), json!({"message": hex(&m2)})),
        }
        // vec nat on the wire at Vec<Int>
        let got = catch(|| Decode!(&m, Vec<Int>, u8));
        if let Ok(Ok((v, _))) = &got {
            if v.len() != 3 || v[0].0 != BigInt::from(vu.clone()) {
                ctx.violation(&format!("wrong-value|Decode!(vec nat,Vec<Int>)|{cls}"), &format!("got {v:?}"), json!({"message": hex(&m)}));
            }
        } else if let Err(p) = got {
            ctx.violation(&format!("panic|Decode!(vec nat,Vec<Int>)|{}|{cls}", p.location), &p.message, json!({"message": hex(&m)}));
        } else {
            ctx.violation(&format!("reject-valid|Decode!(vec nat,Vec<Int>)|{cls}"), "error", json!({"message": hex(&m)}));
        }
        // untyped
        let got = catch(|| IDLArgs::from_bytes(&m2));
        match got {
            Err(p) => ctx.violation(&format!("panic|from_bytes(vec int)|{}|{cls}", p.location), &p.message, json!({"message": hex(&m2)})),
            Ok(Ok(a)) => {
                let ok = match a.args.first() {
                    Some(candid::IDLValue::Vec(xs)) => {
                        xs.len() == 3 && matches!(&xs[0], candid::IDLValue::Int(i) if i.0 == vs) && matches!(&xs[2], candid::IDLValue::Int(i) if i.0 == vs)
                    }
                    _ => false,
                };
                if !ok {
                    ctx.violation(&format!("wrong-value|from_bytes(vec int)|{cls}"), &format!("got {a}"), json!({"message": hex(&m2)}));
                }
            }
            Ok(Err(e)) => ctx.violation(&format!("reject-valid|from_bytes(vec int)|{cls}"), &e.to_string(), json!({"message": hex(&m2)})),
        }
    }
    {
        // vec record { text; int } = [("k", n)] at BTreeMap<String, Int>; vec record { nat8; nat } at BTreeMap<u8, Nat>
        let mut m = b"DIDL\x02\x6d\x01\x6c\x02\x00\x71\x01\x7c\x02\x00\x7b\x01\x01k".to_vec();
        m.extend_from_slice(num);
        m.push(SENTINEL);
        let got = catch(|| Decode!(&m, BTreeMap<String, Int>, u8));
        match got {
            Err(p) => ctx.violation(&format!("panic|Decode!(BTreeMap<String,Int>)|{}|{cls}", p.location), &p.message, json!({"message": hex(&m)})),
            Ok(Ok((v, sent))) => {
                if v.len() != 1 || v.get("k").map(|x| &x.0) != Some(&vs) || sent != SENTINEL {
                    ctx.violation(&format!("wrong-value|Decode!(BTreeMap<String,Int>)|{cls}"), &format!("got {v:?} want k->{vs}"), json!({"message": hex(&m)}));
                }
            }
            Ok(Err(e)) => ctx.violation(&format!("reject-valid|Decode!(BTreeMap<String,Int>)|{cls}"), &e.to_string(), json!({"message": hex(&m)})),
        }
        let mut m = b"DIDL\x02\x6d\x01\x6c\x02\x00\x7b\x01\x7d\x02\x00\x7b\x01\x05".to_vec();
        m.extend_from_slice(num);
        m.push(SENTINEL);
        let got = catch(|| Decode!(&m, BTreeMap<u8, Nat>, u8));
        match got {
            Err(p) => ctx.violation(&format!("panic|Decode!(BTreeMap<u8,Nat>)|{}|{cls}", p.location), &p.message, json!({"message": hex(&m)})),
            Ok(Ok((v, sent))) => {
                if v.len() != 1 || v.get(&5).map(|x| &x.0) != Some(&vu) || sent != SENTINEL {
                    ctx.violation(&format!("wrong-value|Decode!(BTreeMap<u8,Nat>)|{cls}"), &format!("got {v:?} want 5->{vu}"), json!({"message": hex(&m)}));
                }
            }
            Ok(Err(e)) => ctx.violation(&format!("reject-valid|Decode!(BTreeMap<u8,Nat>)|{cls}"), &e.to_string(), json!({"message": hex(&m)})),
        }
    }
}

/// Encoders emit the minimal string.
fn check_value(ctx: &mut Ctx, u: &BigUint, i: &BigInt) {
    let input = || json!({"nat": u.to_string(), "int": i.to_string()});
    let want_u = encode_leb(u);
    let want_i = encode_sleb(i);
    let mut out = Vec::new();
    match catch(|| Nat(u.clone()).encode(&mut out)) {
        Err(p) => ctx.violation(&format!("panic|Nat::encode|{}", p.location), &p.message, input()),
        Ok(_) => {
            if out != want_u {
                ctx.violation("non-minimal|Nat::encode", &format!("got {} want {}", hex(&out), hex(&want_u)), input());
            }
        }
    }
    let mut out = Vec::new();
    match catch(|| Int(i.clone()).encode(&mut out)) {
        Err(p) => ctx.violation(&format!("panic|Int::encode|{}", p.location), &p.message, input()),
        Ok(_) => {
            if out != want_i {
                ctx.violation("non-minimal|Int::encode", &format!("got {} want {}", hex(&out), hex(&want_i)), input());
            }
        }
    }
    if let Some(x) = u128_of(u) {
        let mut out = Vec::new();
        let _ = cleb::encode_nat(&mut out, x);
        if out != want_u {
            ctx.violation("non-minimal|encode_nat", &format!("got {} want {}", hex(&out), hex(&want_u)), input());
        }
        match catch(|| Encode!(&x)) {
            Ok(Ok(b)) => {
                let mut w = b"DIDL\x00\x01\x7d".to_vec();
                w.extend(&want_u);
                if b != w {
                    ctx.violation("non-minimal|Encode!(u128)", &format!("got {} want {}", hex(&b), hex(&w)), input());
                }
            }
            _ => ctx.violation("fail|Encode!(u128)", "encoding failed", input()),
        }
    }
    if let Some(x) = i128_of(i) {
        let mut out = Vec::new();
        let _ = cleb::encode_int(&mut out, x);
        if out != want_i {
            ctx.violation("non-minimal|encode_int", &format!("got {} want {}", hex(&out), hex(&want_i)), input());
        }
        match catch(|| Encode!(&x)) {
            Ok(Ok(b)) => {
                let mut w = b"DIDL\x00\x01\x7c".to_vec();
                w.extend(&want_i);
                if b != w {
                    ctx.violation("non-minimal|Encode!(i128)", &format!("got {} want {}", hex(&b), hex(&w)), input());
                }
            }
            _ => ctx.violation("fail|Encode!(i128)", "encoding failed", input()),
        }
    }
    match catch(|| Encode!(&Nat(u.clone()), &Int(i.clone()))) {
        Ok(Ok(b)) => {
            let mut w = b"DIDL\x00\x02\x7d\x7c".to_vec();
            w.extend(&want_u);
            w.extend(&want_i);
            if b != w {
                ctx.violation("non-minimal|Encode!(Nat,Int)", &format!("got {} want {}", hex(&b), hex(&w)), input());
            }
        }
        _ => ctx.violation("fail|Encode!(Nat,Int)", "encoding failed", input()),
    }
}

fn boundary_string(rng: &mut Rng) -> Vec<u8> {
    // n-1 continuation groups then the top two groups enumerated by the rng
    let n = *rng.pick(&[7usize, 8, 9, 10, 11, 17, 18, 19, 20, 21, 22, 37, 38]);
    let fill = *rng.pick(&[0x80u8, 0xff, 0x81, 0xfe, 0xc0, 0xbf]);
    let mut s: Vec<u8> = (0..n.saturating_sub(2))
        .map(|_| if rng.chance(1, 4) { rng.next() as u8 | 0x80 } else { fill })
        .collect();
    s.push(rng.next() as u8 | 0x80);
    s.push(rng.next() as u8 & 0x7f);
    s
}

pub fn run(ctx: &mut Ctx) {
    let thorough = ctx.thorough();
    // exhaustive: all strings of length <= 2 (every shard takes a slice); length 3 in thorough
    let limit: u64 = if thorough { 256 + 65536 + (1 << 24) } else { 256 + 65536 };
    let (shard, n) = (ctx.shard, ctx.nshards);
    let mut done = 0u64;
    let mut complete = false;
    ctx.cases("exhaustive-short", if thorough { 0.45 } else { 0.25 }, |ctx, _rng| {
        // one "case" = a block of 4096 consecutive strings
        let local = ctx.case & ((1 << 40) - 1); // = shard + k * nshards
        let block: u64 = if ctx.lane == "M" { 48 } else { 4096 };
        let start = local * block;
        if start >= limit {
            complete = true; // every earlier block of this shard has been enumerated
            ctx.stats.evaluations -= 1;
            ctx.stop_family = true;
            return;
        }
        for idx in start..(start + block).min(limit) {
            let s: Vec<u8> = if idx < 256 {
                vec![idx as u8]
            } else if idx < 256 + 65536 {
                let x = idx - 256;
                vec![(x >> 8) as u8, x as u8]
            } else {
                let x = idx - 256 - 65536;
                vec![(x >> 16) as u8, (x >> 8) as u8, x as u8]
            };
            check_string(ctx, &s, idx < 256 + 65536 && idx % 7 == 0);
            done += 1;
            if idx % 1024 == 0 {
                ctx.nontrivial(hash_bytes(&s));
            }
        }
        ctx.stats.evaluations += block - 1;
    });
    ctx.count_n("cover:exhaustive-strings", done);
    let _ = (shard, n);
    if complete {
        ctx.stats.exhaustive.push(format!(
            "all byte strings of length <= {} through Nat::decode, Int::decode, decode_nat, decode_int",
            if thorough { 3 } else { 2 }
        ));
    }
    ctx.cases("boundary", 0.3, |ctx, rng| {
        let s = boundary_string(rng);
        ctx.count(&format!("cover:{}", class(&s)));
        check_string(ctx, &s, true);
        ctx.nontrivial(hash_bytes(&s));
        ctx.sample(|| json!({"bytes": hex(&s)}));
    });
    ctx.cases("random", 0.2, |ctx, rng| {
        let n = 1 + rng.usize(40);
        let mut s = rng.bytes(n);
        if rng.chance(3, 4) {
            // make it terminated somewhere
            let l = s.len();
            s[l - 1] &= 0x7f;
            for b in &mut s[..l - 1] {
                if rng.chance(7, 8) {
                    *b |= 0x80;
                }
            }
        }
        ctx.count(&format!("cover:{}", class(&s)));
        check_string(ctx, &s, true);
        ctx.nontrivial(hash_bytes(&s));
    });
    ctx.cases("values", if thorough { 0.05 } else { 0.25 }, |ctx, rng| {
        let u = gen_biguint(rng);
        let i = gen_bigint(rng);
        check_value(ctx, &u, &i);
        // minimal and padded encodings of the same values decode back
        let pad = rng.usize(4);
        let s = leb_padded(&u, pad);
        check_string(ctx, &s, true);
        let s = sleb_padded(&i, pad);
        check_string(ctx, &s, true);
        ctx.nontrivial(hash_bytes(&s) ^ 1);
    });
}
