//! C08 — native decoding agrees with untyped decoding at the same Candid type.
use super::common::*;
use crate::conv::*;
use crate::corpus::registry::{self as reg, DecOut};
use crate::ctx::{catch, hex, Ctx};
use crate::gen::types::TypeCfg;
use crate::gen::upgrade::Upgrader;
use crate::gen::values::ValGen;
use crate::model::wire::{decode, encodable, encode, EncOpts};
use crate::model::*;
use crate::rng::{hash_str, Rng};
use candid::types::bounded_vec::{BoundedVec, UNBOUNDED};
use candid::{Decode, DecoderConfig, IDLArgs};
use serde_json::json;

/// Replace leaf types by look-alikes with a similar byte layout.
fn lookalike(rng: &mut Rng, t: &RType) -> RType {
    let swap = |rng: &mut Rng, t: &RType| -> Option<RType> {
        Some(match t {
            RType::Text => rng.pick(&[RType::vec(RType::Nat8), RType::vec(RType::Int8), RType::Principal]).clone(),
            RType::Nat => rng.pick(&[RType::Int, RType::Nat8, RType::Nat64]).clone(),
            RType::Int => rng.pick(&[RType::Nat, RType::Int64, RType::Int8]).clone(),
            RType::Nat8 => rng.pick(&[RType::Int8, RType::Bool, RType::Nat]).clone(),
            RType::Nat64 => rng.pick(&[RType::Int64, RType::Float64]).clone(),
            RType::Nat32 => rng.pick(&[RType::Int32, RType::Float32]).clone(),
            RType::Principal => rng.pick(&[RType::vec(RType::Nat8), RType::service(vec![])]).clone(),
            RType::Bool => RType::Nat8,
            RType::Null => RType::Reserved,
            RType::Vec(x) if **x == RType::Nat8 => rng.pick(&[RType::Text, RType::vec(RType::Int8), RType::vec(RType::Bool)]).clone(),
            _ => return None,
        })
    };
    if rng.chance(1, 3) {
        if let Some(s) = swap(rng, t) {
            return s;
        }
    }
    match t {
        RType::Opt(x) => RType::opt(lookalike(rng, x)),
        RType::Vec(x) => RType::vec(lookalike(rng, x)),
        RType::Record(fs) => {
            // same field types under other labels (a tuple / map entry sent as a record with named fields)
            let hp = crate::model::misc::label_hash;
            let relabel = rng.below(12);
            let ids: Vec<u32> = match (relabel, fs.len()) {
                (0, 2) => vec![hp("key"), hp("value")],
                (1, 2) => vec![hp("owner"), hp("amount")],
                (0 | 1, _) => fs.iter().map(|(i, _)| i.wrapping_add(1)).collect(),
                (2, _) => fs.iter().map(|(i, _)| i.wrapping_add(1000)).collect(),
                _ => fs.iter().map(|(i, _)| *i).collect(),
            };
            let mut seen = std::collections::BTreeSet::new();
            if !ids.iter().all(|i| seen.insert(*i)) {
                return RType::Record(fs.iter().map(|(i, x)| (*i, lookalike(rng, x))).collect());
            }
            RType::record(ids.into_iter().zip(fs.iter()).map(|(i, (_, x))| (i, if relabel < 3 && rng.chance(2, 3) { x.clone() } else { lookalike(rng, x) })).collect())
        }
        RType::Variant(fs) => RType::Variant(fs.iter().map(|(i, x)| (*i, lookalike(rng, x))).collect()),
        t => swap(rng, t).unwrap_or_else(|| t.clone()),
    }
}

fn sort_vecs(v: &RValue) -> RValue {
    match v {
        RValue::Vec(xs) => {
            let mut ys: Vec<RValue> = xs.iter().map(sort_vecs).collect();
            ys.sort_by_key(|y| y.to_string());
            RValue::Vec(ys)
        }
        RValue::Opt(x) => RValue::opt(sort_vecs(x)),
        RValue::Record(fs) => RValue::Record(fs.iter().map(|(i, x)| (*i, sort_vecs(x))).collect()),
        RValue::Variant(i, x) => RValue::Variant(*i, Box::new(sort_vecs(x))),
        RValue::Reserved => RValue::Null,
        x => x.clone(),
    }
}

/// duplicate elements in any vector (maps / sets would collapse them natively)
fn has_duplicates(v: &RValue) -> bool {
    match v {
        RValue::Vec(xs) => {
            let mut keys: Vec<String> = xs
                .iter()
                .map(|x| match x {
                    RValue::Record(fs) if fs.len() == 2 && fs[0].0 == 0 => fs[0].1.to_string(),
                    x => x.to_string(),
                })
                .collect();
            let n = keys.len();
            keys.sort();
            keys.dedup();
            keys.len() != n || xs.iter().any(has_duplicates)
        }
        RValue::Opt(x) | RValue::Variant(_, x) => has_duplicates(x),
        RValue::Record(fs) => fs.iter().any(|f| has_duplicates(&f.1)),
        _ => false,
    }
}

/// Documented host limits: a closed list of native-only failures.
fn host_limit(err: &str, tname: &str) -> Option<&'static str> {
    if err.contains("nat overflow") || err.contains("int overflow") || err.contains("Cannot convert nat to i128") {
        return Some("128-bit-range");
    }
    if err.contains("invalid length") && tname.contains(';') {
        return Some("array-length");
    }
    if err.contains("exceeds maximum allowed") {
        return Some("bounded-vec-limit");
    }
    None
}

fn quota() -> DecoderConfig {
    let mut c = DecoderConfig::new();
    // only a guard against runaway decodes (untyped decoding is charged 50x)
    c.set_decoding_quota(2_000_000_000);
    c
}

pub fn run(ctx: &mut Ctx) {
    let n_types = reg::len();
    let tcfg = TypeCfg { refs: true, ..TypeCfg::default() };
    ctx.cases("corpus-type-vs-related-wire-types", 0.8, |ctx, rng| {
        let i = rng.usize(n_types);
        let (tname, kind) = reg::with(i, |t| (t.name(), t.kind()));
        let (tenv, tt) = reg::with(i, |t| t.rtype());
        // wire side: T's own type, an up/down-graded one, or a look-alike
        let mode = rng.below(10);
        let (wenv, wt, how) = match mode {
            0 | 1 => (tenv.clone(), tt.clone(), "same"),
            2..=4 => {
                let mut up = Upgrader::new(&tcfg);
                up.edit_pct = 30;
                up.illegal_pct = 50; // both directions: wire may be a sub- or a supertype
                let (e2, t2) = up.up_env(rng, &tenv, std::slice::from_ref(&tt));
                (e2, t2[0].clone(), "upgraded")
            }
            _ => {
                let e2 = REnv(tenv.0.iter().map(|d| lookalike(rng, d)).collect());
                let t2 = lookalike(rng, &tt);
                (e2, t2, "lookalike")
            }
        };
        if !encodable(&wenv, &wt) || wenv.0.iter().any(|d| wenv.unfold(d).is_none()) {
            return;
        }
        let vg = ValGen::new(&wenv);
        let mut fuel = *rng.pick(&[5i64, 25, 60]);
        let Some(v) = vg.gen(rng, &wt, &mut fuel) else { return };
        let opts = EncOpts::default();
        let Ok(bytes) = encode(&wenv, std::slice::from_ref(&wt), std::slice::from_ref(&v), &opts, None) else { return };
        // native
        let native = reg::with(i, |t| t.decode(&bytes, &quota()));
        // untyped at T's Candid type (model of the type, independent of the derive)
        let (cenv, cts) = candid_side(&tenv, std::slice::from_ref(&tt), None);
        let untyped = catch(|| IDLArgs::from_bytes_with_types_with_config(&bytes, &cenv, &cts, &quota()));
        let input = || {
            json!({"rust_type": tname, "candid_type": format!("[{tenv}] {tt}"), "wire_type": format!("[{wenv}] {wt}"),
                   "wire_value": v.to_string().chars().take(500).collect::<String>(), "bytes": hex(&bytes), "how": how})
        };
        let untyped = match untyped {
            Err(p) => {
                ctx.violation(&format!("panic|untyped|{}", p.sig()), &p.message, input());
                return;
            }
            Ok(r) => r,
        };
        let shape_gap = tuple_shape_gap(&tenv, &tt, &wenv, &wt, 0);
        let unordered = tname.contains("Map") || tname.contains("Set") || tname.contains("Heap");
        // fixed-size arrays only with matching length (property text): any other vector length is out of scope
        if let Some(n) = array_len(&tname) {
            if !vec_lens_all(&v, n) {
                ctx.count("excluded:array-length-mismatch");
                return;
            }
        }
        match (native, untyped) {
            (DecOut::Panic(p), _) => ctx.violation(&format!("panic|native|{}", p.sig()), &p.message, input()),
            (DecOut::Ok { model, reencoded, .. }, Ok(u)) => {
                let um = model_value(&u.args[0]);
                // the native value re-encoded must denote the same abstract value
                let back = match reencoded.as_ref().map(|b| decode(b)) {
                    Ok(Ok(d)) if d.values.len() == 1 => d.values[0].clone(),
                    other => {
                        ctx.violation(
                            &format!("native-reencode-fails|{kind}"),
                            &format!("re-encoding the decoded native value failed or is unreadable: {:?}", other.map(|r| r.map(|_| ()))),
                            input(),
                        );
                        return;
                    }
                };
                let _ = model;
                if has_duplicates(&um) && (unordered || tname.contains("Big")) {
                    ctx.count("excluded:duplicate-keys");
                    return;
                }
                let (a, b) = (sort_vecs(&back), sort_vecs(&um));
                if let Some(d) = diff_all(std::slice::from_ref(&a), std::slice::from_ref(&b)) {
                    let sig = if shape_gap {
                        "native-stricter|rust-tuple-or-map-entry|wire-record-not-tuple-shaped".to_string()
                    } else {
                        format!("values-differ|{kind}|{how}|{}", tname.split('<').next().unwrap_or(""))
                    };
                    ctx.violation(
                        &sig,
                        &format!("native result re-encoded (left) vs untyped result (right): {d}"),
                        input(),
                    );
                } else {
                    ctx.count("agree:both-accept");
                }
            }
            (DecOut::Err(e), Ok(u)) => match host_limit(&e, &tname) {
                Some(l) => ctx.count(&format!("excluded:host-limit:{l}")),
                None => {
                    let um = model_value(&u.args[0]);
                    if unordered && has_duplicates(&um) {
                        ctx.count("excluded:duplicate-keys");
                        return;
                    }
                    let ec = err_class_str(&e);
                    let sig = if shape_gap {
                        // a wire record with a field outside 0..n decoded at a Rust tuple / map entry
                        "native-stricter|rust-tuple-or-map-entry|wire-record-not-tuple-shaped".to_string()
                    } else {
                        format!("native-rejects|{kind}|{how}|{}|{ec}", tname.split('<').next().unwrap_or(""))
                    };
                    ctx.violation(
                        &sig,
                        &format!("untyped decoding at the same Candid type returns {} but native decoding fails: {}", u.args[0], err_class_str(&e)),
                        input(),
                    )
                }
            },
            (DecOut::Ok { model, .. }, Err(e)) => ctx.violation(
                &format!("native-accepts|{kind}|{how}|{}|{}", tname.split('<').next().unwrap_or(""), err_class(&e)),
                &format!("native decoding returns {} but untyped decoding at the same Candid type fails: {}", model.to_string().chars().take(300).collect::<String>(), err_class(&e)),
                input(),
            ),
            (DecOut::Err(_), Err(_)) => ctx.count("agree:both-reject"),
        }
        ctx.count(&format!("cover:wire:{how}"));
        ctx.count(&format!("cover:kind:{kind}"));
        ctx.nontrivial(hash_str(&format!("{tname}|{how}|{}", shape(&wenv, &wt, 4))));
        ctx.sample(input);
    });
    // borrowed targets and bounded vectors: fixed Rust types against generated wire types
    ctx.cases("borrowed-and-bounded", 0.2, |ctx, rng| {
        let wire_types = [
            RType::Text,
            RType::vec(RType::Nat8),
            RType::vec(RType::Int8),
            RType::vec(RType::Bool),
            RType::Principal,
            RType::vec(RType::Nat64),
            RType::vec(RType::Text),
            RType::vec(RType::Empty),
            RType::opt(RType::Text),
            RType::Nat,
            RType::vec(RType::Nat),
            RType::vec(RType::Principal),
            RType::vec(RType::vec(RType::Nat8)),
            RType::vec(RType::Text),
        ];
        let wt = rng.pick(&wire_types).clone();
        let env = REnv::new();
        let vg = ValGen { max_len: 8, ..ValGen::new(&env) };
        let mut fuel = 40i64;
        let Some(v) = vg.gen(rng, &wt, &mut fuel) else { return };
        let Ok(bytes) = encode(&env, std::slice::from_ref(&wt), std::slice::from_ref(&v), &EncOpts::default(), None) else { return };
        let input = |target: &str| json!({"rust_type": target, "wire_type": wt.to_string(), "wire_value": v.to_string(), "bytes": hex(&bytes)});
        // expected Candid types of the targets
        let check = |ctx: &mut Ctx, target: &str, expected: RType, native: Result<Result<RValue, String>, crate::ctx::PanicInfo>| {
            let (cenv, cts) = candid_side(&env, std::slice::from_ref(&expected), None);
            let untyped = IDLArgs::from_bytes_with_types(&bytes, &cenv, &cts).map(|a| model_value(&a.args[0]));
            match (native, untyped) {
                (Err(p), _) => ctx.violation(&format!("panic|native|{target}|{}", p.sig()), &p.message, input(target)),
                (Ok(Ok(n)), Ok(u)) => {
                    if sort_vecs_none(&n) != sort_vecs_none(&u) {
                        ctx.violation(&format!("values-differ|{target}"), &format!("native {n} vs untyped {u}"), input(target));
                    } else {
                        ctx.count(&format!("agree:both-accept:{target}"));
                    }
                }
                (Ok(Ok(n)), Err(e)) => ctx.violation(
                    &format!("native-accepts|{target}|wire={}", shape(&env, &wt, 2)),
                    &format!("native decoding returns {n} but untyped decoding at {expected} fails: {}", err_class(&e)),
                    input(target),
                ),
                (Ok(Err(e)), Ok(u)) => {
                    if e.contains("exceeds maximum allowed") {
                        ctx.count("agree:bounded-rejects");
                    } else if target.starts_with('&') && !matches!(wt, RType::Text | RType::Principal) && wt != RType::vec(RType::Nat8) {
                        // a borrowed slice needs the bytes contiguous on the wire: only blob / text / principal can be borrowed
                        ctx.count("excluded:host-limit:borrowed-needs-contiguous-bytes");
                    } else {
                        ctx.violation(&format!("native-rejects|{target}|wire={}", shape(&env, &wt, 2)), &format!("untyped returns {u}, native fails: {}", err_class_str(&e)), input(target))
                    }
                }
                (Ok(Err(_)), Err(_)) => ctx.count(&format!("agree:both-reject:{target}")),
            }
        };
        let b = &bytes;
        check(ctx, "&str", RType::Text, catch(|| Decode!(b, &str).map(|s| RValue::Text(s.to_string())).map_err(|e| format!("{e:?}"))));
        check(ctx, "&[u8]", RType::vec(RType::Nat8), catch(|| Decode!(b, &[u8]).map(RValue::blob).map_err(|e| format!("{e:?}"))));
        check(
            ctx,
            "&serde_bytes::Bytes",
            RType::vec(RType::Nat8),
            catch(|| Decode!(b, &serde_bytes::Bytes).map(|x| RValue::blob(x)).map_err(|e| format!("{e:?}"))),
        );
        check(
            ctx,
            "Cow<str>",
            RType::Text,
            catch(|| Decode!(b, std::borrow::Cow<'_, str>).map(|s| RValue::Text(s.to_string())).map_err(|e| format!("{e:?}"))),
        );
        check(
            ctx,
            "serde_bytes::ByteBuf",
            RType::vec(RType::Nat8),
            catch(|| Decode!(b, serde_bytes::ByteBuf).map(|x| RValue::blob(&x)).map_err(|e| format!("{e:?}"))),
        );
        // bounded vectors accept exactly the vectors within their limits
        type B3 = BoundedVec<3, UNBOUNDED, UNBOUNDED, u8>;
        type BT = BoundedVec<UNBOUNDED, 16, UNBOUNDED, u64>;
        type BE = BoundedVec<UNBOUNDED, UNBOUNDED, 4, String>;
        let len = match &v {
            RValue::Vec(xs) => xs.len(),
            _ => 0,
        };
        let r = catch(|| Decode!(b, B3).map(|x| RValue::blob(x.get())).map_err(|e| format!("{e:?}")));
        if wt == RType::vec(RType::Nat8) {
            match &r {
                Ok(Ok(_)) if len > 3 => ctx.violation("bounded-vec|accepts-too-long", &format!("{len} elements accepted by BoundedVec<3,..>"), input("BoundedVec<3,_,_,u8>")),
                Ok(Err(e)) if len <= 3 => ctx.violation("bounded-vec|rejects-within-limit", &format!("{len} elements rejected: {}", err_class_str(e)), input("BoundedVec<3,_,_,u8>")),
                _ => ctx.count("agree:bounded-len"),
            }
        }
        check(ctx, "BoundedVec<3,_,_,u8>", RType::vec(RType::Nat8), r);
        let r = catch(|| Decode!(b, BT).map(|x| RValue::Vec(x.get().iter().map(|n| RValue::Nat64(*n)).collect())).map_err(|e| format!("{e:?}")));
        if wt == RType::vec(RType::Nat64) {
            match &r {
                Ok(Ok(_)) if len * 8 > 16 => ctx.violation("bounded-vec|accepts-too-large-total", &format!("{len} u64 accepted with total limit 16 bytes"), input("BoundedVec<_,16,_,u64>")),
                Ok(Err(e)) if len * 8 <= 16 => ctx.violation("bounded-vec|rejects-within-limit", &format!("{len} u64 rejected: {}", err_class_str(e)), input("BoundedVec<_,16,_,u64>")),
                _ => ctx.count("agree:bounded-total"),
            }
        }
        check(ctx, "BoundedVec<_,16,_,u64>", RType::vec(RType::Nat64), r);
        let r = catch(|| Decode!(b, BE).map(|x| RValue::Vec(x.get().iter().map(|s| RValue::Text(s.clone())).collect())).map_err(|e| format!("{e:?}")));
        if wt == RType::vec(RType::Text) {
            let too_big = match &v {
                RValue::Vec(xs) => xs.iter().any(|x| matches!(x, RValue::Text(s) if s.len() > 4)),
                _ => false,
            };
            match &r {
                Ok(Ok(_)) if too_big => ctx.violation("bounded-vec|accepts-too-large-element", "an element larger than 4 bytes was accepted", input("BoundedVec<_,_,4,String>")),
                Ok(Err(e)) if !too_big => ctx.violation("bounded-vec|rejects-within-limit", &format!("rejected: {}", err_class_str(e)), input("BoundedVec<_,_,4,String>")),
                _ => ctx.count("agree:bounded-element"),
            }
        }
        check(ctx, "BoundedVec<_,_,4,String>", RType::vec(RType::Text), r);
        // more instances, judged by one rule: accepted iff count <= L, every element's data size <= E, their sum <= T
        // (data size as bounded_vec.rs defines it: bytes of a text / principal, 8 for nat64, 24 + bytes for a Vec<u8> element)
        macro_rules! bounded {
            ($name:expr, $ty:ty, $wire:expr, $l:expr, $t:expr, $e:expr, $size:expr, $model:expr) => {{
                let r = catch(|| Decode!(b, $ty).map(|x| RValue::Vec(x.get().iter().map($model).collect())).map_err(|e| format!("{e:?}")));
                if wt == $wire {
                    let sizes: Vec<usize> = match &v {
                        RValue::Vec(xs) => xs.iter().map($size).collect(),
                        _ => vec![],
                    };
                    let within = sizes.len() <= $l && sizes.iter().all(|s| *s <= $e) && sizes.iter().sum::<usize>() <= $t;
                    match &r {
                        Ok(Ok(_)) if !within => ctx.violation(&format!("bounded-vec|accepts-outside-limits|{}", $name), &format!("element sizes {sizes:?} accepted"), input($name)),
                        Ok(Err(e)) if within => ctx.violation(&format!("bounded-vec|rejects-within-limit|{}", $name), &format!("element sizes {sizes:?} rejected: {}", err_class_str(e)), input($name)),
                        _ => ctx.count(if within { "agree:bounded-generic-accept" } else { "agree:bounded-generic-reject" }),
                    }
                }
                check(ctx, $name, $wire, r);
            }};
        }
        let text_size = |x: &RValue| match x {
            RValue::Text(s) => s.len(),
            _ => 0,
        };
        let text_model = |s: &String| RValue::Text(s.clone());
        const U: usize = UNBOUNDED;
        bounded!("BoundedVec<_,24,_,String>", BoundedVec<U, 24, U, String>, RType::vec(RType::Text), usize::MAX, 24usize, usize::MAX, text_size, text_model);
        bounded!("BoundedVec<5,40,12,String>", BoundedVec<5, 40, 12, String>, RType::vec(RType::Text), 5usize, 40usize, 12usize, text_size, text_model);
        bounded!(
            "BoundedVec<_,32,_,Principal>",
            BoundedVec<U, 32, U, candid::Principal>,
            RType::vec(RType::Principal),
            usize::MAX,
            32usize,
            usize::MAX,
            |x: &RValue| match x {
                RValue::Principal(b) => b.len(),
                _ => 0,
            },
            |p: &candid::Principal| RValue::Principal(p.as_slice().to_vec())
        );
        bounded!(
            "BoundedVec<3,90,30,Vec<u8>>",
            BoundedVec<3, 90, 30, Vec<u8>>,
            RType::vec(RType::vec(RType::Nat8)),
            3usize,
            90usize,
            30usize,
            // documented estimate for a vector element: size_of::<Vec<u8>>() + its bytes
            |x: &RValue| match x {
                RValue::Vec(b) => std::mem::size_of::<Vec<u8>>() + b.len(),
                _ => 0,
            },
            |p: &Vec<u8>| RValue::blob(p)
        );
        ctx.count(&format!("cover:borrowed-wire:{}", shape(&env, &wt, 2)));
        ctx.nontrivial(hash_str(&format!("b|{}|{len}", wt)));
    });
}

/// Is there a position where the expected record is tuple-shaped (a Rust tuple, tuple struct, tuple variant
/// or map entry) and the wire record is not (has a field id outside 0..n)? Native decoding insists on a
/// tuple-shaped wire record there, the subtyping rules do not.
fn tuple_shape_gap(eenv: &REnv, e: &RType, wenv: &REnv, w: &RType, depth: usize) -> bool {
    if depth > 12 {
        return false;
    }
    let (Some(e), Some(w)) = (eenv.unfold(e), wenv.unfold(w)) else { return false };
    match (e, w) {
        (RType::Vec(a), RType::Vec(b)) => {
            // a Rust map insists on a wire entry type that is exactly a pair, whatever the vector holds
            if let (Some(RType::Record(fe)), Some(wb)) = (eenv.unfold(a), wenv.unfold(b)) {
                let pair_e = fe.len() == 2 && fe[0].0 == 0 && fe[1].0 == 1;
                let pair_w = matches!(wb, RType::Record(fw) if fw.len() == 2 && fw[0].0 == 0 && fw[1].0 == 1);
                if pair_e && !pair_w {
                    return true;
                }
            }
            tuple_shape_gap(eenv, a, wenv, b, depth + 1)
        }
        (RType::Opt(a), RType::Opt(b)) => tuple_shape_gap(eenv, a, wenv, b, depth + 1),
        (RType::Opt(a), b) => tuple_shape_gap(eenv, a, wenv, b, depth + 1),
        (RType::Record(fe), RType::Record(fw)) => {
            let tuple_e = !fe.is_empty() && fe.iter().enumerate().all(|(i, f)| f.0 == i as u32);
            let tuple_w = fw.iter().enumerate().all(|(i, f)| f.0 == i as u32);
            if tuple_e && !tuple_w {
                return true;
            }
            fe.iter().any(|(id, te)| fw.iter().find(|f| f.0 == *id).map(|(_, tw)| tuple_shape_gap(eenv, te, wenv, tw, depth + 1)).unwrap_or(false))
        }
        (RType::Variant(fe), RType::Variant(fw)) => {
            fe.iter().any(|(id, te)| fw.iter().find(|f| f.0 == *id).map(|(_, tw)| tuple_shape_gap(eenv, te, wenv, tw, depth + 1)).unwrap_or(false))
        }
        _ => false,
    }
}

fn array_len(name: &str) -> Option<usize> {
    let i = name.find(';')?;
    let rest = &name[i + 1..];
    let j = rest.find(']')?;
    rest[..j].parse().ok()
}
/// every vector anywhere in the value has length n (conservative: arrays may sit at any depth)
fn vec_lens_all(v: &RValue, n: usize) -> bool {
    match v {
        RValue::Vec(xs) => xs.len() == n && xs.iter().all(|x| vec_lens_all(x, n)),
        RValue::Opt(x) | RValue::Variant(_, x) => vec_lens_all(x, n),
        RValue::Record(fs) => fs.iter().all(|f| vec_lens_all(&f.1, n)),
        _ => true,
    }
}

/// reserved reads as null on re-encoding; order kept
fn sort_vecs_none(v: &RValue) -> RValue {
    match v {
        RValue::Vec(xs) => RValue::Vec(xs.iter().map(sort_vecs_none).collect()),
        RValue::Opt(x) => RValue::opt(sort_vecs_none(x)),
        RValue::Record(fs) => RValue::Record(fs.iter().map(|(i, x)| (*i, sort_vecs_none(x))).collect()),
        RValue::Variant(i, x) => RValue::Variant(*i, Box::new(sort_vecs_none(x))),
        RValue::Reserved => RValue::Null,
        x => x.clone(),
    }
}
