//! C15 — field/variant names are everywhere identified with the spec hash of their UTF-8 bytes.
//!
//! Oracle R5 = `model::misc::label_hash` (arithmetic in u64 mod 2^32, written from the spec), the
//! reference wire decoder R1 (rejects unsorted / duplicate ids) and structural type equality R3.
#![allow(non_snake_case, non_camel_case_types)]
use super::common::{diff, err_class};
use super::textgen::*;
use crate::conv::*;
use crate::ctx::{catch, hex, Ctx};
use crate::gen::types::*;
use crate::gen::values::*;
use crate::model::leb::leb_u64;
use crate::model::misc::label_hash;
use crate::model::subtype::requal2;
use crate::model::wire;
use crate::model::*;
use crate::rng::{hash_str, Rng};
use candid::types::value::{IDLField, IDLValue, VariantValue};
use candid::types::{Label, Type, TypeEnv, TypeInner};
use candid::{CandidType, Decode, Encode, IDLArgs};
use candid_parser::syntax::IDLType;
use serde::Deserialize;
use serde_json::json;
use std::collections::{BTreeMap, HashMap};
use std::hash::{Hash, Hasher};

// ---------------------------------------------------------------------------------------
// strings

fn gen_name(rng: &mut Rng) -> String {
    match rng.below(8) {
        0..=4 => gen_label(rng),
        5 => gen_text(rng),
        6 => {
            // long names: the hash wraps many times
            let n = 20 + rng.usize(200);
            (0..n).map(|_| gen_char(rng)).collect()
        }
        _ => {
            // high bytes everywhere (multi-byte scalars only)
            let n = 1 + rng.usize(6);
            (0..n)
                .map(|_| char::from_u32(0x80 + rng.below(0x10ff00) as u32).unwrap_or('\u{fffd}'))
                .collect()
        }
    }
}

fn name_class(s: &str) -> &'static str {
    if s.is_empty() {
        "empty"
    } else if LEXER_KEYWORDS.contains(&s) || PRIM_NAMES.contains(&s) {
        "candid-keyword"
    } else if is_plain_id(s) {
        "ascii-identifier"
    } else if s.chars().all(|c| c.is_ascii_digit() || c == '_' || c == 'x' || c == '-') {
        "numeric-looking"
    } else if s.is_ascii() {
        "ascii-other"
    } else {
        "unicode"
    }
}

fn std_hash<T: Hash>(x: &T) -> u64 {
    let mut h = std::collections::hash_map::DefaultHasher::new();
    x.hash(&mut h);
    h.finish()
}

// ---------------------------------------------------------------------------------------
// family 1: the hash function and Label

fn hash_family(ctx: &mut Ctx, rng: &mut Rng) {
    let s = gen_name(rng);
    let h = label_hash(&s);
    let class = name_class(&s);
    let input = || json!({"name": s, "reference_hash": h});
    match catch(|| candid::idl_hash(&s)) {
        Ok(x) if x == h => ctx.count("agree:idl_hash"),
        Ok(x) => ctx.violation(
            &format!("idl_hash-mismatch|{class}"),
            &format!("idl_hash({s:?}) = {x}, the spec hash is {h}"),
            input(),
        ),
        Err(p) => ctx.violation(&format!("panic|idl_hash|{}", p.sig()), &p.message, input()),
    }
    let named = Label::Named(s.clone());
    let id = Label::Id(h);
    let un = Label::Unnamed(h);
    let r = catch(|| {
        let mut bad: Vec<String> = Vec::new();
        for (n, l) in [("Named", &named), ("Id", &id), ("Unnamed", &un)] {
            if l.get_id() != h {
                bad.push(format!("get_id:{n}"));
            }
        }
        let all = [&named, &id, &un];
        for a in all {
            for b in all {
                if a != b {
                    bad.push("eq".into());
                }
                if a.cmp(b) != std::cmp::Ordering::Equal || a.partial_cmp(b) != Some(std::cmp::Ordering::Equal) {
                    bad.push("cmp".into());
                }
                if std_hash(a) != std_hash(b) {
                    bad.push("hash".into());
                }
            }
        }
        // insert under one spelling, look up under the other
        let mut hm: HashMap<Label, u32> = HashMap::new();
        hm.insert(named.clone(), 1);
        if hm.get(&id) != Some(&1) || hm.get(&un) != Some(&1) {
            bad.push("hashmap-lookup".into());
        }
        hm.insert(id.clone(), 2);
        if hm.len() != 1 || hm.get(&named) != Some(&2) {
            bad.push("hashmap-replace".into());
        }
        let mut bm: BTreeMap<Label, u32> = BTreeMap::new();
        bm.insert(id.clone(), 1);
        if bm.get(&named) != Some(&1) || bm.get(&un) != Some(&1) {
            bad.push("btreemap-lookup".into());
        }
        bm.insert(named.clone(), 2);
        if bm.len() != 1 || bm.get(&un) != Some(&2) {
            bad.push("btreemap-replace".into());
        }
        bad
    });
    match r {
        Ok(bad) if bad.is_empty() => ctx.count("agree:label-self-consistent"),
        Ok(bad) => ctx.violation(
            &format!("label-inconsistent|{}|{class}", bad[0]),
            &format!("Label spellings of {s:?} / {h} disagree on: {bad:?}"),
            input(),
        ),
        Err(p) => ctx.violation(&format!("panic|label|{}", p.sig()), &p.message, input()),
    }
    // against another label: order and equality are those of the ids
    let (other, ho) = match rng.below(4) {
        0 => {
            let k = rng.next() as u32;
            (Label::Id(k), k)
        }
        1 => {
            let k = h.wrapping_add(rng.below(3) as u32).wrapping_sub(1);
            (Label::Unnamed(k), k)
        }
        _ => {
            let t = gen_name(rng);
            let k = label_hash(&t);
            (Label::Named(t), k)
        }
    };
    let ok = named.cmp(&other) == h.cmp(&ho)
        && id.cmp(&other) == h.cmp(&ho)
        && other.cmp(&named) == ho.cmp(&h)
        && (named == other) == (h == ho)
        && (other == un) == (h == ho)
        && (h != ho || std_hash(&named) == std_hash(&other));
    if ok {
        ctx.count("agree:label-order");
    } else {
        ctx.violation(
            &format!("label-order-mismatch|{class}"),
            &format!("{named:?} (id {h}) vs {other:?} (id {ho}): cmp/eq do not follow the ids"),
            json!({"name": s, "other": format!("{other:?}")}),
        );
    }
    // a list of labels sorts like the list of ids
    if rng.chance(1, 8) {
        let mut ls: Vec<Label> = (0..6)
            .map(|_| match rng.below(3) {
                0 => Label::Id(rng.next() as u32),
                1 => Label::Unnamed(rng.below(5) as u32),
                _ => Label::Named(gen_name(rng)),
            })
            .collect();
        let mut ids: Vec<u32> = ls
            .iter()
            .map(|l| match l {
                Label::Id(k) | Label::Unnamed(k) => *k,
                Label::Named(n) => label_hash(n),
            })
            .collect();
        ls.sort();
        ids.sort();
        let got: Vec<u32> = ls.iter().map(|l| l.get_id()).collect();
        if got != ids {
            ctx.violation(
                "label-sort-mismatch",
                &format!("sorted labels give ids {got:?}, sorted reference ids {ids:?}"),
                json!({"labels": format!("{ls:?}")}),
            );
        }
    }
    ctx.count(&format!("cover:name-class:{class}"));
    ctx.nontrivial(hash_str(&s));
    ctx.sample(input);
}

// ---------------------------------------------------------------------------------------
// family 2: colliding pairs

/// Known colliding identifier pairs (found offline; verified against R5 at run time).
const FIXED_PAIRS: &[(&str, &str)] = &[("kviccgm", "jmst"), ("vmgunot", "ugidop"), ("rf_kdyb", "kmoz")];

fn birthday(seed: u64) -> Vec<(String, String)> {
    let mut rng = Rng::new(seed ^ 0xC15C_0111_5105);
    let mut seen: HashMap<u32, String> = HashMap::with_capacity(400_000);
    let mut out = Vec::new();
    let alpha: Vec<char> = "abcdefghijklmnopqrstuvwxyz0123456789_".chars().collect();
    for _ in 0..300_000 {
        let s: String = match rng.below(10) {
            0..=5 => {
                let n = 2 + rng.usize(5);
                (0..n)
                    .map(|i| if i == 0 { alpha[rng.usize(26)] } else { *rng.pick(&alpha) })
                    .collect()
            }
            6 | 7 => {
                let n = 1 + rng.usize(3);
                (0..n).map(|_| gen_char(&mut rng)).collect()
            }
            _ => {
                let n = 1 + rng.usize(5);
                (0..n).map(|_| (0x20 + rng.below(0x5f) as u8) as char).collect()
            }
        };
        let h = label_hash(&s);
        match seen.get(&h) {
            Some(t) if *t != s => out.push((t.clone(), s)),
            Some(_) => {}
            None => {
                seen.insert(h, s);
            }
        }
        if out.len() >= 24 {
            break;
        }
    }
    out
}

fn expect_reject<T>(ctx: &mut Ctx, what: &str, text: &str, r: Result<Result<T, String>, crate::ctx::PanicInfo>) {
    match r {
        Ok(Err(_)) => ctx.count(&format!("agree:collision-rejected:{what}")),
        Ok(Ok(_)) => ctx.violation(
            &format!("collision-accepted|{what}"),
            &format!("{what} accepted two labels with one id: {text}"),
            json!({"text": text}),
        ),
        Err(p) => ctx.violation(
            &format!("panic|collision|{what}|{}", short(&p.location)),
            &format!("{what} panicked on {text}: {}", p.message),
            json!({"text": text}),
        ),
    }
}
fn expect_accept<T>(ctx: &mut Ctx, what: &str, text: &str, r: Result<Result<T, String>, crate::ctx::PanicInfo>) -> Option<T> {
    match r {
        Ok(Ok(x)) => {
            ctx.count(&format!("agree:control-accepted:{what}"));
            Some(x)
        }
        Ok(Err(e)) => {
            ctx.violation(
                &format!("control-rejected|{what}|{}", digitless(&e)),
                &format!("{what} rejected a text without any collision: {text}: {e}"),
                json!({"text": text}),
            );
            None
        }
        Err(p) => {
            ctx.violation(
                &format!("panic|control|{what}|{}", short(&p.location)),
                &format!("{what} panicked on {text}: {}", p.message),
                json!({"text": text}),
            );
            None
        }
    }
}

fn short(loc: &str) -> String {
    loc.rsplit('/').next().unwrap_or(loc).to_string()
}
fn digitless(e: &str) -> String {
    e.lines().next().unwrap_or("").chars().filter(|c| !c.is_ascii_digit()).take(40).collect()
}

fn parse_type(s: &str) -> Result<Type, String> {
    let ast = s.parse::<IDLType>().map_err(|e| e.to_string())?;
    candid_parser::typing::ast_to_type(&TypeEnv::new(), &ast).map_err(|e| e.to_string())
}

fn collisions_family(ctx: &mut Ctx, rng: &mut Rng, pairs: &[(String, String)]) {
    // which pair: a found one, a fixed one, or a name and its own numeric id
    let k = rng.usize(pairs.len() + FIXED_PAIRS.len() + 3);
    // `b_is_id`: the second label is the numeric id of the first name
    let b_is_id = k >= pairs.len() + FIXED_PAIRS.len();
    let (a, b): (String, String) = if k < pairs.len() {
        pairs[k].clone()
    } else if k < pairs.len() + FIXED_PAIRS.len() {
        let p = FIXED_PAIRS[k - pairs.len()];
        (p.0.to_string(), p.1.to_string())
    } else {
        let n = gen_name(rng);
        let h = label_hash(&n);
        (n, h.to_string())
    };
    let ha = label_hash(&a);
    let hb = if b_is_id { ha } else { label_hash(&b) };
    if ha != hb || ha == u32::MAX || lexer_ub_risk(&quote(&a)) {
        ctx.count("excluded:not-a-collision");
        return;
    }
    ctx.count(if k < pairs.len() {
        "cover:collision:birthday-pair"
    } else if k < pairs.len() + FIXED_PAIRS.len() {
        "cover:collision:fixed-pair"
    } else {
        "cover:collision:name-vs-own-id"
    });
    let sa = spell_name(rng, &a);
    let sb = if b_is_id { b.clone() } else { spell_name(rng, &b) };
    let (x, y) = if rng.bool() { (sa.clone(), sb.clone()) } else { (sb.clone(), sa.clone()) };
    // other field to show that the shape itself is fine
    let other = "zz_other_field";
    match rng.below(9) {
        0 => {
            let t = format!("record {{ {x} : nat; {y} : text }}");
            expect_reject(ctx, "type-parser:record", &t, catch(|| parse_type(&t)));
            let c = format!("record {{ {x} : nat; {other} : text }}");
            expect_accept(ctx, "type-parser:record", &c, catch(|| parse_type(&c)));
        }
        1 => {
            let t = format!("variant {{ {x}; {y} : text }}");
            expect_reject(ctx, "type-parser:variant", &t, catch(|| parse_type(&t)));
            let c = format!("variant {{ {y}; {other} : text }}");
            expect_accept(ctx, "type-parser:variant", &c, catch(|| parse_type(&c)));
        }
        2 => {
            let t = format!("record {{ {x} = 1; {y} = \"two\" }}");
            expect_reject(ctx, "value-parser:record", &t, catch(|| candid_parser::parse_idl_value(&t).map_err(|e| e.to_string())));
            let c = format!("record {{ {x} = 1; {other} = \"two\" }}");
            expect_accept(ctx, "value-parser:record", &c, catch(|| candid_parser::parse_idl_value(&c).map_err(|e| e.to_string())));
        }
        3 => {
            let t = format!("(1, record {{ {other} = true; {x} = 1; {y} = 2 }})");
            expect_reject(ctx, "args-parser:record", &t, catch(|| candid_parser::parse_idl_args(&t).map_err(|e| e.to_string())));
        }
        4 => {
            let t = format!("type T = record {{ {x} : nat; {y} : nat }}; service : {{ f : (T) -> () }}");
            expect_reject(ctx, "prog-parser:record", &t, catch(|| t.parse::<candid_parser::IDLProg>().map(|_| ()).map_err(|e| e.to_string())));
            let c = format!("type T = record {{ {x} : nat }}; type U = record {{ {y} : nat }}; service : {{ f : (T) -> (U) }}");
            expect_accept(ctx, "prog-parser:record", &c, catch(|| c.parse::<candid_parser::IDLProg>().map(|_| ()).map_err(|e| e.to_string())));
        }
        5 => {
            let t = format!("(record {{ {other} : bool; {x} : nat; {y} : nat }}) ");
            expect_reject(ctx, "types-parser:record", &t, catch(|| t.parse::<candid_parser::syntax::IDLTypes>().map(|_| ()).map_err(|e| e.to_string())));
        }
        6 => {
            // nested: the collision sits two levels down
            let t = format!("opt vec record {{ a : variant {{ {x} : nat; {y} }} }}");
            expect_reject(ctx, "type-parser:nested-variant", &t, catch(|| parse_type(&t)));
        }
        7 => {
            // labels built directly
            let la = Label::Named(a.clone());
            let lb = if b_is_id { Label::Id(ha) } else { Label::Named(b.clone()) };
            if la != lb || la.cmp(&lb) != std::cmp::Ordering::Equal || std_hash(&la) != std_hash(&lb) {
                ctx.violation(
                    "collision|labels-with-one-id-differ",
                    &format!("{la:?} and {lb:?} have the id {ha} but are not equal/Equal/same hash"),
                    json!({"a": a, "b": b}),
                );
            } else {
                ctx.count("agree:colliding-labels-equal");
            }
            // check_unique is what the parsers and macros rely on
            let fs = [la, lb];
            match catch(|| candid::utils::check_unique(fs.iter())) {
                Ok(Err(_)) => ctx.count("agree:collision-rejected:check_unique"),
                Ok(Ok(())) => ctx.violation(
                    "collision-accepted|check_unique",
                    "check_unique accepted two labels with one id",
                    json!({"a": a, "b": b}),
                ),
                Err(p) => ctx.violation(&format!("panic|check_unique|{}", short(&p.location)), &p.message, json!({"a": a, "b": b})),
            }
        }
        _ => {
            // both spellings alone denote the same one-field record
            let t1 = format!("record {{ {sa} : nat }}");
            let t2 = format!("record {{ {sb} : nat }}");
            let r1 = expect_accept(ctx, "type-parser:single", &t1, catch(|| parse_type(&t1)));
            let r2 = expect_accept(ctx, "type-parser:single", &t2, catch(|| parse_type(&t2)));
            if let (Some(t1c), Some(t2c)) = (r1, r2) {
                same_type(ctx, &t1c, &t2c, &RType::Record(vec![(ha, RType::Nat)]), &t1, &t2, "collision-pair");
            }
        }
    }
    ctx.nontrivial(hash_str(&format!("{a}|{b}")));
    ctx.sample(|| json!({"a": a, "b": b, "id": ha}));
}

fn same_type(ctx: &mut Ctx, a: &Type, b: &Type, model: &RType, ta: &str, tb: &str, what: &str) {
    let empty = TypeEnv::new();
    match (from_candid(&empty, &[a.clone()]), from_candid(&empty, &[b.clone()])) {
        (Ok((ea, tsa)), Ok((eb, tsb))) => {
            let ok = requal2(&ea, &tsa[0], &eb, &tsb[0]) && requal2(&ea, &tsa[0], &REnv::new(), model);
            if ok {
                ctx.count(&format!("agree:same-type:{what}"));
            } else {
                ctx.violation(
                    &format!("name-vs-id-type-mismatch|{what}"),
                    &format!("`{ta}` means {} and `{tb}` means {}; expected {model}", tsa[0], tsb[0]),
                    json!({"named": ta, "numeric": tb}),
                );
            }
            // sorted by id
            for t in [&tsa[0], &tsb[0]] {
                if let RType::Record(fs) | RType::Variant(fs) = t {
                    if fs.windows(2).any(|w| w[0].0 >= w[1].0) {
                        ctx.violation(
                            &format!("fields-not-sorted-by-id|{what}"),
                            &format!("parsed type has field ids {:?}", fs.iter().map(|f| f.0).collect::<Vec<_>>()),
                            json!({"named": ta, "numeric": tb}),
                        );
                    }
                }
            }
        }
        (x, y) => ctx.violation(
            &format!("type-conversion-failed|{what}"),
            &format!("{:?} / {:?}", x.err(), y.err()),
            json!({"named": ta, "numeric": tb}),
        ),
    }
}

// ---------------------------------------------------------------------------------------
// family 3: parser path

fn has_max_id(t: &RType) -> bool {
    match t {
        RType::Opt(x) | RType::Vec(x) => has_max_id(x),
        RType::Record(fs) | RType::Variant(fs) => fs.iter().any(|f| f.0 == u32::MAX || has_max_id(&f.1)),
        _ => false,
    }
}

fn simple_cfg() -> TypeCfg {
    TypeCfg {
        max_defs: 0,
        max_depth: 2,
        max_fields: 3,
        refs: false,
        empty: false,
        ref_pct: 0,
    }
}

fn parser_family(ctx: &mut Ctx, rng: &mut Rng) {
    let cfg = simple_cfg();
    let n = 1 + rng.usize(4);
    let mut names = Names::new();
    let mut fields: Vec<(u32, RType)> = Vec::new();
    let env0 = REnv::new();
    for _ in 0..n {
        let s = gen_name(rng);
        if s.chars().count() > 60 || lexer_ub_risk(&quote(&s)) {
            continue;
        }
        let h = label_hash(&s);
        if fields.iter().any(|f| f.0 == h) {
            continue;
        }
        let ft = gen_types(rng, &cfg, &env0, 1).pop().unwrap();
        let ft = rename_fields(rng, &ft, &mut names, 50);
        if names.get(&h).map(|x| x != &s).unwrap_or(false) {
            continue;
        }
        names.insert(h, s);
        fields.push((h, ft));
    }
    if fields.is_empty() || !names_consistent(&names) {
        ctx.count("excluded:no-usable-name");
        return;
    }
    fields.sort_by_key(|f| f.0);
    if fields.iter().any(|f| has_max_id(&f.1) || f.0 == u32::MAX) {
        // `record { 4294967295 : t }` overflows `id + 1` in the grammar action: C13's finding
        ctx.count("excluded:field-id-u32-max(C13)");
        return;
    }
    let is_variant = rng.chance(1, 3);
    let model = if is_variant { RType::Variant(fields.clone()) } else { RType::Record(fields.clone()) };
    let t_named = type_text(&model, Some(&names), rng);
    let t_ids = type_text(&model, None, rng);
    let what = if is_variant { "variant" } else { "record" };
    let a = expect_accept(ctx, &format!("type-parser:{what}:named"), &t_named, catch(|| parse_type(&t_named)));
    let b = expect_accept(ctx, &format!("type-parser:{what}:numeric"), &t_ids, catch(|| parse_type(&t_ids)));
    if let (Some(a), Some(b)) = (&a, &b) {
        same_type(ctx, a, b, &model, &t_named, &t_ids, what);
        // Type equality / ordering as candid sees it
        if a != b {
            ctx.violation(
                &format!("name-vs-id-type-not-eq|{what}"),
                "candid's own `==` distinguishes the type written with names from the one written with ids",
                json!({"named": t_named, "numeric": t_ids}),
            );
        }
    }
    // value path: a value of the type, written with names, then annotated with the numeric type
    if let Some(tnum) = &b {
        let vg = ValGen::new(&env0);
        let mut fuel = 12;
        if let Some(v) = vg.gen(rng, &model, &mut fuel) {
            if let Ok(iv_named) = to_idl(&env0, &model, &v, Some(&names)) {
                let text = value_text(&iv_named, rng);
                let expect = model_value(&to_idl(&env0, &model, &v, None).unwrap());
                match catch(|| candid_parser::parse_idl_value(&text).map_err(|e| e.to_string())) {
                    Ok(Ok(pv)) => {
                        // labels of the parsed value hash to the reference ids, sorted by id
                        if let IDLValue::Record(fs) = &pv {
                            let ids: Vec<u32> = fs.iter().map(|f| f.id.get_id()).collect();
                            let want: Vec<u32> = fields.iter().map(|f| f.0).collect();
                            if ids != want {
                                ctx.violation(
                                    "value-parser|record-ids-mismatch",
                                    &format!("parsed record has ids {ids:?}, reference (sorted hashes) {want:?}"),
                                    json!({"text": text}),
                                );
                            }
                        }
                        match catch(|| pv.annotate_type(true, &TypeEnv::new(), tnum).map_err(|e| e.to_string())) {
                            Ok(Ok(av)) => {
                                if let Some(d) = diff(&expect, &model_value(&av), &mut String::from("v")) {
                                    ctx.violation(
                                        "value-parser|named-value-vs-numeric-type|value-mismatch",
                                        &format!("value written with names, annotated with the numeric type, differs at {d}"),
                                        json!({"text": text, "type": t_ids}),
                                    );
                                } else {
                                    ctx.count("agree:named-value-numeric-type");
                                }
                            }
                            Ok(Err(e)) => ctx.violation(
                                &format!("value-parser|named-value-vs-numeric-type|{}", digitless(&e)),
                                &format!("value written with names does not annotate with the numeric type: {e}"),
                                json!({"text": text, "type": t_ids}),
                            ),
                            Err(p) => ctx.violation(&format!("panic|annotate|{}", short(&p.location)), &p.message, json!({"text": text})),
                        }
                    }
                    Ok(Err(e)) => ctx.violation(
                        &format!("value-parser|rejects-named-value|{}", digitless(&e)),
                        &format!("value text with quoted names rejected: {e}"),
                        json!({"text": text}),
                    ),
                    Err(p) => ctx.violation(&format!("panic|value-parser|{}", short(&p.location)), &p.message, json!({"text": text})),
                }
            }
        }
    }
    for (_, s) in names.iter() {
        ctx.count(&format!("cover:parser-name-class:{}", name_class(s)));
    }
    ctx.nontrivial(hash_str(&t_named));
    ctx.sample(|| json!({"named": t_named, "numeric": t_ids}));
}

/// My own value printer (labels through `spell_name`, numbers annotated inside parentheses).
fn value_text(v: &IDLValue, rng: &mut Rng) -> String {
    fn lab(l: &Label, rng: &mut Rng) -> String {
        match l {
            Label::Named(n) => spell_name(rng, n),
            Label::Id(k) | Label::Unnamed(k) => k.to_string(),
        }
    }
    match v {
        IDLValue::Null | IDLValue::None => "null".into(),
        IDLValue::Reserved => "(null : reserved)".into(),
        IDLValue::Bool(b) => b.to_string(),
        IDLValue::Text(s) => quote(s),
        IDLValue::Nat(n) => format!("({} : nat)", n.0),
        IDLValue::Int(n) => format!("({} : int)", n.0),
        IDLValue::Nat8(n) => format!("({n} : nat8)"),
        IDLValue::Nat16(n) => format!("({n} : nat16)"),
        IDLValue::Nat32(n) => format!("({n} : nat32)"),
        IDLValue::Nat64(n) => format!("({n} : nat64)"),
        IDLValue::Int8(n) => format!("({n} : int8)"),
        IDLValue::Int16(n) => format!("({n} : int16)"),
        IDLValue::Int32(n) => format!("({n} : int32)"),
        IDLValue::Int64(n) => format!("({n} : int64)"),
        IDLValue::Float32(f) => format!("({:e} : float32)", *f as f64),
        IDLValue::Float64(f) => format!("({f:e} : float64)"),
        IDLValue::Opt(x) => format!("opt {}", value_text(x, rng)),
        IDLValue::Vec(xs) => format!("vec {{ {} }}", xs.iter().map(|x| value_text(x, rng)).collect::<Vec<_>>().join("; ")),
        IDLValue::Blob(b) => format!("blob \"{}\"", b.iter().map(|x| format!("\\{x:02x}")).collect::<String>()),
        IDLValue::Record(fs) => {
            let mut order: Vec<usize> = (0..fs.len()).collect();
            rng.shuffle(&mut order);
            format!(
                "record {{ {} }}",
                order
                    .iter()
                    .map(|i| format!("{} = {}", lab(&fs[*i].id, rng), value_text(&fs[*i].val, rng)))
                    .collect::<Vec<_>>()
                    .join("; ")
            )
        }
        IDLValue::Variant(x) => format!("variant {{ {} = {} }}", lab(&x.0.id, rng), value_text(&x.0.val, rng)),
        IDLValue::Principal(p) => format!("principal \"{p}\""),
        IDLValue::Service(p) => format!("service \"{p}\""),
        IDLValue::Func(p, m) => format!("func \"{p}\".{}", quote(m)),
        IDLValue::Number(n) => n.clone(),
    }
}

// ---------------------------------------------------------------------------------------
// family 4: wire

fn shuffle_fields(v: &IDLValue, rng: &mut Rng) -> IDLValue {
    match v {
        IDLValue::Opt(x) => IDLValue::Opt(Box::new(shuffle_fields(x, rng))),
        IDLValue::Vec(xs) => IDLValue::Vec(xs.iter().map(|x| shuffle_fields(x, rng)).collect()),
        IDLValue::Record(fs) => {
            let mut out: Vec<IDLField> = fs
                .iter()
                .map(|f| IDLField {
                    id: f.id.clone(),
                    val: shuffle_fields(&f.val, rng),
                })
                .collect();
            rng.shuffle(&mut out);
            IDLValue::Record(out)
        }
        IDLValue::Variant(x) => IDLValue::Variant(VariantValue(
            Box::new(IDLField {
                id: x.0.id.clone(),
                val: shuffle_fields(&x.0.val, rng),
            }),
            x.1,
        )),
        other => other.clone(),
    }
}

fn wire_family(ctx: &mut Ctx, rng: &mut Rng) {
    let cfg = TypeCfg {
        max_defs: 2,
        max_depth: 3,
        max_fields: 4,
        refs: false,
        empty: false,
        ref_pct: 15,
    };
    let env0 = gen_env(rng, &cfg);
    let t0 = gen_types(rng, &cfg, &env0, 1).pop().unwrap();
    let mut names = Names::new();
    let pct = *rng.pick(&[50u64, 100]);
    let env = REnv(env0.0.iter().map(|t| rename_fields(rng, t, &mut names, pct)).collect());
    let t = rename_fields(rng, &t0, &mut names, pct);
    if names.is_empty() || !names_consistent(&names) || !wire::encodable(&env, &t) {
        ctx.count("excluded:no-names-or-unencodable");
        return;
    }
    let vg = ValGen::new(&env);
    let mut fuel = 25;
    let Some(v) = vg.gen(rng, &t, &mut fuel) else {
        ctx.count("excluded:uninhabited");
        return;
    };
    let (Ok(vn), Ok(vi)) = (to_idl(&env, &t, &v, Some(&names)), to_idl(&env, &t, &v, None)) else {
        ctx.count("excluded:to_idl");
        return;
    };
    let expect = model_value(&vi);
    let (env_n, t_n) = (to_candid_env(&env, Some(&names)), to_candid_type(&t, Some(&names)));
    let (env_i, t_i) = (to_candid_env(&env, None), to_candid_type(&t, None));
    let shuffled = rng.bool();
    let (vn_in, vi_in) = if shuffled { (shuffle_fields(&vn, rng), shuffle_fields(&vi, rng)) } else { (vn.clone(), vi.clone()) };
    // known defects of the untyped decoder keyed on the *spelling* of an expected label
    let has_underscore = names.values().any(|n| n == "_");
    let has_comma = names.values().any(|n| n.contains(','));
    let input = |bytes: &[u8]| {
        json!({
            "env": env.to_string(),
            "type": t.to_string(),
            "value": v.to_string(),
            "names": names.iter().map(|(k, v)| format!("{k}={v:?}")).collect::<Vec<_>>(),
            "bytes": hex(bytes),
            "value_fields_shuffled": shuffled,
        })
    };
    // (value spelling, type spelling used to encode) -> decode against the other spelling
    let combos: [(&str, &IDLValue, &TypeEnv, &Type, &TypeEnv, &Type, &str); 4] = [
        ("named-value/named-type", &vn_in, &env_n, &t_n, &env_i, &t_i, "numeric"),
        ("numeric-value/numeric-type", &vi_in, &env_i, &t_i, &env_n, &t_n, "named"),
        ("named-value/numeric-type", &vn_in, &env_i, &t_i, &env_n, &t_n, "named"),
        ("numeric-value/named-type", &vi_in, &env_n, &t_n, &env_i, &t_i, "numeric"),
    ];
    let mut all_bytes: Vec<Vec<u8>> = Vec::new();
    for (what, val, eenv, ety, denv, dty, dspell) in combos {
        let args = IDLArgs { args: vec![val.clone()] };
        let bytes = match catch(|| args.to_bytes_with_types(eenv, &[ety.clone()])) {
            Ok(Ok(b)) => b,
            Ok(Err(e)) => {
                ctx.violation(
                    &format!("wire|encode-fails|{what}|{}", err_class(&e)),
                    &format!("to_bytes_with_types failed for {what}{}: {e}", if shuffled { " (value fields in shuffled order)" } else { "" }),
                    input(&[]),
                );
                continue;
            }
            Err(p) => {
                ctx.violation(&format!("panic|wire|encode|{what}|{}", short(&p.location)), &p.message, input(&[]));
                continue;
            }
        };
        // on the wire: ids ascending (the reference decoder rejects anything else), same value
        match wire::decode(&bytes) {
            Ok(d) => {
                if d.values.len() != 1 {
                    ctx.violation(&format!("wire|reference-decode|{what}|arg-count"), "one argument expected", input(&bytes));
                } else if let Some(df) = diff(&expect, &super::common::future_as_null(&d.values[0]), &mut String::from("v")) {
                    ctx.violation(
                        &format!("wire|reference-decode|{what}|value-mismatch"),
                        &format!("reference decoder reads a different value at {df}"),
                        input(&bytes),
                    );
                } else {
                    ctx.count("agree:wire-ids-ascending-and-value");
                }
            }
            Err(e) => ctx.violation(
                &format!("wire|encoder-output-malformed|{what}"),
                &format!("reference decoder rejects the encoder's output: {e:?}"),
                input(&bytes),
            ),
        }
        match catch(|| IDLArgs::from_bytes_with_types(&bytes, denv, &[dty.clone()])) {
            Ok(Ok(a)) if a.args.len() == 1 => match diff(&expect, &model_value(&a.args[0]), &mut String::from("v")) {
                None => ctx.count(&format!("agree:wire:{what}")),
                Some(df) => {
                    let sig = if dspell == "named" && has_underscore && df.contains("record fields") {
                        "wire|decode-against-named-type|label-underscore-dropped".to_string()
                    } else {
                        format!("wire|decode-against-{dspell}-type|{what}|value-mismatch")
                    };
                    ctx.violation(
                        &sig,
                        &format!("encoded as {what}, decoded against the {dspell} spelling: differs at {df}"),
                        input(&bytes),
                    )
                }
            },
            Ok(Ok(a)) => ctx.violation(
                &format!("wire|decode-against-{dspell}-type|{what}|arg-count"),
                &format!("{} arguments", a.args.len()),
                input(&bytes),
            ),
            Ok(Err(e)) => ctx.violation(
                &format!("wire|decode-against-{dspell}-type|{what}|{}", err_class(&e)),
                &format!("encoded as {what}, decoding against the {dspell} spelling fails: {e}"),
                input(&bytes),
            ),
            Err(p) => {
                let sig = if dspell == "named" && has_comma && p.location.contains("value.rs") {
                    format!("panic|wire|decode-against-named-type|label-with-comma|{}", short(&p.location))
                } else {
                    format!("panic|wire|decode-against-{dspell}-type|{}", short(&p.location))
                };
                ctx.violation(&sig, &p.message, input(&bytes))
            }
        }
        all_bytes.push(bytes);
    }
    if all_bytes.len() == 4 && all_bytes.iter().any(|b| *b != all_bytes[0]) {
        ctx.count("observed:spellings-give-different-bytes");
    }
    ctx.count(if shuffled { "cover:wire:value-fields-shuffled" } else { "cover:wire:value-fields-in-id-order" });
    let spelled_differently = {
        // is some record written in an order that differs between spelling and id?
        names.len() >= 2
    };
    if spelled_differently {
        ctx.count("cover:wire:two-or-more-names");
    }
    ctx.nontrivial(hash_str(&format!("{}|{}", super::common::shape(&env, &t, 5), names.len())));
    ctx.sample(|| input(all_bytes.first().map(|b| &b[..]).unwrap_or(&[])));
}

// ---------------------------------------------------------------------------------------
// family 5: binary header

fn header_family(ctx: &mut Ctx, rng: &mut Rng) {
    let n = 2 + rng.usize(3);
    let base = match rng.below(4) {
        0 => rng.below(5) as u32,
        1 => u32::MAX - rng.below(5) as u32,
        2 => label_hash(&gen_name(rng)),
        _ => rng.next() as u32,
    };
    let mut ids: Vec<u32> = (0..n)
        .map(|_| match rng.below(4) {
            0 => base,
            1 => base.wrapping_add(rng.below(3) as u32),
            2 => base.wrapping_sub(rng.below(3) as u32),
            _ => rng.next() as u32,
        })
        .collect();
    match rng.below(4) {
        0 => ids.sort(),
        1 => {
            ids.sort();
            ids.dedup();
        }
        2 => {
            ids.sort();
            ids.reverse();
        }
        _ => {}
    }
    let ascending = ids.windows(2).all(|w| w[0] < w[1]);
    let is_variant = rng.bool();
    let mut b = b"DIDL\x01".to_vec();
    b.push(if is_variant { 0x6b } else { 0x6c });
    b.extend(leb_u64(ids.len() as u64));
    for id in &ids {
        b.extend(leb_u64(*id as u64));
        b.push(if is_variant { 0x7f } else { 0x7d }); // null / nat
    }
    b.extend([0x01, 0x00]);
    if is_variant {
        b.push(0x00); // first alternative, null payload
    } else {
        for i in 0..ids.len() {
            b.push(i as u8 + 1);
        }
    }
    let kind = if is_variant { "variant" } else { "record" };
    let input = || json!({"bytes": hex(&b), "ids": ids, "kind": kind});
    let model_ok = wire::decode(&b).is_ok();
    if model_ok != ascending {
        ctx.count("excluded:reference-decoder-disagrees-with-crafting");
        return;
    }
    match catch(|| IDLArgs::from_bytes(&b)) {
        Ok(Ok(a)) => {
            if !ascending {
                let why = if ids.windows(2).any(|w| w[0] == w[1]) { "duplicate" } else { "unsorted" };
                ctx.violation(
                    &format!("header-accepts-bad-field-ids|{kind}|{why}"),
                    &format!("table entry with ids {ids:?} decoded as {a}"),
                    input(),
                );
            } else {
                // the value carries exactly these ids
                let got: Vec<u32> = match a.args.first() {
                    Some(IDLValue::Record(fs)) => fs.iter().map(|f| f.id.get_id()).collect(),
                    Some(IDLValue::Variant(v)) => vec![v.0.id.get_id()],
                    _ => vec![],
                };
                let want: Vec<u32> = if is_variant { vec![ids[0]] } else { ids.clone() };
                if got != want {
                    ctx.violation(
                        &format!("header|decoded-ids-mismatch|{kind}"),
                        &format!("decoded ids {got:?}, table ids {want:?}"),
                        input(),
                    );
                } else {
                    ctx.count("agree:header-accepted");
                }
            }
        }
        Ok(Err(e)) => {
            if ascending {
                ctx.violation(
                    &format!("header-rejects-sorted-ids|{kind}|{}", err_class(&e)),
                    &format!("ids {ids:?} are strictly ascending but the message is rejected: {e}"),
                    input(),
                );
            } else {
                ctx.count("agree:header-rejected");
            }
        }
        Err(p) => ctx.violation(&format!("panic|header|{}", short(&p.location)), &p.message, input()),
    }
    ctx.count(&format!("cover:header:{kind}:{}", if ascending { "ascending" } else { "bad-order" }));
    ctx.nontrivial(hash_str(&format!("{ids:?}{kind}")));
    ctx.sample(input);
}

// ---------------------------------------------------------------------------------------
// family 6: derived types

#[derive(Clone, Debug)]
enum L {
    N(&'static str),
    I(u32),
}
#[derive(Clone, Debug)]
enum Sh {
    Any,
    Rec(Vec<(L, Sh)>),
    Var(Vec<(L, Sh)>),
    Opt(Box<Sh>),
    Vec(Box<Sh>),
}
fn n(s: &'static str) -> (L, Sh) {
    (L::N(s), Sh::Any)
}
fn i(k: u32) -> (L, Sh) {
    (L::I(k), Sh::Any)
}
fn ns(s: &'static str, sh: Sh) -> (L, Sh) {
    (L::N(s), sh)
}

fn shape_check(env: &REnv, t: &RType, sh: &Sh, path: &str) -> Result<usize, String> {
    let t = env.unfold(t).ok_or("dangling")?;
    match (sh, t) {
        (Sh::Any, _) => Ok(0),
        (Sh::Opt(s), RType::Opt(x)) | (Sh::Vec(s), RType::Vec(x)) => shape_check(env, x, s, path),
        (Sh::Rec(fs), RType::Record(ts)) | (Sh::Var(fs), RType::Variant(ts)) => {
            let mut want: Vec<(u32, &L, &Sh)> = fs
                .iter()
                .map(|(l, s)| {
                    (
                        match l {
                            L::N(name) => label_hash(name),
                            L::I(k) => *k,
                        },
                        l,
                        s,
                    )
                })
                .collect();
            want.sort_by_key(|w| w.0);
            let got: Vec<u32> = ts.iter().map(|f| f.0).collect();
            let wids: Vec<u32> = want.iter().map(|w| w.0).collect();
            if got != wids {
                return Err(format!(
                    "{path}: field ids {got:?}, expected the sorted spec hashes {wids:?} of {:?}",
                    want.iter().map(|w| w.1).collect::<Vec<_>>()
                ));
            }
            let mut cnt = ts.len();
            for ((_, l, s), (_, ft)) in want.iter().zip(ts.iter()) {
                cnt += shape_check(env, ft, s, &format!("{path}.{l:?}"))?;
            }
            Ok(cnt)
        }
        (s, t) => Err(format!("{path}: expected {s:?}, derived type is {t}")),
    }
}

macro_rules! cdt {
    ($($item:item)*) => { $( #[derive(CandidType, Deserialize, PartialEq, Debug, Clone)] $item )* };
}

cdt! {
    struct D01 { a: u8, b: String, c: bool }
    struct D02 { #[serde(rename = "type")] ty: u8, #[serde(rename = "record")] r: u8, #[serde(rename = "vec")] v: u8, #[serde(rename = "opt")] o: u8 }
    struct D03 { #[serde(rename = "名前")] n: u8, #[serde(rename = "with space")] w: u8, #[serde(rename = "é")] e: u8 }
    struct D04 { r#type: u8, r#fn: u8, r#match: u8, r#async: u8 }
    struct D05(u8, String);
    struct D06(u16);
    struct D07 { zebra: u8, apple: u8, mango: u8, _under: u8, CamelCase: u8 }
    enum E01 { A, B, C }
    enum E02 { Unit, Tuple(u8, String), Newtype(u16), Struct { x: u8, y: String } }
    enum E03 { #[serde(rename = "type")] T, #[serde(rename = "opt")] O(u8), #[serde(rename = "with space")] W { #[serde(rename = "名")] n: u8 } }
    enum E04 { r#type, r#fn(u8), r#loop { r#in: u8 } }
    struct D08 { #[serde(rename = "1")] one: u8, #[serde(rename = "42")] n42: u8, #[serde(rename = "0x1F")] h: u8, #[serde(rename = "-1")] m: u8 }
    struct D09 { #[serde(rename = "")] empty: u8, #[serde(rename = "__")] us: u8, #[serde(rename = " ")] sp: u8 }
    struct D10 { #[serde(rename = "quo\"te")] q: u8, #[serde(rename = "back\\slash")] b: u8, #[serde(rename = "new\nline")] nl: u8, #[serde(rename = "tab\t")] t: u8 }
    struct D11 { #[serde(rename = "\u{1F600}")] emoji: u8, #[serde(rename = "\u{301}x")] comb: u8, #[serde(rename = "\u{feff}")] bom: u8, #[serde(rename = "\u{202e}abc")] bidi: u8 }
    struct D12 { inner: D01, list: Vec<D05>, opt: Option<E01>, renamed: D02 }
    enum E05 { #[serde(rename = "Ok")] Good(u8), #[serde(rename = "Err")] Bad(String) }
    struct D13 { Ok: u8, Err: u8, None: u8, Some: u8 }
    struct D14 { id: u64, name: String, value: i32, key: u8, head: u8, tail: u8 }
    struct D16 { #[serde(rename = "a")] x: u8, b: u8, #[serde(rename = "c")] zzz: u8 }
    enum E06 { #[serde(rename = "a")] X, b, #[serde(rename = "c")] Z(u8) }
    struct D17 { nat: u8, text: u8, int: u8, bool: u8, principal: u8, blob: u8, service: u8, func: u8, query: u8, oneway: u8, null: u8, empty: u8, reserved: u8, variant: u8, record: u8 }
    struct D18<T> { v: T, n: u8 }
    struct D19 { #[serde(rename(serialize = "ser", deserialize = "ser"))] f: u8, g: u8 }
    enum E07 { A { a: u8 }, B { b: u8 }, #[serde(rename = "C c")] C { #[serde(rename = "c c")] c: u8 } }
    struct D20 { f0: u8, f1: u8, f2: u8, f3: u8, f4: u8, f5: u8, f6: u8, f7: u8, f8: u8, f9: u8 }
    struct D21(u8, u16, u32, u64);
    struct D22 {}
    enum E08 { Only }
    struct D23 { tuple: (u8, String), arr: Vec<(u8, u8)> }
    struct D24 { #[serde(rename = "4294967295")] m: u8, #[serde(rename = "4294967296")] n: u8 }
    struct D25 { Z: u8, a: u8, A: u8, z: u8 }
    struct D26 { kviccgm: u8, kmoz: u8, ugidop: u8 }
}

fn derived_case<T>(ctx: &mut Ctx, name: &str, v: T, sh: Sh)
where
    T: CandidType + for<'a> Deserialize<'a> + PartialEq + std::fmt::Debug,
{
    let input = |extra: &str| json!({"type": name, "value": format!("{v:?}"), "detail": extra});
    let ty = match catch(T::ty) {
        Ok(t) => t,
        Err(p) => {
            ctx.violation(&format!("panic|derived|ty|{name}"), &p.message, input(""));
            return;
        }
    };
    let (renv, rts) = match from_candid(&TypeEnv::new(), &[ty.clone()]) {
        Ok(x) => x,
        Err(e) => {
            ctx.violation(&format!("derived|type-conversion|{name}"), &e, input(""));
            return;
        }
    };
    match shape_check(&renv, &rts[0], &sh, name) {
        Ok(cnt) => ctx.count_n("agree:derived-field-ids", cnt as u64),
        Err(e) => {
            ctx.violation(&format!("derived|field-ids-mismatch|{name}"), &e, input(&rts[0].to_string()));
            return;
        }
    }
    let bytes = match catch(|| Encode!(&v)) {
        Ok(Ok(b)) => b,
        Ok(Err(e)) => {
            ctx.violation(&format!("derived|encode-fails|{name}"), &e.to_string(), input(""));
            return;
        }
        Err(p) => {
            ctx.violation(&format!("panic|derived|encode|{name}"), &p.message, input(""));
            return;
        }
    };
    let hx = hex(&bytes);
    // ids ascending on the wire
    let rv = match wire::decode(&bytes) {
        Ok(d) if d.values.len() == 1 => d.values[0].clone(),
        other => {
            ctx.violation(
                &format!("derived|encoder-output-malformed|{name}"),
                &format!("reference decoder: {:?}", other.err()),
                input(&hx),
            );
            return;
        }
    };
    // untyped, against the type spelled with numeric ids and with the derived names
    let tnum = to_candid_type(&rts[0], None);
    let envnum = to_candid_env(&renv, None);
    let a1 = match catch(|| IDLArgs::from_bytes_with_types(&bytes, &envnum, &[tnum.clone()])) {
        Ok(Ok(a)) if a.args.len() == 1 => a,
        Ok(Ok(_)) => return,
        Ok(Err(e)) => {
            ctx.violation(&format!("derived|decode-against-numeric-type|{name}"), &e.to_string(), input(&hx));
            return;
        }
        Err(p) => {
            ctx.violation(&format!("panic|derived|decode-numeric|{name}"), &p.message, input(&hx));
            return;
        }
    };
    if let Some(d) = diff(&rv, &model_value(&a1.args[0]), &mut String::from("v")) {
        ctx.violation(
            &format!("derived|numeric-type-value-mismatch|{name}"),
            &format!("reference decoder vs decode against numeric ids differ at {d}"),
            input(&hx),
        );
    }
    match catch(|| IDLArgs::from_bytes_with_types(&bytes, &TypeEnv::new(), &[ty.clone()])) {
        Ok(Ok(a2)) if a2.args.len() == 1 => {
            if let Some(d) = diff(&model_value(&a1.args[0]), &model_value(&a2.args[0]), &mut String::from("v")) {
                ctx.violation(
                    &format!("derived|named-vs-numeric-decode-mismatch|{name}"),
                    &format!("decoding against T::ty() and against its numeric spelling differ at {d}"),
                    input(&hx),
                );
            } else {
                ctx.count("agree:derived-untyped-decode");
            }
        }
        Ok(Ok(_)) => {}
        Ok(Err(e)) => ctx.violation(&format!("derived|decode-against-own-type|{name}"), &e.to_string(), input(&hx)),
        Err(p) => ctx.violation(&format!("panic|derived|decode-named|{name}"), &p.message, input(&hx)),
    }
    // natively
    match catch(|| Decode!(&bytes, T)) {
        Ok(Ok(back)) if back == v => ctx.count("agree:derived-native-roundtrip"),
        Ok(Ok(back)) => ctx.violation(
            &format!("derived|native-roundtrip-mismatch|{name}"),
            &format!("decoded {back:?}"),
            input(&hx),
        ),
        Ok(Err(e)) => ctx.violation(&format!("derived|native-decode-fails|{name}"), &e.to_string(), input(&hx)),
        Err(p) => ctx.violation(&format!("panic|derived|native-decode|{name}"), &p.message, input(&hx)),
    }
    // vice versa: the untyped value with numeric labels, encoded at the numeric type, is a T
    match catch(|| a1.to_bytes_with_types(&envnum, &[tnum.clone()])) {
        Ok(Ok(b2)) => match catch(|| Decode!(&b2, T)) {
            Ok(Ok(back)) if back == v => ctx.count("agree:derived-numeric-to-native"),
            Ok(Ok(back)) => ctx.violation(
                &format!("derived|numeric-to-native-mismatch|{name}"),
                &format!("decoded {back:?}"),
                input(&hex(&b2)),
            ),
            Ok(Err(e)) => ctx.violation(&format!("derived|numeric-to-native-fails|{name}"), &e.to_string(), input(&hex(&b2))),
            Err(p) => ctx.violation(&format!("panic|derived|numeric-to-native|{name}"), &p.message, input(&hex(&b2))),
        },
        Ok(Err(e)) => ctx.violation(&format!("derived|numeric-reencode-fails|{name}"), &e.to_string(), input(&hx)),
        Err(p) => ctx.violation(&format!("panic|derived|numeric-reencode|{name}"), &p.message, input(&hx)),
    }
    ctx.count(&format!("cover:derived:{name}"));
    ctx.nontrivial(hash_str(&format!("{name}{hx}")));
    ctx.sample(|| input(&hx));
}

fn derived_family(ctx: &mut Ctx, rng: &mut Rng) {
    let mut r8 = || rng.next() as u8;
    let s = |k: u8| ["", "a", "hello", "名前", "x\u{0}y"][(k % 5) as usize].to_string();
    let k = r8() % 36;
    let (a, b, c, d) = (r8(), r8(), r8(), r8());
    let rec = Sh::Rec;
    let var = Sh::Var;
    match k {
        0 => derived_case(ctx, "D01", D01 { a, b: s(b), c: c & 1 == 1 }, rec(vec![n("a"), n("b"), n("c")])),
        1 => derived_case(ctx, "D02", D02 { ty: a, r: b, v: c, o: d }, rec(vec![n("type"), n("record"), n("vec"), n("opt")])),
        2 => derived_case(ctx, "D03", D03 { n: a, w: b, e: c }, rec(vec![n("名前"), n("with space"), n("é")])),
        3 => derived_case(ctx, "D04", D04 { r#type: a, r#fn: b, r#match: c, r#async: d }, rec(vec![n("type"), n("fn"), n("match"), n("async")])),
        4 => derived_case(ctx, "D05", D05(a, s(b)), rec(vec![i(0), i(1)])),
        5 => derived_case(ctx, "D06", D06(a as u16 * 257), Sh::Any),
        6 => derived_case(
            ctx,
            "D07",
            D07 { zebra: a, apple: b, mango: c, _under: d, CamelCase: a ^ b },
            rec(vec![n("zebra"), n("apple"), n("mango"), n("_under"), n("CamelCase")]),
        ),
        7 => derived_case(ctx, "E01", [E01::A, E01::B, E01::C][(a % 3) as usize].clone(), var(vec![n("A"), n("B"), n("C")])),
        8 => {
            let v = match a % 4 {
                0 => E02::Unit,
                1 => E02::Tuple(b, s(c)),
                2 => E02::Newtype(b as u16),
                _ => E02::Struct { x: b, y: s(c) },
            };
            derived_case(
                ctx,
                "E02",
                v,
                var(vec![n("Unit"), ns("Tuple", rec(vec![i(0), i(1)])), n("Newtype"), ns("Struct", rec(vec![n("x"), n("y")]))]),
            )
        }
        9 => {
            let v = match a % 3 {
                0 => E03::T,
                1 => E03::O(b),
                _ => E03::W { n: b },
            };
            derived_case(ctx, "E03", v, var(vec![n("type"), n("opt"), ns("with space", rec(vec![n("名")]))]))
        }
        10 => {
            let v = match a % 3 {
                0 => E04::r#type,
                1 => E04::r#fn(b),
                _ => E04::r#loop { r#in: b },
            };
            derived_case(ctx, "E04", v, var(vec![n("type"), n("fn"), ns("loop", rec(vec![n("in")]))]))
        }
        11 => derived_case(ctx, "D08", D08 { one: a, n42: b, h: c, m: d }, rec(vec![n("1"), n("42"), n("0x1F"), n("-1")])),
        12 => derived_case(ctx, "D09", D09 { empty: a, us: b, sp: c }, rec(vec![n(""), n("__"), n(" ")])),
        13 => derived_case(
            ctx,
            "D10",
            D10 { q: a, b, nl: c, t: d },
            rec(vec![n("quo\"te"), n("back\\slash"), n("new\nline"), n("tab\t")]),
        ),
        14 => derived_case(
            ctx,
            "D11",
            D11 { emoji: a, comb: b, bom: c, bidi: d },
            rec(vec![n("\u{1F600}"), n("\u{301}x"), n("\u{feff}"), n("\u{202e}abc")]),
        ),
        15 => derived_case(
            ctx,
            "D12",
            D12 {
                inner: D01 { a, b: s(b), c: true },
                list: vec![D05(c, s(d)); (a % 3) as usize],
                opt: if b & 1 == 1 { Some(E01::B) } else { None },
                renamed: D02 { ty: a, r: b, v: c, o: d },
            },
            rec(vec![
                ns("inner", rec(vec![n("a"), n("b"), n("c")])),
                ns("list", Sh::Vec(Box::new(rec(vec![i(0), i(1)])))),
                ns("opt", Sh::Opt(Box::new(var(vec![n("A"), n("B"), n("C")])))),
                ns("renamed", rec(vec![n("type"), n("record"), n("vec"), n("opt")])),
            ]),
        ),
        16 => derived_case(ctx, "E05", if a & 1 == 1 { E05::Good(b) } else { E05::Bad(s(b)) }, var(vec![n("Ok"), n("Err")])),
        17 => derived_case(ctx, "D13", D13 { Ok: a, Err: b, None: c, Some: d }, rec(vec![n("Ok"), n("Err"), n("None"), n("Some")])),
        18 => derived_case(
            ctx,
            "D14",
            D14 { id: a as u64 * 0x0101_0101_0101, name: s(b), value: c as i32 - 128, key: d, head: a, tail: b },
            rec(vec![n("id"), n("name"), n("value"), n("key"), n("head"), n("tail")]),
        ),
        19 => derived_case(ctx, "D16", D16 { x: a, b, zzz: c }, rec(vec![n("a"), n("b"), n("c")])),
        20 => derived_case(ctx, "E06", [E06::X, E06::b, E06::Z(b)][(a % 3) as usize].clone(), var(vec![n("a"), n("b"), n("c")])),
        21 => derived_case(
            ctx,
            "D17",
            D17 { nat: a, text: b, int: c, bool: d, principal: a, blob: b, service: c, func: d, query: a, oneway: b, null: c, empty: d, reserved: a, variant: b, record: c },
            rec(vec![
                n("nat"), n("text"), n("int"), n("bool"), n("principal"), n("blob"), n("service"), n("func"), n("query"), n("oneway"), n("null"),
                n("empty"), n("reserved"), n("variant"), n("record"),
            ]),
        ),
        22 => derived_case(ctx, "D18<u16>", D18::<u16> { v: (a as u16).wrapping_mul(300), n: b }, rec(vec![n("v"), n("n")])),
        23 => derived_case(ctx, "D18<D05>", D18::<D05> { v: D05(a, s(b)), n: c }, rec(vec![ns("v", rec(vec![i(0), i(1)])), n("n")])),
        24 => derived_case(ctx, "D19", D19 { f: a, g: b }, rec(vec![n("ser"), n("g")])),
        25 => {
            let v = match a % 3 {
                0 => E07::A { a: b },
                1 => E07::B { b },
                _ => E07::C { c: b },
            };
            derived_case(
                ctx,
                "E07",
                v,
                var(vec![ns("A", rec(vec![n("a")])), ns("B", rec(vec![n("b")])), ns("C c", rec(vec![n("c c")]))]),
            )
        }
        26 => derived_case(
            ctx,
            "D20",
            D20 { f0: a, f1: b, f2: c, f3: d, f4: a, f5: b, f6: c, f7: d, f8: a, f9: b },
            rec(vec![n("f0"), n("f1"), n("f2"), n("f3"), n("f4"), n("f5"), n("f6"), n("f7"), n("f8"), n("f9")]),
        ),
        27 => derived_case(ctx, "D21", D21(a, b as u16, c as u32, d as u64), rec(vec![i(0), i(1), i(2), i(3)])),
        28 => derived_case(ctx, "D22", D22 {}, rec(vec![])),
        29 => derived_case(ctx, "E08", E08::Only, var(vec![n("Only")])),
        30 => derived_case(
            ctx,
            "D23",
            D23 { tuple: (a, s(b)), arr: vec![(c, d); (a % 3) as usize] },
            rec(vec![ns("tuple", rec(vec![i(0), i(1)])), ns("arr", Sh::Vec(Box::new(rec(vec![i(0), i(1)]))))]),
        ),
        31 => derived_case(ctx, "D24", D24 { m: a, n: b }, rec(vec![n("4294967295"), n("4294967296")])),
        32 => derived_case(ctx, "D25", D25 { Z: a, a: b, A: c, z: d }, rec(vec![n("Z"), n("a"), n("A"), n("z")])),
        33 => derived_case(ctx, "D26", D26 { kviccgm: a, kmoz: b, ugidop: c }, rec(vec![n("kviccgm"), n("kmoz"), n("ugidop")])),
        34 => derived_case(ctx, "Option<D03>", Some(D03 { n: a, w: b, e: c }), Sh::Opt(Box::new(rec(vec![n("名前"), n("with space"), n("é")])))),
        _ => derived_case(ctx, "Vec<E03>", vec![E03::T, E03::O(a), E03::W { n: b }], Sh::Vec(Box::new(var(vec![n("type"), n("opt"), ns("with space", rec(vec![n("名")]))])))),
    }
}

// ---------------------------------------------------------------------------------------
// family 7: record! / variant! macros (literal tokens; pairs verified against R5 first)

fn macros_family(ctx: &mut Ctx, rng: &mut Rng) {
    for (a, b) in FIXED_PAIRS {
        if label_hash(a) != label_hash(b) {
            ctx.violation("harness|fixed-pair-does-not-collide", &format!("{a} / {b}"), json!({}));
            return;
        }
    }
    let nat = || -> Type { TypeInner::Nat.into() };
    let text = || -> Type { TypeInner::Text.into() };
    let k = rng.below(10);
    let reject = |ctx: &mut Ctx, what: &str, r: Result<Type, crate::ctx::PanicInfo>| match r {
        Err(_) => ctx.count(&format!("agree:macro-rejects:{what}")),
        Ok(t) => ctx.violation(
            &format!("macro-accepts-collision|{what}"),
            &format!("{what} with two labels of one id returned {t}"),
            json!({"macro": what}),
        ),
    };
    match k {
        0 => reject(ctx, "record!:kviccgm/jmst", catch(|| candid::record! { kviccgm: nat(); jmst: text() })),
        1 => reject(ctx, "record!:ugidop/vmgunot", catch(|| candid::record! { ugidop: nat(); other: text(); vmgunot: text() })),
        2 => reject(ctx, "variant!:rf_kdyb/kmoz", catch(|| candid::variant! { rf_kdyb: nat(); kmoz: text() })),
        3 => reject(ctx, "record!:a/97", catch(|| candid::record! { a: nat(); 97: text() })),
        4 => reject(ctx, "variant!:97/a", catch(|| candid::variant! { 97: nat(); a: text() })),
        5 => reject(ctx, "record!:id/23515", catch(|| candid::record! { id: nat(); 23515: text() })),
        6 => reject(ctx, "record!:same-name-twice", catch(|| candid::record! { x: nat(); x: text() })),
        7 => reject(ctx, "variant!:same-id-twice", catch(|| candid::variant! { 5: nat(); 5: text() })),
        _ => {
            // controls: accepted, ids are the spec hashes, sorted by id not by spelling
            let r = catch(|| {
                (
                    candid::record! { zebra: nat(); apple: text(); kviccgm: nat(); kmoz: nat(); 7: nat() },
                    candid::variant! { Ok: nat(); Err: text(); 0: nat() },
                )
            });
            match r {
                Ok((rt, vt)) => {
                    for (t, names, what) in [
                        (rt, vec![label_hash("zebra"), label_hash("apple"), label_hash("kviccgm"), label_hash("kmoz"), 7], "record!"),
                        (vt, vec![label_hash("Ok"), label_hash("Err"), 0], "variant!"),
                    ] {
                        let mut want = names.clone();
                        want.sort();
                        let got: Vec<u32> = match from_candid(&TypeEnv::new(), &[t]) {
                            Ok((_, ts)) => match &ts[0] {
                                RType::Record(fs) | RType::Variant(fs) => fs.iter().map(|f| f.0).collect(),
                                _ => vec![],
                            },
                            Err(_) => vec![],
                        };
                        if got != want {
                            ctx.violation(
                                &format!("macro-field-ids-mismatch|{what}"),
                                &format!("{what} gives ids {got:?}, expected sorted spec hashes {want:?}"),
                                json!({"macro": what}),
                            );
                        } else {
                            ctx.count(&format!("agree:macro-control:{what}"));
                        }
                    }
                }
                Err(p) => ctx.violation("macro-control-panics", &p.message, json!({})),
            }
        }
    }
    ctx.nontrivial(hash_str(&format!("macro{k}")));
}

pub fn run(ctx: &mut Ctx) {
    ctx.max_violations = 80;
    let mut pairs: Option<Vec<(String, String)>> = None;
    let seed = ctx.seed;
    ctx.cases("hash-and-label", 0.2, hash_family);
    ctx.cases("collisions", 0.13, |ctx, rng| {
        if pairs.is_none() {
            let p = birthday(seed);
            ctx.count_n("cover:birthday-pairs-found", p.len() as u64);
            pairs = Some(p);
        }
        collisions_family(ctx, rng, pairs.as_ref().unwrap());
    });
    ctx.cases("parser-path", 0.2, parser_family);
    ctx.cases("wire", 0.2, wire_family);
    ctx.cases("binary-header", 0.1, header_family);
    ctx.cases("derived-types", 0.15, derived_family);
    ctx.cases("macros", 0.02, macros_family);
}
