//! C17 — the generated JavaScript binding denotes the same service interface.
//!
//! Every type-checked program with a main service is compiled by
//! `candid_parser::bindings::javascript::compile`; the resulting ES module is imported by node 20
//! (strict mode) against a recording IDL object (js/idl_recorder.mjs). Oracle: the module loads and the
//! recorded service / init-argument graphs are structurally equal (R3 `requal2`) to the program's
//! model types. One node process per batch of programs.
use crate::ctx::{catch, Ctx};
use crate::model::subtype::requal2;
use crate::rng::hash_str;
use serde_json::json;
use std::path::PathBuf;

#[path = "bind_js.rs"]
pub mod bind_js;
#[path = "bind_lex.rs"]
pub mod bind_lex;
#[path = "bind_prog.rs"]
pub mod bind_prog;
#[path = "bind_rs.rs"]
pub mod bind_rs;

use bind_js::*;
use bind_prog::*;

/// Modules waiting for the next node run, each with the payload the judge needs.
pub struct JsBatch<T> {
    pending: Vec<(String, String, u64, T)>,
    pub limit: usize,
    dir: PathBuf,
    seq: u64,
    /// node is missing or broken: nothing is executed any more, the run is inconclusive
    pub dead: bool,
}

impl<T> JsBatch<T> {
    pub fn new(ctx: &Ctx, limit: usize) -> Self {
        JsBatch {
            pending: Vec::new(),
            limit,
            dir: scratch_dir(ctx).join("js"),
            seq: 0,
            dead: false,
        }
    }
    /// `wrap`: the source is a definitions-only output (no exports) and is wrapped into a factory.
    pub fn push(&mut self, ctx: &Ctx, source: &str, wrap: bool, payload: T) {
        if self.dead {
            return;
        }
        self.seq += 1;
        let stem = format!("m{:06}", self.seq);
        let src = if wrap {
            format!("export default ({{ IDL }}) => {{\n{source}\n}};\n")
        } else {
            source.to_string()
        };
        self.pending.push((stem, src, ctx.case, payload));
    }
    pub fn full(&self) -> bool {
        self.pending.len() >= self.limit
    }
    pub fn flush(&mut self, ctx: &mut Ctx, judge: &mut dyn FnMut(&mut Ctx, &T, &JsResult)) {
        if self.pending.is_empty() {
            return;
        }
        let items = std::mem::take(&mut self.pending);
        if self.dead {
            return;
        }
        let mods: Vec<(String, String)> = items.iter().map(|i| (i.0.clone(), i.1.clone())).collect();
        let current = ctx.case;
        let results = match run_node_batch(&self.dir, &mods) {
            Ok(r) => r,
            Err(NodeError::Missing) => {
                ctx.count("inconclusive:node-missing");
                self.dead = true;
                return;
            }
            Err(NodeError::Failed(m)) => {
                // one module may have taken the whole process down: run them one by one
                ctx.count("node-batch-retry");
                let mut all = std::collections::BTreeMap::new();
                for m1 in &mods {
                    match run_node_batch(&self.dir, std::slice::from_ref(m1)) {
                        Ok(r) => all.extend(r),
                        Err(_) => ctx.count("inconclusive:node-failed"),
                    }
                }
                if all.is_empty() {
                    eprintln!("node batch failed: {m}");
                    self.dead = true;
                    return;
                }
                all
            }
        };
        ctx.count("node-runs");
        for (stem, _, case, payload) in &items {
            match results.get(stem) {
                Some(r) => {
                    ctx.case = *case;
                    judge(ctx, payload, r);
                }
                None => ctx.count("inconclusive:node-no-result"),
            }
        }
        ctx.case = current;
    }
}

pub struct C17Item {
    pub pc: ProgramCase,
    pub js: String,
}

fn clip(s: &str, n: usize) -> String {
    if s.len() <= n {
        s.to_string()
    } else {
        let mut k = n;
        while !s.is_char_boundary(k) {
            k -= 1;
        }
        format!("{}…(+{} bytes)", &s[..k], s.len() - k)
    }
}

/// Signature of a graph mismatch; the two JavaScript-object-key root causes get their own name when the
/// difference is exactly what they predict.
pub fn graph_sig(pc: &ProgramCase, place: &str, d: &Diff, notes: &[String]) -> String {
    use crate::model::misc::label_hash;
    let has_proto = pc.labels.iter().any(|l| l == "__proto__");
    if has_proto && (d.missing_ids.contains(&label_hash("__proto__")) || d.missing_methods.iter().any(|m| m == "__proto__"))
    {
        return "js|graph-differs|__proto__-key-dropped".to_string();
    }
    for l in &pc.labels {
        if l.len() >= 3 && l.starts_with('_') && l.ends_with('_') && l[1..l.len() - 1].chars().all(|c| c.is_ascii_digit()) {
            if let Ok(n) = l[1..l.len() - 1].parse::<u64>() {
                if n <= u32::MAX as u64
                    && d.missing_ids.contains(&label_hash(l))
                    && d.observed_ids.contains(&(n as u32))
                {
                    return "js|graph-differs|label-_N_-read-as-field-id-N".to_string();
                }
            }
        }
    }
    let notes = if notes.is_empty() { String::new() } else { format!("|{}", notes.join(",")) };
    format!("js|graph-differs|{place}|{}{notes}", d.class)
}

/// Signature of a module that node could not evaluate; known root causes get their own name.
pub fn load_error_sig(pc: &ProgramCase, js: &str, stage: &str, name: &str, message: &str) -> String {
    let class = js_error_class(message);
    if pc.tags.contains("label:nul+digit") && class.contains("Octal") {
        return "js|load-error|octal-escape-from-nul+digit".to_string();
    }
    for kw in JS_KEYWORDS {
        if js.contains(&format!("return {kw};")) || js.contains(&format!("return {kw}.getType();")) {
            return "js|load-error|actor-reference-to-js-keyword-definition-unescaped".to_string();
        }
    }
    if class.contains("has already been declared") && pc.tags.contains("def:js-keyword+escaped-twin") {
        return "js|load-error|escaped-keyword-collides-with-definition".to_string();
    }
    if pc.tags.contains("def:IDL") && message.contains("IDL") {
        return "js|load-error|definition-named-IDL".to_string();
    }
    format!("js|load-error|{stage}|{name}|{class}")
}

pub fn judge_c17(ctx: &mut Ctx, it: &C17Item, r: &JsResult) {
    let pc = &it.pc;
    let input = || json!({"origin": pc.origin, "did": clip(&pc.text, 6000), "js": clip(&it.js, 6000)});
    let Some(service) = &pc.service else { return };
    ctx.count("executed");
    match r {
        JsResult::Failed { stage, name, message } => {
            let sig = load_error_sig(pc, &it.js, stage, name, message);
            ctx.violation(
                &sig,
                &format!(
                    "node could not evaluate the generated module (stage {stage}): {name}: {message}; expected: module loads and \
                     idlFactory/init return IDL types"
                ),
                input(),
            );
            ctx.count("outcome:load-error");
        }
        JsResult::Loaded { service: Some(g), init } => {
            let mut bad = false;
            if g.roots.len() != 1 || !requal2(&pc.model_env, service, &g.env, &g.roots[0]) {
                bad = true;
                let d = g
                    .roots
                    .first()
                    .and_then(|r| diff_types(&pc.model_env, service, &g.env, r))
                    .unwrap_or(Diff {
                        class: "unclassified".into(),
                        ..Diff::default()
                    });
                ctx.violation(
                    &graph_sig(pc, "service", &d, &g.notes),
                    &format!(
                        "service type rebuilt by the JS factory differs from the program's at {}; expected (model) {} in env {}",
                        d.path, service, pc.model_env
                    ),
                    input(),
                );
            }
            let want_init: Vec<_> = pc.init.clone().unwrap_or_default();
            match init {
                Some(gi) => {
                    if gi.roots.len() != want_init.len() {
                        bad = true;
                        ctx.violation(
                            "js|graph-differs|init|arity",
                            &format!("init returns {} types, the program has {}", gi.roots.len(), want_init.len()),
                            input(),
                        );
                    } else {
                        for (k, (w, o)) in want_init.iter().zip(gi.roots.iter()).enumerate() {
                            if !requal2(&pc.model_env, w, &gi.env, o) {
                                bad = true;
                                let d = diff_types(&pc.model_env, w, &gi.env, o).unwrap_or(Diff {
                                    class: "unclassified".into(),
                                    ..Diff::default()
                                });
                                ctx.violation(
                                    &graph_sig(pc, "init", &d, &gi.notes),
                                    &format!(
                                        "init argument {k} differs at {}; expected {w} in env {}",
                                        d.path, pc.model_env
                                    ),
                                    input(),
                                );
                                break;
                            }
                        }
                    }
                }
                None => {
                    bad = true;
                    ctx.violation("js|no-init-graph", "runner returned no init graph", input());
                }
            }
            ctx.count(if bad { "outcome:graph-differs" } else { "outcome:equal" });
        }
        JsResult::Loaded { service: None, .. } => {
            ctx.violation("js|no-service-graph", "runner returned no service graph", input());
        }
    }
    for t in &pc.tags {
        ctx.count(&format!("cover:{t}"));
    }
    if it.js.contains("IDL.Rec()") {
        ctx.count("cover:js-rec");
    }
    if it.js.contains(".getType()") {
        ctx.count("cover:js-getType");
    }
    if pc.init.as_ref().map(|i| !i.is_empty()).unwrap_or(false) {
        ctx.count("cover:init-args");
    }
    let nm = pc.methods().map(|m| m.len()).unwrap_or(0);
    if nm > 0 || pc.init.as_ref().map(|i| !i.is_empty()).unwrap_or(false) {
        ctx.nontrivial(hash_str(&pc.text));
    }
    ctx.sample(|| json!({"origin": pc.origin, "did": clip(&pc.text, 1500), "js": clip(&it.js, 1500)}));
}

/// Compile one case and queue it. Returns false when the case was not queued.
pub fn submit_c17(ctx: &mut Ctx, batch: &mut JsBatch<C17Item>, pc: ProgramCase) -> bool {
    if pc.service.is_none() {
        ctx.count("excluded:no-main-service");
        return false;
    }
    let checked = match check_case(&pc) {
        Ok(c) => c,
        Err(m) => {
            // agreement of the checker with the generator's notion of "well typed" is C12/C14's business
            ctx.count(&format!("excluded:not-accepted:{}", reject_class(&m)));
            if std::env::var("VERIF_DEBUG_REJECT").is_ok() {
                eprintln!("REJECTED case {} ({m}):\n{}\n", ctx.case, pc.text.chars().take(1500).collect::<String>());
            }
            return false;
        }
    };
    if checked.actor.is_none() {
        ctx.count("excluded:checker-sees-no-actor");
        return false;
    }
    let js = match catch(|| candid_parser::bindings::javascript::compile(&checked.env, &checked.actor)) {
        Ok(s) => s,
        Err(p) => {
            ctx.violation(
                &format!("js|panic|{}", p.sig()),
                &format!("javascript::compile panicked: {}", p.message),
                json!({"origin": pc.origin, "did": clip(&pc.text, 6000)}),
            );
            return false;
        }
    };
    batch.push(ctx, &js.clone(), false, C17Item { pc, js });
    true
}

pub fn run(ctx: &mut Ctx) {
    if !node_available() {
        ctx.count("inconclusive:node-missing");
        return;
    }
    let limit = if ctx.only.is_some() { 1 } else { 100 };
    let mut batch: JsBatch<C17Item> = JsBatch::new(ctx, limit);

    // the repository's own assets (finite family, split over the shards)
    let assets: Vec<ProgramCase> = asset_cases().into_iter().chain(catalogue_cases()).filter(|c| c.service.is_some()).collect();
    if !assets.is_empty() {
        let saved = ctx.max_cases;
        let n = assets.len() as u64;
        ctx.max_cases = (n + ctx.nshards - 1) / ctx.nshards.max(1);
        ctx.cases("assets", 1.0, |ctx, _rng| {
            let local = ctx.case & ((1 << 40) - 1);
            if let Some(pc) = assets.get(local as usize) {
                submit_c17(ctx, &mut batch, pc.clone());
            }
        });
        ctx.max_cases = saved;
        batch.flush(ctx, &mut judge_c17);
    }

    // generated programs: one family, the producer is drawn per case (weights in tenths)
    let adhoc: [(&str, u64, GenCfg); 4] = [
        (
            "adhoc-mixed",
            2,
            GenCfg {
                actor: ActorWant::Yes,
                ..GenCfg::default()
            },
        ),
        (
            "adhoc-hostile-names",
            2,
            GenCfg {
                actor: ActorWant::Yes,
                labels: NameMode::Hostile,
                defs: NameMode::Keywords,
                docs: DocMode::Hostile,
                ..GenCfg::default()
            },
        ),
        (
            "adhoc-keywords",
            1,
            GenCfg {
                actor: ActorWant::Yes,
                labels: NameMode::Keywords,
                defs: NameMode::Keywords,
                max_defs: 7,
                ..GenCfg::default()
            },
        ),
        (
            "adhoc-recursive",
            1,
            GenCfg {
                actor: ActorWant::Yes,
                labels: NameMode::Plain,
                defs: NameMode::Plain,
                docs: DocMode::None,
                max_defs: 8,
                max_depth: 4,
                ..GenCfg::default()
            },
        ),
    ];
    ctx.cases("generated", 1.0, |ctx, rng| {
        let pick = rng.below(10);
        let pc = if pick < 6 {
            let mut acc = 0;
            let mut chosen = &adhoc[0];
            for a in adhoc.iter() {
                acc += a.1;
                if pick < acc {
                    chosen = a;
                    break;
                }
            }
            ctx.count(&format!("producer:{}", chosen.0));
            Some(gen_case(rng, &chosen.2, &format!("adhoc:{}", chosen.0)))
        } else if pick < 9 {
            // the shared generator (crate::prog), always with a main service
            ctx.count("producer:prog-random");
            gen_prog_case(rng, &|c| c.actor_pct = 100, "prog:random")
        } else {
            ctx.count("producer:prog-hostile");
            let tweak = |c: &mut crate::prog::ProgCfg| {
                c.actor_pct = 100;
                c.hostile_names = true;
                c.nul_names = true;
                c.keyword_names = true;
                c.case_collisions = true;
            };
            gen_prog_case(rng, &tweak, "prog:hostile")
        };
        match pc {
            Some(pc) => {
                submit_c17(ctx, &mut batch, pc);
            }
            None => ctx.count("excluded:prog-model-failed"),
        }
        if batch.full() {
            batch.flush(ctx, &mut judge_c17);
        }
    });
    batch.flush(ctx, &mut judge_c17);
    if batch.dead {
        ctx.count("inconclusive:node-unusable");
    }
    let _ = std::fs::remove_dir_all(scratch_dir(ctx));
}
