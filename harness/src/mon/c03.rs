//! C03 — every encoded message is well-formed per the binary format of the spec.
use super::common::*;
use crate::conv::*;
use crate::corpus::registry as reg;
use crate::ctx::{catch, hex, Ctx};
use crate::gen::types::*;
use crate::gen::values::*;
use crate::model::subtype::requal2;
use crate::model::wire::*;
use crate::model::*;
use crate::rng::{hash_str, Rng};
use candid::ser::IDLBuilder;
use candid::IDLArgs;
use serde_json::json;

/// Judge one encoder output against the source types and abstract values.
#[allow(clippy::too_many_arguments)]
fn judge(ctx: &mut Ctx, api: &str, bytes: &[u8], env: &REnv, types: &[RType], want: &[RValue], label: &str, extra: serde_json::Value) -> bool {
    let input = || json!({"api": api, "bytes": hex(bytes), "source": label, "detail": extra});
    let d = match decode(bytes) {
        Ok(d) => d,
        Err(DecErr::Malformed(m)) => {
            let class: String = m.chars().filter(|c| !c.is_ascii_digit()).collect();
            ctx.violation(&format!("malformed-output|{api}|{class}"), &format!("the reference decoder rejects the encoder's output: {m}"), input());
            return false;
        }
        Err(DecErr::OverLimit(m)) => {
            ctx.count("excluded:over-limit");
            let _ = m;
            return true;
        }
    };
    if d.nonminimal {
        ctx.violation(&format!("nonminimal-leb|{api}"), "a LEB128 number in the output is not minimal", input());
        return false;
    }
    if d.has_future {
        ctx.violation(&format!("future-type|{api}"), "the encoder emitted an unknown type opcode", input());
        return false;
    }
    if d.types.len() != types.len() {
        ctx.violation(&format!("arg-count|{api}"), &format!("{} argument types on the wire, {} encoded", d.types.len(), types.len()), input());
        return false;
    }
    for (k, (dt, t)) in d.types.iter().zip(types.iter()).enumerate() {
        if !requal2(&d.env, dt, env, t) {
            ctx.violation(
                &format!("type-differs|{api}|{}", shape(env, t, 2)),
                &format!("argument {k}: wire type {dt} in [{}] is not the source type {t} in [{env}]", d.env),
                input(),
            );
            return false;
        }
    }
    if let Some(df) = diff_all(want, &d.values) {
        ctx.violation(&format!("value-differs|{api}"), &format!("source value (left) vs value read back by the reference decoder (right): {df}"), input());
        return false;
    }
    true
}

fn native_case(ctx: &mut Ctx, rng: &mut Rng, wide: bool) {
    let n_types = reg::len();
    let nargs = if wide {
        // enough distinct compound types for a type table with well over 64 entries
        25 + rng.usize(40)
    } else {
        match rng.below(6) {
            0 => 0,
            1 | 2 | 3 => 1,
            4 => 2,
            _ => 3,
        }
    };
    let picks: Vec<usize> = (0..nargs).map(|_| rng.usize(n_types)).collect();
    let seed = rng.next();
    let fuel = if wide { *rng.pick(&[1i64, 4, 10]) } else { *rng.pick(&[1i64, 8, 30, 80]) };
    let build = |picks: &[usize]| -> Result<(Vec<u8>, Vec<RValue>), String> {
        let mut r = Rng::new(seed);
        let mut b = IDLBuilder::new();
        let mut ms = Vec::new();
        for i in picks {
            ms.push(reg::with(*i, |t| t.arg_into(&mut b, &mut r, fuel))?);
        }
        match catch(|| b.serialize_to_vec()) {
            Err(p) => Err(format!("panic|{}", p.sig())),
            Ok(Err(e)) => Err(format!("error|{e}")),
            Ok(Ok(v)) => Ok((v, ms)),
        }
    };
    let names: Vec<String> = picks.iter().map(|i| reg::with(*i, |t| t.name())).collect();
    let label = names.join(", ");
    let (bytes, models) = match build(&picks) {
        Ok(x) => x,
        Err(e) => {
            ctx.violation(
                &format!("encode-fails|native|{}", e.split('|').take(2).collect::<Vec<_>>().join("|").chars().filter(|c| !c.is_ascii_digit()).take(80).collect::<String>()),
                &format!("encoding generated values of ({label}) failed: {e}"),
                json!({"types": label, "seed": seed}),
            );
            return;
        }
    };
    // source types as a model
    let mut env = REnv::new();
    let mut ts = Vec::new();
    for i in &picks {
        let (e, t) = reg::with(*i, |t| t.rtype());
        let off = env.append(&e);
        ts.push(t.shift_refs(off));
    }
    let ok = judge(ctx, "Encode!", &bytes, &env, &ts, &models, &label, json!({"seed": seed}));
    // determinism (hash containers iterate in a per-instance order: excluded)
    if ok && !label.contains("Hash") {
        if let Ok((again, _)) = build(&picks) {
            if again != bytes {
                ctx.violation("nondeterministic|Encode!", "encoding the same arguments twice gave different bytes", json!({"types": label, "first": hex(&bytes), "second": hex(&again)}));
            }
        }
    }
    for n in &names {
        ctx.count(&format!("cover:native:{}", n.split('<').next().unwrap_or("")));
    }
    if let Ok(d) = decode(&bytes) {
        if d.env.0.len() > 64 {
            ctx.count("cover:table-over-64-entries");
        }
    }
    ctx.nontrivial(hash_str(&format!("native|{label}|{}", bytes.len())));
    ctx.sample(|| json!({"types": label, "bytes": hex(&bytes)}));
}

/// Types whose type table has more than 64 entries (type references stop fitting one SLEB128 byte at 64).
fn wide_types(rng: &mut Rng) -> (REnv, Vec<RType>) {
    let prims = [RType::Nat8, RType::Text, RType::Int, RType::Bool, RType::Nat64, RType::Null, RType::Float32, RType::Principal];
    let n = 65 + rng.usize(90);
    let mut env = REnv::new();
    match rng.below(4) {
        0 => {
            // one record whose fields have pairwise distinct record types
            let fs = (0..n).map(|i| (i as u32 * 3 + 1, RType::record(vec![(1000 + i as u32, rng.pick(&prims).clone())]))).collect();
            (env, vec![RType::record(fs)])
        }
        1 => {
            // a tower of options (kept below the depth limits of model and decoder)
            let mut t = rng.pick(&prims).clone();
            for i in 0..n.min(100) {
                t = if i % 7 == 3 { RType::vec(t) } else { RType::opt(t) };
            }
            (env, vec![t])
        }
        2 => {
            // a chain of named definitions, each referring to the next
            for i in 0..n {
                let next = if i + 1 < n { RType::opt(RType::Ref(i + 1)) } else { rng.pick(&prims).clone() };
                env.0.push(RType::record(vec![(0, next), (1 + i as u32, rng.pick(&prims).clone())]));
            }
            let k = rng.usize(n);
            (env, vec![RType::Ref(0), RType::vec(RType::Ref(k))])
        }
        _ => {
            // many arguments, each of its own variant type
            let ts = (0..n).map(|i| RType::variant(vec![(i as u32, rng.pick(&prims).clone()), (5000 + i as u32, RType::Null)])).collect();
            (env, ts)
        }
    }
}

fn untyped_case(ctx: &mut Ctx, rng: &mut Rng, cfg: &TypeCfg, wide: bool) {
    let (env, cand) = if wide {
        wide_types(rng)
    } else {
        let env = gen_env(rng, cfg);
        let n = rng.usize(4);
        let cand = gen_types(rng, cfg, &env, n);
        (env, cand)
    };
    let vg = ValGen::new(&env);
    let mut fuel = if wide { 400 } else { *rng.pick(&[5i64, 25, 60]) };
    let mut ts = Vec::new();
    let mut vals = Vec::new();
    for t in cand {
        if !encodable(&env, &t) {
            continue;
        }
        if let Some(v) = vg.gen(rng, &t, &mut fuel) {
            ts.push(t);
            vals.push(v);
        }
    }
    let names = if rng.bool() { gen_names(rng, &env, &ts) } else { Names::new() };
    let (cenv, cts) = candid_side(&env, &ts, Some(&names));
    let mut idl = Vec::new();
    for (t, v) in ts.iter().zip(vals.iter()) {
        match to_idl(&env, t, v, Some(&names)) {
            Ok(x) => idl.push(x),
            Err(_) => return,
        }
    }
    // half of the cases give the encoder a hand-built spelling of the same values (see `hand_built`)
    let hb = rng.bool();
    if hb {
        idl = idl.iter().map(|v| hand_built(rng, v)).collect();
        ctx.count("cover:hand-built-values");
    }
    let args = IDLArgs { args: idl };
    let label: String = format!("env=[{env}] types={:?}", ts.iter().map(|t| t.to_string()).collect::<Vec<_>>()).chars().take(3000).collect();
    let detail = json!({"value": args.to_string().chars().take(800).collect::<String>(), "names": names.len()});
    // reserved positions read back as `reserved` regardless of the source value
    let want: Vec<RValue> = vals.clone();
    match catch(|| args.to_bytes_with_types(&cenv, &cts)) {
        Err(p) => ctx.violation(&format!("panic|to_bytes_with_types|{}", p.sig()), &p.message, json!({"source": label, "detail": detail})),
        Ok(Err(e)) => ctx.violation(
            &format!("encode-fails|to_bytes_with_types|{}", err_class(&e)),
            &format!("typed encoding of a well-typed value failed: {e}"),
            json!({"source": label, "detail": detail}),
        ),
        Ok(Ok(bytes)) => {
            if decode(&bytes).map(|d| d.env.0.len() > 64).unwrap_or(false) {
                ctx.count("cover:table-over-64-entries");
            }
            if judge(ctx, "to_bytes_with_types", &bytes, &env, &ts, &want, &label, detail.clone()) {
                if let Ok(Ok(again)) = catch(|| args.to_bytes_with_types(&cenv, &cts)) {
                    if again != bytes {
                        ctx.violation("nondeterministic|to_bytes_with_types", "same arguments, different bytes", json!({"first": hex(&bytes), "second": hex(&again)}));
                    }
                }
            }
            ctx.nontrivial(hash_str(&format!("untyped|{:?}|{}", ts.iter().map(|t| shape(&env, t, 4)).collect::<Vec<_>>(), bytes.len())));
        }
    }
    // builder entry point, one argument at a time
    let r = catch(|| {
        let mut b = IDLBuilder::new();
        for (i, (v, t)) in args.args.iter().zip(cts.iter()).enumerate() {
            if i == 0 {
                b.value_arg_with_type(v, &cenv, t)?;
            } else {
                b.value_arg_with_type(v, &candid::TypeEnv::new(), t)?;
            }
        }
        b.serialize_to_vec()
    });
    match r {
        Err(p) => ctx.violation(&format!("panic|value_arg_with_type|{}", p.sig()), &p.message, json!({"source": label})),
        Ok(Err(e)) => {
            if !args.args.is_empty() {
                ctx.violation(&format!("encode-fails|value_arg_with_type|{}", err_class(&e)), &e.to_string(), json!({"source": label, "detail": detail}))
            }
        }
        Ok(Ok(bytes)) => {
            judge(ctx, "value_arg_with_type", &bytes, &env, &ts, &want, &label, detail.clone());
        }
    }
    // no types: the value's own type is inferred (a vector's element type from its first element), so
    // this only applies to values as the decoder returns them whose vectors are homogeneous
    let decoded = catch(|| args.to_bytes_with_types(&cenv, &cts).and_then(|b| IDLArgs::from_bytes_with_types(&b, &cenv, &cts)));
    let Ok(Ok(args2)) = decoded else { return };
    if !args2.args.iter().all(|v| inferred_shape(v).is_some()) {
        ctx.count("excluded:to_bytes-heterogeneous-vector");
        return;
    }
    match catch(|| args2.to_bytes()) {
        Err(p) => ctx.violation(&format!("panic|to_bytes|{}", p.sig()), &p.message, json!({"source": label, "detail": detail})),
        Ok(Err(e)) => ctx.violation(&format!("encode-fails|to_bytes|{}", err_class(&e)), &e.to_string(), json!({"source": label, "detail": detail})),
        Ok(Ok(bytes)) => match decode(&bytes) {
            Err(DecErr::OverLimit(_)) => {}
            Err(DecErr::Malformed(m)) => {
                let class: String = m.chars().filter(|c| !c.is_ascii_digit()).collect();
                ctx.violation(&format!("malformed-output|to_bytes|{class}"), &format!("reference decoder rejects: {m}"), json!({"bytes": hex(&bytes), "source": label, "detail": detail}))
            }
            Ok(d) => {
                if d.nonminimal {
                    ctx.violation("nonminimal-leb|to_bytes", "non-minimal LEB128 in output", json!({"bytes": hex(&bytes)}));
                }
                // `reserved` values are written as null without a type annotation
                let want2: Vec<RValue> = args2.args.iter().map(|v| reserved_as_null(&model_value(v))).collect();
                let got: Vec<RValue> = d.values.iter().map(reserved_as_null).collect();
                if let Some(df) = diff_all(&want2, &got) {
                    ctx.violation("value-differs|to_bytes", &format!("source (left) vs read back (right): {df}"), json!({"bytes": hex(&bytes), "source": label, "detail": detail}));
                } else {
                    ctx.count("agree:to_bytes");
                }
            }
        },
    }
    ctx.sample(|| json!({"source": label}));
}

/// Shape of the type `to_bytes` has to infer for a value; None when a vector's elements disagree
/// (the inferred type of a vector is that of its first element, so such values have no single type).
fn inferred_shape(v: &candid::IDLValue) -> Option<String> {
    use candid::IDLValue as V;
    Some(match v {
        V::Opt(x) => format!("opt {}", inferred_shape(x)?),
        V::None => "opt empty".into(),
        V::Vec(xs) => {
            let mut first: Option<String> = None;
            for x in xs {
                let s = inferred_shape(x)?;
                match &first {
                    None => first = Some(s),
                    Some(f) if *f == s => {}
                    _ => return None,
                }
            }
            format!("vec {}", first.unwrap_or_else(|| "empty".into()))
        }
        V::Record(fs) => {
            let mut out = String::from("record{");
            for f in fs {
                out.push_str(&format!("{}:{};", f.id.get_id(), inferred_shape(&f.val)?));
            }
            out + "}"
        }
        V::Variant(x) => format!("variant{{{}:{}}}", x.0.id.get_id(), inferred_shape(&x.0.val)?),
        V::Blob(_) => "blob".into(),
        V::Null => "null".into(),
        V::Reserved => "reserved".into(),
        V::Bool(_) => "bool".into(),
        V::Text(_) => "text".into(),
        V::Number(_) | V::Int(_) => "int".into(),
        V::Nat(_) => "nat".into(),
        V::Nat8(_) => "nat8".into(),
        V::Nat16(_) => "nat16".into(),
        V::Nat32(_) => "nat32".into(),
        V::Nat64(_) => "nat64".into(),
        V::Int8(_) => "int8".into(),
        V::Int16(_) => "int16".into(),
        V::Int32(_) => "int32".into(),
        V::Int64(_) => "int64".into(),
        V::Float32(_) => "float32".into(),
        V::Float64(_) => "float64".into(),
        V::Principal(_) => "principal".into(),
        V::Service(_) => "service".into(),
        V::Func(..) => "func".into(),
    })
}

fn reserved_as_null(v: &RValue) -> RValue {
    match v {
        RValue::Reserved => RValue::Null,
        RValue::Opt(x) => RValue::opt(reserved_as_null(x)),
        RValue::Vec(xs) => RValue::Vec(xs.iter().map(reserved_as_null).collect()),
        RValue::Record(fs) => RValue::Record(fs.iter().map(|(i, x)| (*i, reserved_as_null(x))).collect()),
        RValue::Variant(i, x) => RValue::Variant(*i, Box::new(reserved_as_null(x))),
        x => x.clone(),
    }
}

pub fn run(ctx: &mut Ctx) {
    let cfg = TypeCfg::default();
    ctx.cases("native-corpus", 0.45, |ctx, rng| native_case(ctx, rng, false));
    ctx.cases("untyped", 0.45, |ctx, rng| untyped_case(ctx, rng, &cfg, false));
    ctx.cases("native-wide-type-tables", 0.04, |ctx, rng| native_case(ctx, rng, true));
    ctx.cases("untyped-wide-type-tables", 0.06, |ctx, rng| untyped_case(ctx, rng, &cfg, true));
}
