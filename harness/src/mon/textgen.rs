//! Helpers shared by the text-side monitors (C11, C13, C15): hostile label names, an independent
//! printer for names/types (never candid's own printer), renaming of model field ids to names.
use crate::conv::Names;
use crate::gen::types::NAME_POOL;
use crate::gen::values::gen_char;
use crate::model::misc::label_hash;
use crate::model::*;
use crate::rng::Rng;

/// Words the lexer turns into dedicated tokens (token.rs): they cannot be written as bare ids.
pub const LEXER_KEYWORDS: &[&str] = &[
    "null",
    "vec",
    "record",
    "variant",
    "func",
    "service",
    "oneway",
    "query",
    "composite_query",
    "blob",
    "type",
    "import",
    "opt",
    "principal",
    "true",
    "false",
];

/// Primitive type names: bare ids for the lexer, but ambiguous in a record/variant type body.
pub const PRIM_NAMES: &[&str] = &[
    "nat", "nat8", "nat16", "nat32", "nat64", "int", "int8", "int16", "int32", "int64", "float32", "float64", "bool",
    "text", "reserved", "empty",
];

pub const OTHER_KEYWORDS: &[&str] = &[
    "fn", "self", "Self", "struct", "enum", "match", "async", "await", "class", "function", "let", "var", "new",
    "delete", "actor", "shared", "stable", "assert", "__proto__", "constructor", "toString", "hasOwnProperty", "Ok",
    "Err", "Some", "None", "_", "__", "_0_", "id", "Id", "ID",
];

pub fn is_plain_id(s: &str) -> bool {
    let mut cs = s.chars();
    match cs.next() {
        Some(c) if c.is_ascii_alphabetic() || c == '_' => {}
        _ => return false,
    }
    cs.all(|c| c.is_ascii_alphanumeric() || c == '_')
}

/// Can be written without quotes wherever the grammar accepts a `Name`.
pub fn bare_ok(s: &str) -> bool {
    is_plain_id(s) && !LEXER_KEYWORDS.contains(&s) && !PRIM_NAMES.contains(&s)
}

/// My own string literal printer: only `\"`, `\\` and `\u{..}` for C0 controls and DEL.
pub fn quote(s: &str) -> String {
    let mut o = String::with_capacity(s.len() + 2);
    o.push('"');
    for c in s.chars() {
        match c {
            '"' => o.push_str("\\\""),
            '\\' => o.push_str("\\\\"),
            c if (c as u32) < 0x20 || c as u32 == 0x7f => o.push_str(&format!("\\u{{{:x}}}", c as u32)),
            c => o.push(c),
        }
    }
    o.push('"');
    o
}

pub fn spell_name(rng: &mut Rng, s: &str) -> String {
    if bare_ok(s) && rng.bool() {
        s.to_string()
    } else {
        quote(s)
    }
}

/// A label name from every class the property lists.
pub fn gen_label(rng: &mut Rng) -> String {
    match rng.below(16) {
        0 | 1 => {
            // ASCII identifier
            let n = 1 + rng.usize(8);
            let mut s = String::new();
            for i in 0..n {
                let c = if i == 0 {
                    *rng.pick(&['a', 'b', 'x', 'Z', '_', 'q', 'k', 'm'])
                } else {
                    *rng.pick(&['a', 'e', 'z', 'A', 'Q', '_', '0', '1', '9', 'f', 'x'])
                };
                s.push(c);
            }
            s
        }
        2 => rng.pick(LEXER_KEYWORDS).to_string(),
        3 => rng.pick(PRIM_NAMES).to_string(),
        4 => rng.pick(OTHER_KEYWORDS).to_string(),
        5 | 6 => rng.pick(NAME_POOL).to_string(),
        7 => {
            // numeric-looking
            match rng.below(8) {
                0 => "0".to_string(),
                1 => "1".to_string(),
                2 => "4294967295".to_string(),
                3 => "4294967296".to_string(),
                4 => "0x1F".to_string(),
                5 => "1_000".to_string(),
                6 => "-1".to_string(),
                _ => rng.below(100000).to_string(),
            }
        }
        8 => String::new(),
        9 | 10 => {
            // arbitrary Unicode, short
            let n = 1 + rng.usize(4);
            (0..n).map(|_| gen_char(rng)).collect()
        }
        11 => {
            // NUL and friends at every position
            let base = *rng.pick(&["a", "ab", "", "f", "1"]);
            let z = *rng.pick(&["\u{0}", "\u{0}1", "\u{0}a", "\u{0}g", "\u{7f}", "\u{1}", "\u{1b}", "\r", "\n", "\t"]);
            if rng.bool() {
                format!("{base}{z}")
            } else {
                format!("{z}{base}")
            }
        }
        12 => {
            let c = *rng.pick(&[
                "\"", "\\", "'", "\\\"", "\\\\", "a b", " a", "a ", ";", ",", "=", ":", ".", "{", "}", "(", ")", "//", "/*",
                "*/", "a,b", "a;b", "\\u{41}", "\\41", "\\n", "${x}", "{{", "`", "\\0", "\\0a", "a\\0", "\\\\0", "\\u{0}", "\\x00",
                "\\u{", "\\u{}", "\\'", "\\t", "\\r",
            ]);
            if rng.chance(1, 4) {
                // a literal backslash followed by anything (printers that post-process escaped text get these wrong)
                let d = *rng.pick(&['0', '1', '7', 'x', 'u', 'n', 'a', '{', '"', '\\', ' ']);
                return format!("{}\\{d}{}", if rng.bool() { "a" } else { "" }, if rng.bool() { "0" } else { "" });
            }
            c.to_string()
        }
        13 => {
            let c = *rng.pick(&[
                "\u{301}",
                "e\u{301}",
                "\u{202e}abc",
                "\u{200f}",
                "\u{feff}",
                "\u{feff}a",
                "\u{d7ff}",
                "\u{e000}",
                "\u{fffd}",
                "\u{ffff}",
                "\u{10ffff}",
                "\u{1F600}",
                "名前",
                "字段名",
                "字 段 名2",
                "📦🍦",
                "ü",
                "\u{85}",
                "\u{80}",
                "\u{9b}",
                "\u{9f}",
                "\u{ff}",
                "caf\u{e9}",
                "line one\u{85}line two",
                "\u{a0}",
                "\u{2028}",
                "\u{ad}",
                "\u{200b}",
                "\u{e0001}",
            ]);
            c.to_string()
        }
        14 => {
            // long-ish mixed
            let n = rng.usize(24);
            (0..n).map(|_| gen_char(rng)).collect()
        }
        _ => {
            let a = rng.pick(NAME_POOL).to_string();
            let b = rng.pick(NAME_POOL).to_string();
            format!("{a}{b}")
        }
    }
}

/// Replace field ids by hashes of generated names (recording id -> name), keeping records and
/// variants sorted and duplicate-free. `pct` = share of fields that get a name.
pub fn rename_fields(rng: &mut Rng, t: &RType, names: &mut Names, pct: u64) -> RType {
    let do_fields = |rng: &mut Rng, fs: &Vec<(u32, RType)>, names: &mut Names| -> Vec<(u32, RType)> {
        let mut out: Vec<(u32, RType)> = Vec::with_capacity(fs.len());
        for (id, ft) in fs {
            let ft = rename_fields(rng, ft, names, pct);
            let mut new_id = *id;
            if rng.below(100) < pct {
                for _ in 0..4 {
                    let n = gen_label(rng);
                    let h = label_hash(&n);
                    let clash_name = names.get(&h).map(|x| x != &n).unwrap_or(false);
                    if !clash_name && !out.iter().any(|f| f.0 == h) && !fs.iter().any(|f| f.0 == h && f.0 != *id) {
                        names.insert(h, n);
                        new_id = h;
                        break;
                    }
                }
            }
            if out.iter().any(|f| f.0 == new_id) {
                // the original id collides with a freshly named one: pick an unused numeric id
                let mut k = new_id;
                while out.iter().any(|f| f.0 == k) || fs.iter().any(|f| f.0 == k) {
                    k = k.wrapping_add(1);
                }
                new_id = k;
            }
            out.push((new_id, ft));
        }
        out.sort_by_key(|f| f.0);
        out
    };
    match t {
        RType::Opt(x) => RType::opt(rename_fields(rng, x, names, pct)),
        RType::Vec(x) => RType::vec(rename_fields(rng, x, names, pct)),
        RType::Record(fs) => RType::Record(do_fields(rng, fs, names)),
        RType::Variant(fs) => RType::Variant(do_fields(rng, fs, names)),
        RType::Func { args, rets, modes } => RType::Func {
            args: args.iter().map(|x| rename_fields(rng, x, names, pct)).collect(),
            rets: rets.iter().map(|x| rename_fields(rng, x, names, pct)).collect(),
            modes: modes.clone(),
        },
        RType::Service(ms) => RType::Service(
            ms.iter()
                .map(|(n, x)| (n.clone(), rename_fields(rng, x, names, pct)))
                .collect(),
        ),
        x => x.clone(),
    }
}

/// A numeric id never keeps a name in `names` unless the name hashes to it.
pub fn names_consistent(names: &Names) -> bool {
    names.iter().all(|(k, v)| label_hash(v) == *k)
}

/// Print a model type as Candid text with my own printer. Field ids found in `names` are spelled
/// as names (bare or quoted), the others as decimal numbers. `Ref(i)` prints as `T{i}`.
pub fn type_text(t: &RType, names: Option<&Names>, rng: &mut Rng) -> String {
    let mut o = String::new();
    type_text_into(t, names, rng, &mut o);
    o
}

fn label_text(id: u32, names: Option<&Names>, rng: &mut Rng) -> String {
    match names.and_then(|n| n.get(&id)) {
        Some(n) => spell_name(rng, n),
        None => id.to_string(),
    }
}

fn type_text_into(t: &RType, names: Option<&Names>, rng: &mut Rng, o: &mut String) {
    match t {
        RType::Opt(x) => {
            o.push_str("opt ");
            type_text_into(x, names, rng, o);
        }
        RType::Vec(x) => {
            o.push_str("vec ");
            type_text_into(x, names, rng, o);
        }
        RType::Record(fs) | RType::Variant(fs) => {
            o.push_str(if matches!(t, RType::Record(_)) { "record {" } else { "variant {" });
            // written in a random order: the parser has to sort by id
            let mut order: Vec<usize> = (0..fs.len()).collect();
            rng.shuffle(&mut order);
            for k in order {
                let (id, ft) = &fs[k];
                o.push(' ');
                o.push_str(&label_text(*id, names, rng));
                o.push_str(" : ");
                type_text_into(ft, names, rng, o);
                o.push(';');
            }
            o.push_str(" }");
        }
        RType::Func { args, rets, modes } => {
            o.push_str("func (");
            for (i, a) in args.iter().enumerate() {
                if i > 0 {
                    o.push_str(", ");
                }
                type_text_into(a, names, rng, o);
            }
            o.push_str(") -> (");
            for (i, a) in rets.iter().enumerate() {
                if i > 0 {
                    o.push_str(", ");
                }
                type_text_into(a, names, rng, o);
            }
            o.push(')');
            for m in modes {
                o.push_str(match m {
                    Mode::Query => " query",
                    Mode::Oneway => " oneway",
                    Mode::CompositeQuery => " composite_query",
                });
            }
        }
        RType::Service(ms) => {
            o.push_str("service {");
            for (n, ft) in ms {
                o.push(' ');
                o.push_str(&quote(n));
                o.push_str(" : ");
                match ft {
                    RType::Func { .. } => {
                        // method types are written without the `func` keyword
                        let mut s = String::new();
                        type_text_into(ft, names, rng, &mut s);
                        o.push_str(s.strip_prefix("func ").unwrap_or(&s));
                    }
                    other => type_text_into(other, names, rng, o),
                }
                o.push(';');
            }
            o.push_str(" }");
        }
        RType::Ref(i) => o.push_str(&format!("T{i}")),
        RType::Future => o.push_str("future"),
        RType::Null => o.push_str("null"),
        RType::Principal => o.push_str("principal"),
        p => o.push_str(&format!("{p:?}").to_lowercase()),
    }
}

/// Coarse class of one scalar for coverage counters.
pub fn scalar_class(c: char) -> &'static str {
    let u = c as u32;
    match u {
        0 => "nul",
        0x09 | 0x0a | 0x0d => "tab-cr-lf",
        1..=0x1f => "c0-control",
        0x22 => "double-quote",
        0x27 => "single-quote",
        0x5c => "backslash",
        0x20..=0x7e => "ascii-printable",
        0x7f => "del",
        0x80..=0x9f => "c1-control",
        0xa0..=0xff => "latin1",
        0x300..=0x36f | 0x1ab0..=0x1aff | 0x20d0..=0x20ff => "combining",
        0x200b..=0x200f | 0x202a..=0x202e | 0x2066..=0x2069 | 0x61c => "bidi-or-zero-width",
        0x2028 | 0x2029 => "line-separator",
        0xfeff => "bom",
        0xd7ff | 0xe000 => "surrogate-adjacent",
        0xfffe | 0xffff | 0x10fffe | 0x10ffff | 0xfdd0..=0xfdef => "noncharacter",
        0xe001..=0xf8ff | 0xf0000..=0xffffd | 0x100000..=0x10fffd => "private-use",
        0x100..=0xffff => "bmp-other",
        _ => "astral",
    }
}

/// True when `text` contains a backslash that is not itself escaped and is followed by a
/// non-ASCII character. No escape of the text format has that shape, so such a text can never be a
/// faithful print; and on the pinned tree the string sub-lexer's `\\.` rule matches the backslash
/// plus the first *byte* of the character, so lexing it slices a `str` inside a character
/// (undefined behaviour: aborts under debug assertions). Monitors other than C13 refuse to feed
/// such texts to the parser in-process.
pub fn lexer_ub_risk(text: &str) -> bool {
    let mut run = 0usize;
    for c in text.chars() {
        if c == '\\' {
            run += 1;
        } else {
            if run % 2 == 1 && !c.is_ascii() {
                return true;
            }
            run = 0;
        }
    }
    false
}
