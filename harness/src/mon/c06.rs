//! C06 — decoding arbitrary bytes never panics, crashes or over-allocates.
use super::common::*;
use crate::alloc;
use crate::corpus::registry::{self as reg, DecOut};
use crate::ctx::{catch, hex, on_thread, Ctx, PanicInfo};
use crate::gen::hostile;
use crate::gen::types::*;
use crate::model::wire::{decode, DecErr};
use crate::rng::{hash_bytes, hash_str, Rng};
use crate::model::{REnv, RType};
use candid::{DecoderConfig, IDLArgs};
use serde_json::json;

/// Element-access steps allowed without a quota (the library documents unmetered decoding as unbounded;
/// beyond this the no-quota region is not explored, see DESIGN §C06).
const NO_QUOTA_STEP_LIMIT: u64 = 3_000_000;

#[derive(Clone, Debug)]
struct Conf {
    dq: Option<usize>,
    sq: Option<usize>,
    full_msg: bool,
    max_type_len: Option<usize>,
    stack: usize,
}

fn gen_conf(rng: &mut Rng) -> Conf {
    let q = |rng: &mut Rng| *rng.pick(&[0usize, 1, 100, 10_000, 1_000_000]);
    let (dq, sq) = match rng.below(6) {
        0 => (None, None),
        1 | 2 => (Some(q(rng)), None),
        3 => (None, Some(q(rng))),
        _ => (Some(q(rng)), Some(q(rng))),
    };
    Conf {
        dq,
        sq,
        full_msg: rng.bool(),
        max_type_len: if rng.chance(1, 5) { Some(*rng.pick(&[0usize, 1, 10, 100])) } else { None },
        stack: *rng.pick(&[256usize << 10, 512 << 10, 2 << 20, 8 << 20]),
    }
}
fn to_cfg(c: &Conf) -> DecoderConfig {
    let mut d = DecoderConfig::new();
    if let Some(q) = c.dq {
        d.set_decoding_quota(q);
    }
    if let Some(q) = c.sq {
        d.set_skipping_quota(q);
    }
    d.set_full_error_message(c.full_msg);
    if let Some(m) = c.max_type_len {
        d.set_max_type_len(m);
    }
    d
}

#[derive(Clone)]
enum Target {
    Native(usize),
    Untyped(REnv, Vec<RType>, String),
    NoType,
    /// several reads on ONE deserializer, each attempted whatever the earlier ones returned, then `done()`:
    /// native type / untyped at a type / untyped without a type
    Sequence(Vec<Step>, String),
}
#[derive(Clone)]
enum Step {
    Native(usize),
    At(REnv, RType),
    Value,
}

struct Obs {
    outcome: &'static str,
    panic: Option<PanicInfo>,
    steps: u64,
    alloc: alloc::AllocStats,
    err_len: usize,
}

fn observe(target: Target, bytes: Vec<u8>, conf: Conf) -> Obs {
    let cfg = to_cfg(&conf);
    let limit = match conf.dq {
        Some(q) => (q as u64).saturating_add(bytes.len() as u64).saturating_add(64).saturating_mul(4),
        None => NO_QUOTA_STEP_LIMIT,
    };
    let stack = conf.stack;
    let r = on_thread(stack, move || {
        candid::verif::reset(limit);
        alloc::start();
        let r = catch(|| match &target {
            Target::Native(i) => match reg::with(*i, |t| t.decode(&bytes, &cfg)) {
                DecOut::Ok { .. } => Ok(0usize),
                DecOut::Err(_) => Ok(1),
                DecOut::Panic(p) => Err(p),
            },
            Target::Untyped(env, ts, _) => {
                let (cenv, cts) = candid_side(env, ts, None);
                Ok(match IDLArgs::from_bytes_with_types_with_config(&bytes, &cenv, &cts, &cfg) {
                    Ok(_) => 0,
                    Err(_) => 1,
                })
            }
            Target::NoType => Ok(match IDLArgs::from_bytes_with_config(&bytes, &cfg) {
                Ok(_) => 0,
                Err(_) => 1,
            }),
            Target::Sequence(steps, _) => {
                let mut errs = 0usize;
                match candid::de::IDLDeserialize::new_with_config(&bytes, &cfg) {
                    Err(_) => Ok(1),
                    Ok(mut de) => {
                        let mut panic = None;
                        for st in steps {
                            let r = match st {
                                Step::Native(i) => reg::with(*i, |t| t.get_from(&mut de)).map(|r| r.is_ok()),
                                Step::At(env, t) => {
                                    let (cenv, cts) = candid_side(env, std::slice::from_ref(t), None);
                                    catch(|| de.get_value_with_type(&cenv, &cts[0]).is_ok())
                                }
                                Step::Value => catch(|| de.get_value::<candid::IDLValue>().is_ok()),
                            };
                            match r {
                                Ok(true) => {}
                                Ok(false) => errs += 1,
                                Err(p) => {
                                    panic = Some(p);
                                    break;
                                }
                            }
                        }
                        match panic {
                            Some(p) => Err(p),
                            None => match catch(|| (de.is_done(), de.done().is_ok())) {
                                Ok((_, ok)) => Ok(errs + usize::from(!ok)),
                                Err(p) => Err(p),
                            },
                        }
                    }
                }
            }
        });
        let st = alloc::stop();
        let steps = candid::verif::steps();
        candid::verif::reset(u64::MAX);
        (r, st, steps)
    });
    match r {
        Err(p) => Obs {
            outcome: "panic",
            panic: Some(p),
            steps: 0,
            alloc: Default::default(),
            err_len: 0,
        },
        Ok((r, st, steps)) => match r {
            Err(p) | Ok(Err(p)) => Obs {
                outcome: "panic",
                panic: Some(p),
                steps,
                alloc: st,
                err_len: 0,
            },
            Ok(Ok(n)) => Obs {
                outcome: if n == 0 { "ok" } else { "err" },
                panic: None,
                steps,
                alloc: st,
                err_len: n,
            },
        },
    }
}

fn judge(ctx: &mut Ctx, family: &str, target: &Target, bytes: &[u8], conf: &Conf) {
    let tname = match target {
        Target::Native(i) => reg::with(*i, |t| t.name()),
        Target::Untyped(_, _, l) => l.clone(),
        Target::NoType => "(no expected type)".into(),
        Target::Sequence(_, l) => l.clone(),
    };
    let tkind = match target {
        Target::Sequence(..) => "sequence-on-one-deserializer",
        Target::Native(_) => "native",
        Target::Untyped(..) => "untyped",
        Target::NoType => "from_bytes",
    };
    // the interpreter lane is ~10^4 times slower: bounded inputs and quotas there (the native lanes cover the rest)
    let mut conf_m = conf.clone();
    if ctx.lane == "M" {
        if bytes.len() > 4096 {
            ctx.count("excluded:miri-lane-input-over-4096-bytes");
            return;
        }
        conf_m.dq = Some(conf.dq.unwrap_or(2000).min(2000));
    }
    let conf = &conf_m;
    let obs = observe(target.clone(), bytes.to_vec(), conf.clone());
    let input = || json!({"family": family, "target": tname, "bytes": hex(bytes), "len": bytes.len(), "conf": format!("{conf:?}")});
    ctx.count(&format!("outcome:{}", obs.outcome));
    if let Some(p) = &obs.panic {
        if p.message.contains(candid::verif::STEP_LIMIT_PANIC) {
            match conf.dq {
                None => {
                    // unmetered decoding is unbounded by design; not explored beyond the step limit
                    ctx.count("excluded:no-quota-beyond-step-limit");
                }
                Some(q) => ctx.violation(
                    &format!("work-exceeds-quota|{tkind}|{family}"),
                    &format!("more than 4*(q + |input| + 64) element accesses with decoding quota q = {q} on {} input bytes", bytes.len()),
                    input(),
                ),
            }
        } else {
            ctx.violation(&format!("panic|{tkind}|{}", p.sig()), &format!("decoding panicked: {}", p.message), input());
        }
        return;
    }
    if let Some(q) = conf.dq {
        let lim = q as u64 + bytes.len() as u64 + 64;
        ctx.max("steps/(q+|input|+64)", obs.steps as f64 / lim as f64);
        if obs.steps > lim {
            ctx.violation(
                &format!("work-exceeds-quota|{tkind}|{family}"),
                &format!("{} element accesses with decoding quota {q} on {} input bytes (bound q + |input| + 64 = {lim})", obs.steps, bytes.len()),
                input(),
            );
        }
        // memory: constant + multiple of input + multiple of q
        let peak_bound = (8u64 << 20) + 256 * bytes.len() as u64 + 512 * q as u64;
        let req_bound = (8u64 << 20) + 256 * bytes.len() as u64 + 4096 * q as u64;
        ctx.max("peak-live-bytes/bound", obs.alloc.peak_live.max(0) as f64 / peak_bound as f64);
        ctx.max("requested-bytes/bound", obs.alloc.requested as f64 / req_bound as f64);
        if obs.alloc.peak_live.max(0) as u64 > peak_bound {
            ctx.violation(
                &format!("memory-exceeds-bound|peak|{tkind}|{family}"),
                &format!("peak live allocation {} bytes with quota {q} on {} input bytes (bound {peak_bound})", obs.alloc.peak_live, bytes.len()),
                input(),
            );
        }
        if obs.alloc.requested > req_bound {
            ctx.violation(
                &format!("memory-exceeds-bound|cumulative|{tkind}|{family}"),
                &format!(
                    "{} bytes requested from the allocator in {} calls with quota {q} on {} input bytes (bound {req_bound})",
                    obs.alloc.requested,
                    obs.alloc.calls,
                    bytes.len()
                ),
                input(),
            );
        }
    }
    let _ = obs.err_len;
}

fn error_site(bytes: &[u8]) -> String {
    match decode(bytes) {
        Ok(_) => "wellformed".into(),
        Err(DecErr::OverLimit(m)) => format!("over:{}", m.split_whitespace().take(3).collect::<Vec<_>>().join("-")),
        Err(DecErr::Malformed(m)) => format!(
            "mal:{}",
            m.chars()
                .filter(|c| !c.is_ascii_digit())
                .collect::<String>()
                .split_whitespace()
                .take(4)
                .collect::<Vec<_>>()
                .join("-")
        ),
    }
}

/// Second set of hand-built hostile messages (boundary arithmetic of the primitive-vector path, long chains in
/// the type table). Returns (bytes, family, the kind of target it is aimed at).
fn crafted2(rng: &mut Rng) -> (Vec<u8>, &'static str, u8) {
    use crate::model::leb::{leb_u64, sleb_i64};
    let msg = |table: &[Vec<u8>], args: &[i64], values: &[u8]| -> Vec<u8> {
        let mut m = b"DIDL".to_vec();
        m.extend(leb_u64(table.len() as u64));
        for t in table {
            m.extend(t);
        }
        m.extend(leb_u64(args.len() as u64));
        for a in args {
            m.extend(sleb_i64(*a));
        }
        m.extend(values);
        m
    };
    match rng.below(4) {
        3 => {
            // a length-prefixed value (blob, text, principal in a reference) whose length lies enormously, in a position
            // where it is skipped or read untyped: surplus argument, surplus record field, below a mismatched option
            let len = *rng.pick(&[1u64 << 31, 1 << 40, 1 << 62, (1 << 63) - 1, 1 << 63, u64::MAX - 1, u64::MAX]);
            let blob = vec![0x6d, 0x7b]; // vec nat8
            let mut liar = leb_u64(len);
            liar.extend({
                let n = rng.usize(12);
                rng.bytes(n)
            });
            match rng.below(4) {
                0 => {
                    // (nat8, blob): decoded at one argument, the blob is surplus
                    let mut v = vec![7u8];
                    v.extend(liar);
                    (msg(&[blob], &[-5, 0], &v), "length-lie:surplus-argument", 2)
                }
                1 => {
                    // record { 0 : nat8; 1 : blob } decoded at record { 0 : nat8 }
                    let rec = vec![0x6c, 0x02, 0x00, 0x7b, 0x01, 0x00];
                    let mut v = vec![7u8];
                    v.extend(liar);
                    (msg(&[blob, rec], &[1], &v), "length-lie:surplus-field", 2)
                }
                2 => {
                    // opt blob, present: read at whatever the target expects
                    let opt = vec![0x6e, 0x00];
                    let mut v = vec![1u8];
                    v.extend(liar);
                    (msg(&[blob, opt], &[1], &v), "length-lie:below-option", 2)
                }
                _ => {
                    // text
                    (msg(&[], &[-15, -15], &[vec![1u8, 0x61], liar].concat()), "length-lie:text", 2)
                }
            }
        }
        0 => {
            // vec of a fixed-width primitive whose byte length sits at a wrap-around boundary of 2^64 (or 2^63)
            let (code, size): (i64, u64) = *rng.pick(&[(-5, 1), (-9, 1), (-2, 1), (-6, 2), (-10, 2), (-7, 4), (-11, 4), (-13, 4), (-8, 8), (-12, 8), (-14, 8)]);
            let top = if rng.chance(3, 4) { u64::MAX } else { (1u64 << 63) - 1 };
            let q = top / size;
            let len = match rng.below(6) {
                0 => q,
                1 => q.wrapping_add(1),
                2 => q.saturating_sub(rng.below(4)),
                3 => q - rng.below(64),
                4 => (top - rng.below(4096)) / size,
                _ => (q / 3).wrapping_add(rng.below(5)),
            };
            let t = [vec![0x6d], sleb_i64(code)].concat();
            let mut v = leb_u64(len);
            v.extend({
                let n = rng.usize(40);
                rng.bytes(n)
            });
            // sometimes wrapped in an option / record so that the vector is not the first value
            if rng.chance(1, 4) {
                let t1 = vec![0x6e, 0x00];
                let mut vv = vec![1u8];
                vv.extend(v);
                (msg(&[t, t1], &[1], &vv), "primvec-boundary", 0)
            } else {
                (msg(&[t], &[0], &v), "primvec-boundary", 0)
            }
        }
        1 => {
            // a chain through the whole type table: entry i refers to entry i+1
            let n = *rng.pick(&[50usize, 500, 3000, 9_998, 9_999, 10_000]);
            let kind = rng.below(6);
            let table: Vec<Vec<u8>> = (0..n)
                .map(|i| {
                    let next = if i + 1 < n { sleb_i64((i + 1) as i64) } else { sleb_i64(*rng.pick(&[-1i64, -4, -17, 0])) };
                    match kind {
                        0 => [vec![0x6c, 0x01, 0x00], next].concat(),                   // record { 0 : next }
                        1 => [vec![0x6e], next].concat(),                                 // opt next
                        2 => [vec![0x6d], next].concat(),                                 // vec next
                        3 => [vec![0x6b, 0x02, 0x00, 0x7f, 0x01], next].concat(),         // variant { 0 : null; 1 : next }
                        4 => [vec![0x6c, 0x02, 0x00], next.clone(), vec![0x01], next].concat(), // record { next; next }
                        _ => [vec![0x6a, 0x01], next, vec![0x00, 0x00]].concat(),         // func (next) -> ()
                    }
                })
                .collect();
            let nargs = rng.usize(3);
            let args: Vec<i64> = (0..nargs).map(|_| rng.usize(n) as i64).collect();
            let vals = {
                let k = rng.usize(24);
                rng.bytes(k)
            };
            (msg(&table, &args, &vals), "table-chain", 1)
        }
        _ => {
            // the same chain with zero-filled values (every option absent / every vector empty)
            let n = *rng.pick(&[200usize, 2000, 9_999]);
            let table: Vec<Vec<u8>> = (0..n)
                .map(|i| {
                    let next = if i + 1 < n { sleb_i64((i + 1) as i64) } else { vec![0x7f] };
                    if i % 2 == 0 {
                        [vec![0x6c, 0x02, 0x00], next, vec![0x01, 0x7f]].concat()
                    } else {
                        [vec![0x6e], next].concat()
                    }
                })
                .collect();
            (msg(&table, &[0], &vec![0u8; 8]), "table-chain:values", 1)
        }
    }
}

pub fn run(ctx: &mut Ctx) {
    let n_types = reg::len();
    let tcfg = TypeCfg::default();
    // the model decodes inputs to classify them; keep that bounded too
    let pick_target = |rng: &mut Rng, tcfg: &TypeCfg| -> Target {
        match rng.below(5) {
            0 | 1 => Target::Native(rng.usize(n_types)),
            2 | 3 => {
                let env = gen_env(rng, tcfg);
                let n = rng.usize(3);
                let ts = gen_types(rng, tcfg, &env, n);
                let label = format!("[{env}] {:?}", ts.iter().map(|t| t.to_string()).collect::<Vec<_>>());
                Target::Untyped(env, ts, label)
            }
            _ => Target::NoType,
        }
    };
    ctx.cases("mutated-native-messages", 0.22, |ctx, rng| {
        let i = rng.usize(n_types);
        let nargs = 1 + rng.usize(2);
        let mut r2 = Rng::new(rng.next());
        let Ok((bytes, _)) = reg::with(i, |t| t.encode_gen(&mut r2, 20, nargs)) else { return };
        let bad = if rng.chance(1, 8) { bytes.clone() } else { hostile::mutate(rng, &bytes) };
        // mostly decode at the type it came from, sometimes at another target
        let target = if rng.chance(2, 3) { Target::Native(i) } else { pick_target(rng, &tcfg) };
        let conf = gen_conf(rng);
        judge(ctx, "mutated-native", &target, &bad, &conf);
        ctx.nontrivial(hash_str(&format!("{}|{}", error_site(&bad), matches!(target, Target::Native(_)))));
        ctx.sample(|| json!({"bytes": hex(&bad), "conf": format!("{conf:?}")}));
    });
    // several reads on one deserializer, continuing after errors (a caller that probes one type after another)
    let composite: Vec<usize> = (0..n_types).filter(|i| matches!(reg::with(*i, |t| t.kind()), "struct" | "enum")).collect();
    ctx.cases("reads-continue-after-errors", 0.08, |ctx, rng| {
        let nargs = 1 + rng.usize(3);
        let mut b = candid::ser::IDLBuilder::new();
        let mut r2 = Rng::new(rng.next());
        let mut own = Vec::new();
        // half of the messages are made of structs and enums only: records and variants are where a read can fail
        // between two fields
        let composite_only = rng.bool();
        for _ in 0..nargs {
            let j = if composite_only && !composite.is_empty() { *rng.pick(&composite) } else { rng.usize(n_types) };
            if reg::with(j, |t| t.arg_into(&mut b, &mut r2, 12)).is_err() {
                return;
            }
            own.push(j);
        }
        let Ok(bytes) = b.serialize_to_vec() else { return };
        let bad = if rng.chance(1, 3) { bytes.clone() } else { hostile::mutate(rng, &bytes) };
        let mut steps = Vec::new();
        let mut label = Vec::new();
        for k in 0..1 + rng.usize(4) {
            let st = match if composite_only && rng.chance(2, 3) { 2 } else { rng.below(6) } {
                0 | 1 => Step::Native(*own.get(k).unwrap_or(&own[0])),
                2 | 3 => {
                    // another corpus type, half of the time a derived struct or enum: a record read at another struct fails in
                    // the middle of the value instead of at its first byte
                    let j = if (composite_only || rng.bool()) && !composite.is_empty() { *rng.pick(&composite) } else { rng.usize(n_types) };
                    Step::Native(j)
                }
                4 => {
                    let env = gen_env(rng, &tcfg);
                    let t = gen_types(rng, &tcfg, &env, 1).pop().unwrap();
                    Step::At(env, t)
                }
                _ => Step::Value,
            };
            label.push(match &st {
                Step::Native(i) => reg::with(*i, |t| t.name()),
                Step::At(env, t) => format!("[{env}] {t}"),
                Step::Value => "IDLValue".into(),
            });
            steps.push(st);
        }
        let target = Target::Sequence(steps, format!("reads on one deserializer: {label:?}, then done()"));
        let mut conf = gen_conf(rng);
        if conf.dq.is_none() {
            conf.dq = Some(1_000_000);
        }
        judge(ctx, "reads-continue-after-errors", &target, &bad, &conf);
        ctx.nontrivial(hash_str(&format!("{}|seq{}", error_site(&bad), label.len())));
    });
    ctx.cases("mutated-wire-messages", 0.2, |ctx, rng| {
        let Some(wc) = gen_wire_case(rng, &tcfg, 3, 30, true) else { return };
        let bad = hostile::mutate(rng, &wc.bytes);
        let target = if rng.bool() {
            let (eenv, ets, _) = gen_expected(rng, &tcfg, &wc);
            let label = format!("[{eenv}] {:?}", ets.iter().map(|t| t.to_string()).collect::<Vec<_>>());
            Target::Untyped(eenv, ets, label)
        } else {
            pick_target(rng, &tcfg)
        };
        let conf = gen_conf(rng);
        judge(ctx, "mutated-wire", &target, &bad, &conf);
        ctx.nontrivial(hash_str(&format!("{}|w", error_site(&bad))));
    });
    ctx.cases("crafted-bombs", 0.25, |ctx, rng| {
        let (bytes, fam) = hostile::crafted(rng);
        let target = pick_target(rng, &tcfg);
        let mut conf = gen_conf(rng);
        // bombs are the reason quotas exist: most runs use one
        if conf.dq.is_none() && rng.chance(2, 3) {
            conf.dq = Some(*rng.pick(&[100usize, 10_000, 1_000_000]));
        }
        judge(ctx, fam, &target, &bytes, &conf);
        ctx.count(&format!("cover:crafted:{fam}"));
        ctx.nontrivial(hash_bytes(&bytes[..bytes.len().min(64)]) ^ hash_str(fam));
    });
    ctx.cases("crafted-boundaries-and-chains", 0.1, |ctx, rng| {
        let (bytes, fam, aim) = crafted2(rng);
        // aim 0: the primitive-vector path needs the same primitive on both sides (no expected type, or the exact native
        // vector); aim 1: header parsing, any target
        let target = if aim == 2 && rng.chance(2, 3) {
            // a target that reads a nat8 (or a one-field record) and skips the rest
            let name = *rng.pick(&["u8", "(u8,)", "Option<u8>", "Reserved", "Vec<u8>", "String"]);
            (0..n_types).find(|i| reg::with(*i, |t| t.name()) == name).map(Target::Native).unwrap_or(Target::NoType)
        } else if aim == 0 && rng.chance(2, 3) {
            if rng.bool() {
                Target::NoType
            } else {
                let name = *rng.pick(&["Vec<u8>", "Vec<u16>", "Vec<u32>", "Vec<u64>", "Vec<i64>", "Vec<f64>", "Vec<i16>", "Vec<f32>", "Vec<bool>", "Option<Vec<u64>>"]);
                (0..n_types).find(|i| reg::with(*i, |t| t.name()) == name).map(Target::Native).unwrap_or(Target::NoType)
            }
        } else {
            pick_target(rng, &tcfg)
        };
        let mut conf = gen_conf(rng);
        if aim != 1 && rng.bool() {
            conf.dq = None; // the length checks must hold without the quota as a backstop
        }
        judge(ctx, fam, &target, &bytes, &conf);
        ctx.count(&format!("cover:crafted:{fam}"));
        ctx.count(&format!("cover:stack:{}K", conf.stack >> 10));
        ctx.nontrivial(hash_bytes(&bytes[..bytes.len().min(48)]) ^ hash_str(fam) ^ (bytes.len() as u64));
    });
    ctx.cases("pending-args-times-optionals", 0.05, |ctx, rng| {
        // table [opt nat8, vec #0]; args = [vec, M x null]; N present optional elements
        let small = ctx.lane == "M";
        let m = if small { *rng.pick(&[0usize, 10]) } else { *rng.pick(&[0usize, 10, 1000, 10_000]) };
        let n = if small { *rng.pick(&[10usize, 100]) } else { *rng.pick(&[10usize, 1000, 20_000, 50_000]) };
        let mut b = b"DIDL\x02\x6e\x7b\x6d\x00".to_vec();
        b.extend(crate::model::leb::leb_u64(1 + m as u64));
        b.push(0x01);
        b.extend(std::iter::repeat(0x7f).take(m));
        b.extend(crate::model::leb::leb_u64(n as u64));
        for k in 0..n {
            b.push(1);
            b.push(k as u8);
        }
        let target = Target::Native(0); // decoded at a type that skips everything but the shape matters little
        let mut conf = gen_conf(rng);
        conf.dq = Some(2_000_000);
        conf.sq = None;
        conf.stack = 8 << 20;
        let vec_opt_u8 = (0..n_types).find(|i| reg::with(*i, |t| t.name()) == "Vec<Option<u8>>");
        let target = vec_opt_u8.map(Target::Native).unwrap_or(target);
        // size the quota from the cost the decoder itself reports for this message: the bounds are then
        // judged against the smallest quota that lets the message through
        if let Target::Native(i) = &target {
            let mut big = DecoderConfig::new();
            big.set_decoding_quota(1 << 40);
            if let DecOut::Ok { cost, .. } = reg::with(*i, |t| t.decode(&b, &big)) {
                conf.dq = cost.decoding_quota.map(|c| c + 1);
            }
        }
        judge(ctx, "pending-args-x-optionals", &target, &b, &conf);
        ctx.count(&format!("cover:pending={m},optionals={n}"));
        ctx.nontrivial(hash_str(&format!("pa|{m}|{n}")));
    });
    ctx.cases("random-after-magic", 0.1, |ctx, rng| {
        let bytes = hostile::random_after_magic(rng);
        let target = pick_target(rng, &tcfg);
        let conf = gen_conf(rng);
        judge(ctx, "random", &target, &bytes, &conf);
        ctx.nontrivial(hash_str(&format!("{}|r", error_site(&bytes))));
    });
}
