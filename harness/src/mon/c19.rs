//! C19 — all binding generators are total, deterministic and closed on checked programs.
//!
//! For every type-checked program each of the JavaScript, TypeScript, Motoko and Rust generators is
//! run under `catch` (no panic), twice (same output), and the output is checked for closure:
//!   JS   — evaluated by node (as in C17; definitions-only outputs are wrapped into a factory);
//!   Rust — parsed with `syn`: referenced single-identifier type names are defined, one fn per method;
//!   TS / Motoko — NO compiler in this sandbox: a lexer written from each language's lexical grammar
//!          (`bind_lex`) feeds (i) a closure check on identifiers in type position and the method
//!          list of the service type, (ii) the injection differentials: hostile doc comments must not
//!          change the non-comment token stream, hostile names may only change string payloads.
use super::c17::bind_js::*;
use super::c17::bind_lex::*;
use super::c17::bind_prog::*;
use super::c17::bind_rs::*;
use super::c17::{load_error_sig, JsBatch};
use crate::ctx::{catch, Ctx};
use crate::model::misc::label_hash;
use crate::model::RType;
use crate::rng::{hash_str, Rng};
use candid_parser::bindings::{javascript, motoko, rust, typescript};
use serde_json::{json, Value};
use std::collections::{BTreeMap, BTreeSet};

fn clip(s: &str, n: usize) -> String {
    if s.len() <= n {
        s.to_string()
    } else {
        let mut k = n;
        while !s.is_char_boundary(k) {
            k -= 1;
        }
        format!("{}…(+{} bytes)", &s[..k], s.len() - k)
    }
}

pub struct Outputs {
    pub js: Option<String>,
    pub ts: Option<String>,
    pub mo: Option<String>,
    /// (target, source)
    pub rs: Vec<(String, String)>,
}

fn rust_config() -> rust::Config {
    use std::str::FromStr;
    rust::Config::new(candid_parser::configs::Configs::from_str("").unwrap())
}

fn rust_external(target: &str) -> rust::ExternalConfig {
    let mut e = rust::ExternalConfig::default();
    e.0.insert("target".to_string(), target.to_string());
    e
}

/// Run one generator twice; report panic / nondeterminism; return the output.
fn twice(ctx: &mut Ctx, lang: &str, pc: &ProgramCase, f: &dyn Fn() -> String) -> Option<String> {
    let a = match catch(f) {
        Ok(s) => s,
        Err(p) => {
            ctx.violation(
                &format!("{lang}|panic|{}", p.sig()),
                &format!("{lang} generator panicked on a type-checked program: {}", p.message),
                json!({"origin": pc.origin, "did": clip(&pc.text, 6000)}),
            );
            return None;
        }
    };
    match catch(f) {
        Ok(b) => {
            if a != b {
                ctx.violation(
                    &format!("{lang}|nondeterministic-output"),
                    "two calls on the same program returned different output",
                    json!({"origin": pc.origin, "did": clip(&pc.text, 6000), "first": clip(&a, 3000), "second": clip(&b, 3000)}),
                );
            }
        }
        Err(p) => {
            ctx.violation(
                &format!("{lang}|panic-on-second-call|{}", p.sig()),
                &format!("{lang} generator panicked on the second call: {}", p.message),
                json!({"origin": pc.origin, "did": clip(&pc.text, 6000)}),
            );
        }
    }
    ctx.count(&format!("generated:{lang}"));
    Some(a)
}

pub fn motoko_applicable(pc: &ProgramCase) -> bool {
    pc.method_labels.iter().all(|m| is_ident(m))
}

pub fn generate_all(ctx: &mut Ctx, pc: &ProgramCase, ck: &Checked, rust_targets: &[&str]) -> Outputs {
    let js = twice(ctx, "js", pc, &|| javascript::compile(&ck.env, &ck.actor));
    let ts = twice(ctx, "ts", pc, &|| typescript::compile(&ck.env, &ck.actor, &ck.prog));
    let mo = if motoko_applicable(pc) {
        twice(ctx, "motoko", pc, &|| motoko::compile(&ck.env, &ck.actor, &ck.prog))
    } else {
        ctx.count("excluded:motoko-non-identifier-method-name");
        None
    };
    let mut rs = Vec::new();
    for t in rust_targets {
        let cfg = rust_config();
        let out = twice(ctx, &format!("rust-{t}"), pc, &|| {
            rust::compile(&cfg, &ck.env, &ck.actor, &ck.prog, rust_external(t)).0
        });
        if let Some(o) = out {
            rs.push((t.to_string(), o));
        }
    }
    Outputs { js, ts, mo, rs }
}

// ---------------------------------------------------------------------------------------------
// TypeScript structure

const TS_KEYWORDS: &[&str] = &[
    "export", "type", "interface", "extends", "declare", "const", "import", "from", "typeof",
];
const TS_BUILTINS: &[&str] = &[
    "bigint", "number", "string", "boolean", "null", "undefined", "any", "never", "Array", "Uint8Array", "Uint16Array",
    "Uint32Array", "BigUint64Array", "Int8Array", "Int16Array", "Int32Array", "BigInt64Array", "unknown", "void",
    "object",
];

fn is_p(t: &Tok, s: &str) -> bool {
    t.kind == Kind::Punct && t.text == s
}
fn is_i(t: &Tok, s: &str) -> bool {
    t.kind == Kind::Ident && t.text == s
}

/// index of the token closing the bracket opened at `open` (same bracket characters only)
fn matching(code: &[Tok], open: usize, o: &str, c: &str) -> Option<usize> {
    let mut depth = 0usize;
    for (i, t) in code.iter().enumerate().skip(open) {
        if is_p(t, o) {
            depth += 1;
        } else if is_p(t, c) {
            depth -= 1;
            if depth == 0 {
                return Some(i);
            }
        }
    }
    None
}

/// keys (decoded) of the object type whose `{` is at `open`, at nesting depth 1
fn ts_block_keys(code: &[Tok], open: usize) -> Option<Vec<String>> {
    let close = matching(code, open, "{", "}")?;
    let mut keys = Vec::new();
    let mut depth = 0i32;
    for i in open..=close {
        let t = &code[i];
        if t.kind == Kind::Punct {
            match t.text.as_str() {
                "{" | "[" | "(" | "<" => depth += 1,
                "}" | "]" | ")" | ">" => depth -= 1,
                _ => {}
            }
            continue;
        }
        if depth == 1 && i + 1 <= close && is_p(&code[i + 1], ":") {
            match t.kind {
                Kind::Str => keys.push(t.value.clone().unwrap_or_default()),
                Kind::Ident => keys.push(t.text.clone()),
                _ => {}
            }
        }
    }
    Some(keys)
}

fn multiset_diff(expected: &[String], got: &[String]) -> Option<String> {
    let mut e: BTreeMap<&String, i64> = BTreeMap::new();
    for x in expected {
        *e.entry(x).or_insert(0) += 1;
    }
    let mut g: BTreeMap<&String, i64> = BTreeMap::new();
    for x in got {
        *g.entry(x).or_insert(0) += 1;
    }
    if e == g {
        return None;
    }
    let missing: Vec<&&String> = e.keys().filter(|k| !g.contains_key(**k)).collect();
    let extra: Vec<&&String> = g.keys().filter(|k| !e.contains_key(**k)).collect();
    let class = if !missing.is_empty() && !extra.is_empty() {
        "names-differ"
    } else if !missing.is_empty() {
        "missing"
    } else if !extra.is_empty() {
        "extra"
    } else {
        "multiplicity"
    };
    Some(format!("{class}: expected {expected:?}, found {got:?}"))
}

pub fn lex_error_sig(lang: &str, pc: &ProgramCase, e: &LexError) -> String {
    if pc.tags.contains("label:nul+digit") && e.class == "octal-or-decimal-escape" {
        return format!("{lang}|lex-error|octal-escape-from-nul+digit");
    }
    format!("{lang}|lex-error|{}", e.class)
}

pub fn check_ts(ctx: &mut Ctx, pc: &ProgramCase, out: &str, input: &dyn Fn() -> Value) -> Option<Vec<Tok>> {
    let toks = match lex_ts(out) {
        Ok(t) => t,
        Err(e) => {
            ctx.violation(
                &lex_error_sig("ts", pc, &e),
                &format!("the TypeScript output does not lex: {} near {:?}", e.class, e.context),
                input(),
            );
            return None;
        }
    };
    let code = code_tokens(&toks);
    let first_export = code.iter().position(|t| is_i(t, "export")).unwrap_or(code.len());
    // imports: identifiers between `{` and `}` of the import lines
    let mut imports: Vec<String> = Vec::new();
    let mut i = 0;
    while i < first_export {
        if is_i(&code[i], "import") {
            let mut j = i + 1;
            while j < first_export && !is_i(&code[j], "from") {
                if code[j].kind == Kind::Ident && code[j].text != "type" {
                    imports.push(code[j].text.clone());
                }
                j += 1;
            }
            i = j;
        }
        i += 1;
    }
    let mut defined: Vec<String> = Vec::new();
    for i in first_export..code.len() {
        if is_i(&code[i], "export") && i + 2 < code.len() && (is_i(&code[i + 1], "type") || is_i(&code[i + 1], "interface")) {
            if code[i + 2].kind == Kind::Ident {
                defined.push(code[i + 2].text.clone());
            }
        }
    }
    let d = dups(&defined);
    if !d.is_empty() {
        let sig = if d.iter().any(|x| x == "_SERVICE") {
            "ts|duplicate-definition|_SERVICE"
        } else if pc.tags.contains("def:js-keyword+escaped-twin") {
            "ts|duplicate-definition|escaped-keyword-collides-with-definition"
        } else {
            "ts|duplicate-definition"
        };
        ctx.violation(
            sig,
            &format!("the TypeScript output defines {d:?} more than once (distinct source definitions map to one name)"),
            input(),
        );
    }
    for n in &defined {
        if imports.contains(n) {
            ctx.violation(
                "ts|definition-collides-with-import",
                &format!("the output both imports and defines `{n}`; references to the imported name now denote the definition"),
                input(),
            );
        }
    }
    // references
    let mut undefined: BTreeSet<String> = BTreeSet::new();
    let mut i = first_export;
    while i < code.len() {
        let t = &code[i];
        if is_i(t, "export") && i + 2 < code.len() && is_i(&code[i + 1], "declare") {
            // fixed trailer: `export declare const x: …;`
            while i < code.len() && !is_p(&code[i], ";") {
                i += 1;
            }
            i += 1;
            continue;
        }
        if t.kind == Kind::Ident {
            let prev = if i > 0 { Some(&code[i - 1]) } else { None };
            let next = code.get(i + 1);
            let after_extends = prev.map(|p| is_i(p, "extends")).unwrap_or(false);
            let def_site = prev.map(|p| is_i(p, "type") || is_i(p, "interface")).unwrap_or(false)
                && i >= 2
                && is_i(&code[i - 2], "export");
            let key = next.map(|n| is_p(n, ":")).unwrap_or(false);
            if after_extends {
                if !defined.contains(&t.text) {
                    undefined.insert(t.text.clone());
                }
            } else if def_site || key || TS_KEYWORDS.contains(&t.text.as_str()) || TS_BUILTINS.contains(&t.text.as_str()) {
                // not a reference
            } else if !defined.contains(&t.text) && !imports.contains(&t.text) {
                undefined.insert(t.text.clone());
            }
        }
        i += 1;
    }
    if !undefined.is_empty() {
        let kw = undefined.iter().any(|u| JS_KEYWORDS.contains(&u.as_str()));
        let sig = if kw && pc.tags.contains("actor:var-js-keyword") {
            "ts|undefined-type-reference|actor-reference-to-js-keyword-definition-unescaped".to_string()
        } else {
            "ts|undefined-type-reference".to_string()
        };
        ctx.violation(
            &sig,
            &format!("the TypeScript output references {undefined:?} but neither defines nor imports them"),
            input(),
        );
    }
    // service methods
    if let Some(ms) = pc.methods() {
        let expected: Vec<String> = ms.iter().map(|m| m.0.clone()).collect();
        let pos = (0..code.len())
            .rev()
            .find(|&i| is_i(&code[i], "_SERVICE") && i >= 2 && is_i(&code[i - 1], "interface") && is_i(&code[i - 2], "export"));
        match pos {
            None => ctx.violation("ts|no-_SERVICE-interface", "program has a main service but the output has no `export interface _SERVICE`", input()),
            Some(p) => {
                let mut block_open = None;
                if code.get(p + 1).map(|t| is_p(t, "{")).unwrap_or(false) {
                    block_open = Some(p + 1);
                } else if code.get(p + 1).map(|t| is_i(t, "extends")).unwrap_or(false) {
                    // follow the named type through aliases
                    let mut name = code.get(p + 2).map(|t| t.text.clone()).unwrap_or_default();
                    for _ in 0..12 {
                        let def = (first_export..code.len()).find(|&i| {
                            is_i(&code[i], "export")
                                && i + 2 < code.len()
                                && code[i + 2].kind == Kind::Ident
                                && code[i + 2].text == name
                                && (is_i(&code[i + 1], "type") || is_i(&code[i + 1], "interface"))
                        });
                        let Some(di) = def else { break };
                        if is_i(&code[di + 1], "interface") {
                            if code.get(di + 3).map(|t| is_p(t, "{")).unwrap_or(false) {
                                block_open = Some(di + 3);
                            }
                            break;
                        }
                        // export type X = Y ;
                        if code.get(di + 3).map(|t| is_p(t, "=")).unwrap_or(false)
                            && code.get(di + 4).map(|t| t.kind == Kind::Ident).unwrap_or(false)
                            && code.get(di + 5).map(|t| is_p(t, ";")).unwrap_or(false)
                        {
                            name = code[di + 4].text.clone();
                        } else {
                            break;
                        }
                    }
                }
                match block_open.and_then(|o| ts_block_keys(&code, o)) {
                    Some(keys) => {
                        if let Some(d) = multiset_diff(&expected, &keys) {
                            let class = d.split(':').next().unwrap_or("").to_string();
                            ctx.violation(
                                &format!("ts|service-methods|{class}"),
                                &format!("methods of the main service in the TypeScript output: {d}"),
                                input(),
                            );
                        } else {
                            ctx.count("agree:ts-methods");
                        }
                    }
                    None => ctx.count("excluded:ts-service-type-not-resolved"),
                }
            }
        }
    }
    ctx.count("checked:ts");
    Some(code)
}

// ---------------------------------------------------------------------------------------------
// Motoko structure

const MO_KEYWORDS: &[&str] = &["module", "public", "type", "actor", "shared", "query", "composite", "async"];
const MO_BUILTINS: &[&str] = &[
    "Null", "Bool", "Nat", "Int", "Nat8", "Nat16", "Nat32", "Nat64", "Int8", "Int16", "Int32", "Int64", "Float32", "Float",
    "Text", "Any", "None", "Principal", "Blob", "Char", "Error", "Region",
];
pub const MO_RESERVED: &[&str] = &[
    "actor", "and", "async", "assert", "await", "break", "case", "catch", "class", "continue", "composite", "debug",
    "debug_show", "else", "false", "flexible", "for", "from_candid", "func", "if", "in", "import", "module", "not", "null",
    "object", "or", "label", "let", "loop", "private", "public", "query", "return", "shared", "stable", "switch", "system",
    "try", "throw", "to_candid", "true", "type", "var", "while", "with",
];

/// the identifier the Motoko binding is documented to use for a Candid method name
pub fn mo_method_ident(m: &str) -> String {
    if MO_RESERVED.contains(&m) || m.ends_with('_') {
        format!("{m}_")
    } else {
        m.to_string()
    }
}

/// number of syntactic references to definition `i` in the program (definitions, service, init arguments)
fn model_ref_count(pc: &ProgramCase, i: usize) -> usize {
    fn go(t: &RType, i: usize) -> usize {
        match t {
            RType::Ref(j) => (*j == i) as usize,
            RType::Opt(t) | RType::Vec(t) => go(t, i),
            RType::Record(fs) | RType::Variant(fs) => fs.iter().map(|f| go(&f.1, i)).sum(),
            RType::Func { args, rets, .. } => args.iter().chain(rets.iter()).map(|t| go(t, i)).sum(),
            RType::Service(ms) => ms.iter().map(|m| go(&m.1, i)).sum(),
            _ => 0,
        }
    }
    pc.model_env.0.iter().map(|t| go(t, i)).sum::<usize>()
        + pc.service.as_ref().map(|t| go(t, i)).unwrap_or(0)
        + pc.init.iter().flatten().map(|t| go(t, i)).sum::<usize>()
}

fn mo_block_keys(code: &[Tok], open: usize) -> Option<Vec<String>> {
    let close = matching(code, open, "{", "}")?;
    let mut keys = Vec::new();
    let mut depth = 0i32;
    for i in open..=close {
        let t = &code[i];
        if t.kind == Kind::Punct {
            match t.text.as_str() {
                "{" | "[" | "(" => depth += 1,
                "}" | "]" | ")" => depth -= 1,
                _ => {}
            }
            continue;
        }
        if depth == 1 && t.kind == Kind::Ident && i + 1 <= close && is_p(&code[i + 1], ":") {
            let tag = i > 0 && is_p(&code[i - 1], "#");
            if !tag {
                keys.push(t.text.clone());
            }
        }
    }
    Some(keys)
}

pub fn check_motoko(ctx: &mut Ctx, pc: &ProgramCase, out: &str, input: &dyn Fn() -> Value) -> Option<Vec<Tok>> {
    let toks = match lex_motoko(out) {
        Ok(t) => t,
        Err(e) => {
            ctx.violation(
                &lex_error_sig("motoko", pc, &e),
                &format!("the Motoko output does not lex: {} near {:?}", e.class, e.context),
                input(),
            );
            return None;
        }
    };
    let code = code_tokens(&toks);
    let mut defined: Vec<String> = Vec::new();
    for i in 1..code.len() {
        if is_i(&code[i - 1], "type") && code[i].kind == Kind::Ident && code.get(i + 1).map(|t| is_p(t, "=")).unwrap_or(false) {
            defined.push(code[i].text.clone());
        }
    }
    let d = dups(&defined);
    if !d.is_empty() {
        let sig = if d.iter().any(|x| x == "Self") {
            "motoko|duplicate-definition|Self"
        } else {
            "motoko|duplicate-definition"
        };
        ctx.violation(sig, &format!("the Motoko output defines {d:?} more than once"), input());
    }
    let mut undefined: BTreeSet<String> = BTreeSet::new();
    let mut ref_counts: BTreeMap<String, usize> = BTreeMap::new();
    for i in 0..code.len() {
        let t = &code[i];
        if t.kind != Kind::Ident {
            continue;
        }
        let prev = if i > 0 { Some(&code[i - 1]) } else { None };
        let next = code.get(i + 1);
        if prev.map(|p| is_i(p, "type") || is_p(p, "#")).unwrap_or(false) {
            continue;
        }
        if next.map(|n| is_p(n, ":")).unwrap_or(false) {
            continue;
        }
        *ref_counts.entry(t.text.clone()).or_insert(0) += 1;
        if MO_KEYWORDS.contains(&t.text.as_str()) || MO_BUILTINS.contains(&t.text.as_str()) {
            continue;
        }
        if !defined.contains(&t.text) {
            undefined.insert(t.text.clone());
        }
    }
    // a definition named like a Motoko builtin type the binding also uses for a Candid primitive: the output then
    // mentions the name more often than the program refers to the definition, and those extra mentions (meant as
    // the primitive) denote the definition
    for n in &defined {
        if !MO_BUILTINS.contains(&n.as_str()) {
            continue;
        }
        let Some(i) = pc.def_names.iter().position(|d| d == n) else { continue };
        let in_model = model_ref_count(pc, i);
        let in_output = ref_counts.get(n).cloned().unwrap_or(0);
        if in_output > in_model {
            ctx.violation(
                "motoko|definition-shadows-builtin-type-used-by-the-binding",
                &format!(
                    "the output has a definition `{n}` and uses `{n}` {in_output} times in type position, but the program refers to that \
                     definition only {in_model} times: the other uses stand for the Candid primitive and now denote the definition"
                ),
                input(),
            );
        }
    }
    if !undefined.is_empty() {
        ctx.violation(
            "motoko|undefined-type-reference",
            &format!("the Motoko output references {undefined:?} but does not define them"),
            input(),
        );
    }
    if out.contains("Float32") {
        ctx.count("cover:motoko-float32");
    }
    if let Some(ms) = pc.methods() {
        let expected: Vec<String> = ms.iter().map(|m| mo_method_ident(&m.0)).collect();
        // last `type Self =`
        let pos = (2..code.len())
            .rev()
            .find(|&i| is_p(&code[i], "=") && is_i(&code[i - 1], "Self") && is_i(&code[i - 2], "type"));
        match pos {
            None => ctx.violation("motoko|no-Self-type", "program has a main service but the output has no `type Self`", input()),
            Some(p) => {
                // the service part follows the last depth-0 `-> async` (service constructor) if any
                let mut start = p + 1;
                let mut depth = 0i32;
                let mut i = p + 1;
                while i < code.len() {
                    let t = &code[i];
                    if t.kind == Kind::Punct {
                        match t.text.as_str() {
                            "{" | "[" | "(" => depth += 1,
                            "}" | "]" | ")" => depth -= 1,
                            _ => {}
                        }
                        if depth < 0 {
                            break;
                        }
                        if depth == 0 && t.text == "->" && code.get(i + 1).map(|n| is_i(n, "async")).unwrap_or(false) {
                            start = i + 2;
                        }
                    }
                    i += 1;
                }
                let mut block_open = None;
                if code.get(start).map(|t| is_i(t, "actor")).unwrap_or(false)
                    && code.get(start + 1).map(|t| is_p(t, "{")).unwrap_or(false)
                {
                    block_open = Some(start + 1);
                } else if code.get(start).map(|t| t.kind == Kind::Ident).unwrap_or(false) {
                    let mut name = code[start].text.clone();
                    for _ in 0..12 {
                        let def = (1..code.len()).find(|&i| {
                            is_i(&code[i - 1], "type")
                                && code[i].kind == Kind::Ident
                                && code[i].text == name
                                && code.get(i + 1).map(|t| is_p(t, "=")).unwrap_or(false)
                        });
                        let Some(di) = def else { break };
                        if code.get(di + 2).map(|t| is_i(t, "actor")).unwrap_or(false)
                            && code.get(di + 3).map(|t| is_p(t, "{")).unwrap_or(false)
                        {
                            block_open = Some(di + 3);
                            break;
                        }
                        if code.get(di + 2).map(|t| t.kind == Kind::Ident).unwrap_or(false)
                            && code.get(di + 3).map(|t| is_p(t, ";")).unwrap_or(false)
                        {
                            name = code[di + 2].text.clone();
                        } else {
                            break;
                        }
                    }
                }
                match block_open.and_then(|o| mo_block_keys(&code, o)) {
                    Some(keys) => {
                        if let Some(d) = multiset_diff(&expected, &keys) {
                            let class = d.split(':').next().unwrap_or("").to_string();
                            ctx.violation(
                                &format!("motoko|service-methods|{class}"),
                                &format!("methods of the main service in the Motoko output: {d}"),
                                input(),
                            );
                        } else {
                            ctx.count("agree:motoko-methods");
                        }
                    }
                    None => ctx.count("excluded:motoko-service-type-not-resolved"),
                }
            }
        }
    }
    ctx.count("checked:motoko");
    Some(code)
}

// ---------------------------------------------------------------------------------------------
// Rust structure

pub fn check_rust(ctx: &mut Ctx, pc: &ProgramCase, target: &str, out: &str, input: &dyn Fn() -> Value) {
    // define_service! gets method names as string literals: a name that needs escaping must not appear raw
    // (a raw name can coincide with the *escaped* form of another label, e.g. `\"` next to `"`: not a witness)
    let escaped_forms: std::collections::HashSet<String> = pc.method_labels.iter().map(|l| l.escape_debug().to_string()).collect();
    for m in &pc.method_labels {
        if m.chars().any(|c| c == '"' || c == '\\' || c == '\r') && !escaped_forms.contains(m) && out.contains(&format!("\"{m}\" :")) {
            ctx.violation(
                "rust|define_service-method-name-not-escaped",
                &format!(
                    "method name {m:?} of a service type is copied verbatim between double quotes into the Rust output ({target}); \
                     expected an escaped Rust string literal"
                ),
                input(),
            );
            return;
        }
    }
    let facts = match analyze_rust(out) {
        Ok(f) => f,
        Err(e) => {
            let class: String = e.split(" at line").next().unwrap_or("").chars().filter(|c| !c.is_ascii_digit()).take(60).collect();
            let cr_doc = out.split('\n').any(|l| l.trim_start().starts_with("///") && l.trim_end_matches('\r').contains('\r'));
            let class = match (target, stub_metadata_problem(out)) {
                _ if cr_doc => "bare-CR-in-doc-comment".to_string(),
                ("stub", Some(p)) => format!("stub-metadata|{p}"),
                _ => class,
            };
            let sig = if cr_doc { "rust|bare-CR-in-doc-comment".to_string() } else { format!("rust|does-not-parse|{class}") };
            ctx.violation(
                &sig,
                &format!("syn cannot parse the Rust output ({target}): {e}"),
                input(),
            );
            return;
        }
    };
    let undefined: Vec<&String> = facts
        .type_refs
        .iter()
        .filter(|r| !facts.items.contains(r) && !RUST_KNOWN.contains(&r.as_str()))
        .filter(|r| !(target == "agent" && r.as_str() == "T"))
        .collect();
    if !undefined.is_empty() {
        ctx.violation(
            "rust|undefined-type-reference",
            &format!("the Rust output ({target}) references {undefined:?} without defining them"),
            input(),
        );
    }
    if let Some(ms) = pc.methods() {
        let n = ms.len();
        // methods are fns of the impl block (call / agent) or top-level fns (stub, plus `init` when there are init args)
        let init_fn = target == "stub" && pc.init.as_ref().map(|i| !i.is_empty()).unwrap_or(false);
        if facts.fns.len() != n + init_fn as usize {
            ctx.violation(
                &format!("rust|method-count|{target}"),
                &format!("the service has {n} methods, the Rust output ({target}) has fns {:?}", facts.fns),
                input(),
            );
        } else {
            let d = dups(&facts.fns);
            if !d.is_empty() {
                let sig = if init_fn && d == vec!["init".to_string()] {
                    "rust|stub-method-named-init-collides-with-init-fn"
                } else {
                    "rust|duplicate-method-fn"
                };
                ctx.violation(
                    sig,
                    &format!("distinct service methods map to the same Rust fn name {d:?} ({target})"),
                    input(),
                );
            }
            if target != "stub" {
                let expected: Vec<String> = ms.iter().map(|m| m.0.clone()).collect();
                if let Some(d) = multiset_diff(&expected, &facts.fn_literals) {
                    let class = d.split(':').next().unwrap_or("").to_string();
                    ctx.violation(
                        &format!("rust|method-name-literals|{class}"),
                        &format!("method names passed to the call in the Rust output ({target}): {d}"),
                        input(),
                    );
                } else {
                    ctx.count("agree:rust-methods");
                }
            }
        }
    }
    for r in &facts.renames {
        if !pc.labels.contains(r) {
            ctx.violation(
                "rust|serde-rename-is-not-a-label",
                &format!("#[serde(rename = {r:?})] does not spell any label of the program"),
                input(),
            );
            break;
        }
    }
    ctx.count("checked:rust");
}

// ---------------------------------------------------------------------------------------------

pub struct C19Js {
    pub pc: ProgramCase,
    pub js: String,
}

fn judge_js(ctx: &mut Ctx, it: &C19Js, r: &JsResult) {
    ctx.count("checked:js");
    if let JsResult::Failed { stage, name, message } = r {
        ctx.violation(
            &load_error_sig(&it.pc, &it.js, stage, name, message),
            &format!("node could not evaluate the JavaScript output (stage {stage}): {name}: {message}"),
            json!({"origin": it.pc.origin, "did": clip(&it.pc.text, 6000), "js": clip(&it.js, 6000)}),
        );
    }
}

/// All per-program checks. `quick_rust`: only the default Rust target.
pub fn check_program(
    ctx: &mut Ctx,
    batch: &mut JsBatch<C19Js>,
    node: bool,
    pc: &ProgramCase,
    rust_targets: &[&str],
) -> Option<(Checked, Outputs)> {
    let ck = match check_case(pc) {
        Ok(c) => c,
        Err(m) => {
            ctx.count(&format!("excluded:not-accepted:{}", reject_class(&m)));
            if std::env::var("VERIF_DEBUG_REJECT").is_ok() {
                eprintln!("REJECTED case {} ({m}):\n{}\n", ctx.case, clip(&pc.text, 1500));
            }
            return None;
        }
    };
    let outs = generate_all(ctx, pc, &ck, rust_targets);
    let input = |lang: &str, out: &str| {
        let o = clip(out, 6000);
        let d = clip(&pc.text, 6000);
        let origin = pc.origin.clone();
        let lang = lang.to_string();
        move || json!({"origin": origin, "did": d, lang.clone(): o})
    };
    if let Some(js) = &outs.js {
        if node {
            batch.push(ctx, js, pc.service.is_none(), C19Js { pc: pc.clone(), js: js.clone() });
        }
    }
    if let Some(ts) = &outs.ts {
        check_ts(ctx, pc, ts, &input("ts", ts));
    }
    if let Some(mo) = &outs.mo {
        check_motoko(ctx, pc, mo, &input("motoko", mo));
    }
    for (t, src) in &outs.rs {
        check_rust(ctx, pc, t, src, &input("rust", src));
    }
    for t in &pc.tags {
        ctx.count(&format!("cover:{t}"));
    }
    ctx.nontrivial(hash_str(&pc.text));
    ctx.sample(|| json!({"origin": pc.origin, "did": clip(&pc.text, 1500)}));
    Some((ck, outs))
}

// ---------------------------------------------------------------------------------------------
// differentials

fn compare_tokens(ctx: &mut Ctx, lang: &str, what: &str, a: &[Tok], b: &[Tok], input: &dyn Fn() -> Value) {
    match first_difference(a, b) {
        None => ctx.count(&format!("agree:{what}:{lang}")),
        Some(at) => ctx.violation(
            &format!("{lang}|{what}-changes-tokens"),
            &format!(
                "non-comment token streams differ at token {at}: reference `{}` vs hostile `{}`",
                show_around(a, at),
                show_around(b, at)
            ),
            input(),
        ),
    }
}

/// Same program with and without (hostile) doc comments: code tokens of every output must be identical.
fn docs_differential(ctx: &mut Ctx, rng: &mut Rng) {
    let cfg = GenCfg {
        docs: DocMode::None,
        labels: NameMode::Mixed,
        defs: NameMode::Plain,
        ident_methods: true,
        ..GenCfg::default()
    };
    let plain = gen_aprog(rng, &cfg);
    let hostile = hostile_docs(&plain, rng);
    let bits = rng.next();
    let a = case_of(&plain, bits, "adhoc:docs-differential:plain");
    let b = case_of(&hostile, bits, "adhoc:docs-differential:hostile");
    docs_differential_pair(ctx, a, b);
}

/// The same for a program of `crate::prog`, printed once without and once with its (hostile) doc comments.
fn prog_docs_differential(ctx: &mut Ctx, rng: &mut Rng) {
    use crate::prog::{gen_prog, print_prog, DocKind, PrintCfg, ProgCfg};
    let mut cfg = ProgCfg::random(rng);
    cfg.docs = DocKind::Hostile;
    cfg.hostile_names = false;
    cfg.motoko_compat = rng.chance(2, 3);
    let p = gen_prog(rng, &cfg);
    let ta = print_prog(&p, &PrintCfg::plain().without_docs(), rng);
    let tb = print_prog(&p, &PrintCfg::plain(), rng);
    let (Ok(a), Ok(b)) = (
        case_from_prog(&p, ta, "prog:docs-differential:plain"),
        case_from_prog(&p, tb, "prog:docs-differential:hostile"),
    ) else {
        ctx.count("excluded:prog-model-failed");
        return;
    };
    if a.text == b.text {
        ctx.count("excluded:no-docs-drawn");
        return;
    }
    docs_differential_pair(ctx, a, b);
}

fn docs_differential_pair(ctx: &mut Ctx, a: ProgramCase, b: ProgramCase) {
    let (Ok(ca), Ok(cb)) = (check_case(&a), check_case(&b)) else {
        ctx.count("excluded:not-accepted");
        return;
    };
    let input = || json!({"did_plain": clip(&a.text, 4000), "did_hostile": clip(&b.text, 6000)});
    let gen = |ctx: &mut Ctx, pc: &ProgramCase, ck: &Checked| generate_all(ctx, pc, ck, &["canister_call", "stub"]);
    let oa = gen(ctx, &a, &ca);
    let ob = gen(ctx, &b, &cb);
    if let (Some(x), Some(y)) = (&oa.js, &ob.js) {
        if x != y {
            ctx.violation("js|docs-change-output", "doc comments changed the JavaScript output", input());
        } else {
            ctx.count("agree:docs:js");
        }
    }
    if let (Some(x), Some(y)) = (&oa.ts, &ob.ts) {
        let inp = || {
            let mut v = input();
            v["ts_hostile"] = json!(clip(y, 6000));
            v
        };
        match (lex_ts(x), lex_ts(y)) {
            (Ok(tx), Ok(ty)) => compare_tokens(ctx, "ts", "docs", &ts_comparable(&tx), &ts_comparable(&ty), &inp),
            (Ok(_), Err(e)) => ctx.violation(
                &format!("ts|docs-break-lexing|{}", e.class),
                &format!("with doc comments the TypeScript output no longer lexes: {} near {:?}", e.class, e.context),
                inp(),
            ),
            _ => ctx.count("excluded:reference-output-does-not-lex:ts"),
        }
    }
    if let (Some(x), Some(y)) = (&oa.mo, &ob.mo) {
        let inp = || {
            let mut v = input();
            v["motoko_hostile"] = json!(clip(y, 6000));
            v
        };
        match (lex_motoko(x), lex_motoko(y)) {
            (Ok(tx), Ok(ty)) => compare_tokens(ctx, "motoko", "docs", &motoko_comparable(&tx), &motoko_comparable(&ty), &inp),
            (Ok(_), Err(e)) => ctx.violation(
                &format!("motoko|docs-break-lexing|{}", e.class),
                &format!("with doc comments the Motoko output no longer lexes: {} near {:?}", e.class, e.context),
                inp(),
            ),
            _ => ctx.count("excluded:reference-output-does-not-lex:motoko"),
        }
    }
    for ((t, x), (_, y)) in oa.rs.iter().zip(ob.rs.iter()) {
        let inp = || {
            let mut v = input();
            v["rust_hostile"] = json!(clip(y, 6000));
            v
        };
        match (rust_code_tokens(x), rust_code_tokens(y)) {
            (Ok(tx), Ok(ty)) => {
                if tx == ty {
                    ctx.count("agree:docs:rust");
                } else {
                    let at = tx.iter().zip(ty.iter()).position(|(p, q)| p != q).unwrap_or(tx.len().min(ty.len()));
                    let show = |v: &[String]| v[at.saturating_sub(4)..(at + 5).min(v.len())].join(" ");
                    ctx.violation(
                        &format!("rust|docs-changes-tokens|{t}"),
                        &format!("token streams differ at {at}: `{}` vs `{}`", show(&tx), show(&ty)),
                        inp(),
                    );
                }
            }
            (Ok(_), Err(e)) => {
                let cr = y.contains('\r');
                ctx.violation(
                    if cr { "rust|bare-CR-in-doc-comment" } else { "rust|docs-break-lexing|other" },
                    &format!("with doc comments the Rust output ({t}) no longer tokenizes: {e}"),
                    inp(),
                );
            }
            _ => ctx.count("excluded:reference-output-does-not-lex:rust"),
        }
    }
    ctx.nontrivial(hash_str(&b.text));
    ctx.sample(|| json!({"origin": b.origin, "did": clip(&b.text, 1500)}));
}

fn placeholder_table() -> Vec<(u32, String)> {
    let mut v: Vec<(u32, String)> = (0..4096).map(|i| format!("zq{i}w")).map(|s| (label_hash(&s), s)).collect();
    v.sort();
    v
}

/// Replace every label that is not a plain identifier by an identifier placeholder whose hash keeps the
/// field order; all method names of a service with such a name become `zm<k>x` in the same order.
/// Returns the twin and the map placeholder -> original.
fn benign_twin(p: &AProg, table: &[(u32, String)]) -> Option<(AProg, BTreeMap<String, String>)> {
    let mut map: BTreeMap<String, String> = BTreeMap::new();
    let mut used: BTreeSet<String> = BTreeSet::new();
    fn fields(fs: &[AField], table: &[(u32, String)], map: &mut BTreeMap<String, String>, used: &mut BTreeSet<String>) -> Option<Vec<AField>> {
        let ids = field_ids(fs)?;
        let hostile = |f: &AField| matches!(&f.lab, Lab::Named(s) if !is_ident(s));
        // positional fields after a renamed field would change their id
        let mut seen_renamed = false;
        for f in fs {
            if hostile(f) {
                seen_renamed = true;
            } else if seen_renamed && f.lab == Lab::Pos {
                return None;
            }
        }
        let mut order: Vec<usize> = (0..fs.len()).collect();
        order.sort_by_key(|i| ids[*i]);
        let mut new_labs: Vec<Lab> = fs.iter().map(|f| f.lab.clone()).collect();
        let mut prev: Option<u32> = None;
        for (k, &i) in order.iter().enumerate() {
            if hostile(&fs[i]) {
                // next fixed id
                let bound = order[k + 1..].iter().find(|j| !hostile(&fs[**j])).map(|j| ids[*j]);
                let start = match prev {
                    None => 0,
                    Some(p) => table.partition_point(|e| e.0 <= p),
                };
                let cand = table[start..].iter().find(|e| !used.contains(&e.1))?;
                if let Some(b) = bound {
                    if cand.0 >= b {
                        return None;
                    }
                }
                used.insert(cand.1.clone());
                if let Lab::Named(orig) = &fs[i].lab {
                    map.insert(cand.1.clone(), orig.clone());
                }
                new_labs[i] = Lab::Named(cand.1.clone());
                prev = Some(cand.0);
            } else {
                prev = Some(ids[i]);
            }
        }
        let mut out = Vec::new();
        for (i, f) in fs.iter().enumerate() {
            out.push(AField {
                lab: new_labs[i].clone(),
                ty: ty(&f.ty, table, map, used)?,
                docs: f.docs.clone(),
                short: f.short,
            });
        }
        // tuple-ness must not change: ids of the twin
        let ids2 = field_ids(&out)?;
        let mut a = ids.clone();
        a.sort();
        let mut b = ids2.clone();
        b.sort();
        let tup = |v: &Vec<u32>| !v.is_empty() && v.iter().enumerate().all(|(i, x)| *x == i as u32);
        if tup(&a) != tup(&b) {
            return None;
        }
        Some(out)
    }
    fn func(f: &AFunc, table: &[(u32, String)], map: &mut BTreeMap<String, String>, used: &mut BTreeSet<String>) -> Option<AFunc> {
        let mut args = Vec::new();
        for (n, t) in &f.args {
            args.push((n.clone(), ty(t, table, map, used)?));
        }
        let mut rets = Vec::new();
        for (n, t) in &f.rets {
            rets.push((n.clone(), ty(t, table, map, used)?));
        }
        Some(AFunc { args, rets, mode: f.mode })
    }
    fn meths(ms: &[AMeth], table: &[(u32, String)], map: &mut BTreeMap<String, String>, used: &mut BTreeSet<String>) -> Option<Vec<AMeth>> {
        let rename = ms.iter().any(|m| !is_ident(&m.name));
        let mut sorted: Vec<&String> = ms.iter().map(|m| &m.name).collect();
        sorted.sort_by(|a, b| a.as_bytes().cmp(b.as_bytes()));
        let mut out = Vec::new();
        for m in ms {
            let name = if rename {
                let k = sorted.iter().position(|s| **s == m.name).unwrap();
                let p = format!("zm{k:03}x{}", map.len());
                map.insert(p.clone(), m.name.clone());
                p
            } else {
                m.name.clone()
            };
            out.push(AMeth {
                name,
                ty: match &m.ty {
                    AMethTy::Func(f) => AMethTy::Func(func(f, table, map, used)?),
                    v => v.clone(),
                },
                docs: m.docs.clone(),
            });
        }
        Some(out)
    }
    fn ty(t: &ATy, table: &[(u32, String)], map: &mut BTreeMap<String, String>, used: &mut BTreeSet<String>) -> Option<ATy> {
        Some(match t {
            ATy::Opt(t) => ATy::Opt(Box::new(ty(t, table, map, used)?)),
            ATy::Vec(t) => ATy::Vec(Box::new(ty(t, table, map, used)?)),
            ATy::Record(fs) => ATy::Record(fields(fs, table, map, used)?),
            ATy::Variant(fs) => ATy::Variant(fields(fs, table, map, used)?),
            ATy::Func(f) => ATy::Func(func(f, table, map, used)?),
            ATy::Service(ms) => ATy::Service(meths(ms, table, map, used)?),
            t => t.clone(),
        })
    }
    let mut defs = Vec::new();
    for d in &p.defs {
        defs.push(ADef {
            name: d.name.clone(),
            ty: ty(&d.ty, table, &mut map, &mut used)?,
            docs: d.docs.clone(),
        });
    }
    let actor = match &p.actor {
        None => None,
        Some(a) => {
            let init = match &a.init {
                None => None,
                Some(xs) => {
                    let mut v = Vec::new();
                    for (n, t) in xs {
                        v.push((n.clone(), ty(t, table, &mut map, &mut used)?));
                    }
                    Some(v)
                }
            };
            Some(AActor {
                docs: a.docs.clone(),
                name: a.name.clone(),
                init,
                body: match &a.body {
                    AActorBody::Service(ms) => AActorBody::Service(meths(ms, table, &mut map, &mut used)?),
                    v => v.clone(),
                },
            })
        }
    };
    Some((AProg { defs, actor }, map))
}

/// Hostile names against a twin with benign placeholders: token kinds identical, only the payload of
/// the tokens standing for a replaced name may differ (and for TS it must decode to the original name).
fn names_differential(ctx: &mut Ctx, rng: &mut Rng, table: &[(u32, String)]) {
    let ident_methods = rng.chance(1, 2);
    let cfg = GenCfg {
        docs: DocMode::None,
        labels: NameMode::Hostile,
        defs: NameMode::Plain,
        ident_methods,
        max_defs: 4,
        ..GenCfg::default()
    };
    let hostile = gen_aprog(rng, &cfg);
    let Some((twin, map)) = benign_twin(&hostile, table) else {
        ctx.count("excluded:no-order-preserving-twin");
        return;
    };
    if map.is_empty() {
        ctx.count("excluded:no-hostile-name-drawn");
        return;
    }
    let bits = rng.next();
    let a = case_of(&twin, bits, "adhoc:names-differential:twin");
    let b = case_of(&hostile, bits, "adhoc:names-differential:hostile");
    let (Ok(ca), Ok(cb)) = (check_case(&a), check_case(&b)) else {
        ctx.count("excluded:not-accepted");
        return;
    };
    let input = || json!({"did_twin": clip(&a.text, 4000), "did_hostile": clip(&b.text, 6000), "placeholders": map});
    // TypeScript
    let ta = catch(|| typescript::compile(&ca.env, &ca.actor, &ca.prog));
    let tb = catch(|| typescript::compile(&cb.env, &cb.actor, &cb.prog));
    if let (Ok(x), Ok(y)) = (&ta, &tb) {
        let inp = || {
            let mut v = input();
            v["ts_hostile"] = json!(clip(y, 6000));
            v
        };
        match (lex_ts(x), lex_ts(y)) {
            (Ok(tx), Ok(ty)) => {
                let (cx, cy) = (ts_comparable(&tx), ts_comparable(&ty));
                let mut bad: Option<(usize, &str)> = None;
                if cx.len() != cy.len() {
                    bad = Some((cx.len().min(cy.len()), "token-count"));
                } else {
                    for (i, (p, q)) in cx.iter().zip(cy.iter()).enumerate() {
                        if p.kind != q.kind {
                            bad = Some((i, "token-kind"));
                            break;
                        }
                        if p.kind == Kind::Str {
                            let pv = p.value.clone().unwrap_or_default();
                            let want = map.get(&pv).cloned().unwrap_or(pv);
                            if q.value.as_deref() != Some(want.as_str()) {
                                bad = Some((i, "string-payload"));
                                break;
                            }
                        } else if p.text != q.text {
                            bad = Some((i, "token-text"));
                            break;
                        }
                    }
                }
                match bad {
                    None => ctx.count("agree:names:ts"),
                    Some((at, class)) => ctx.violation(
                        &format!("ts|names-change-tokens|{class}"),
                        &format!(
                            "token streams differ at {at}: twin `{}` vs hostile `{}`",
                            show_around(&cx, at),
                            show_around(&cy, at)
                        ),
                        inp(),
                    ),
                }
            }
            (Ok(_), Err(e)) => ctx.violation(
                &lex_error_sig("ts", &b, &e),
                &format!("with hostile names the TypeScript output no longer lexes: {} near {:?}", e.class, e.context),
                inp(),
            ),
            _ => ctx.count("excluded:reference-output-does-not-lex:ts"),
        }
    }
    // Motoko (identifier method names only)
    if motoko_applicable(&b) {
        let ma = catch(|| motoko::compile(&ca.env, &ca.actor, &ca.prog));
        let mb = catch(|| motoko::compile(&cb.env, &cb.actor, &cb.prog));
        if let (Ok(x), Ok(y)) = (&ma, &mb) {
            let inp = || {
                let mut v = input();
                v["motoko_hostile"] = json!(clip(y, 6000));
                v
            };
            match (lex_motoko(x), lex_motoko(y)) {
                (Ok(tx), Ok(ty)) => {
                    let (cx, cy) = (motoko_comparable(&tx), motoko_comparable(&ty));
                    let mut bad: Option<(usize, &str)> = None;
                    if cx.len() != cy.len() {
                        bad = Some((cx.len().min(cy.len()), "token-count"));
                    } else {
                        for (i, (p, q)) in cx.iter().zip(cy.iter()).enumerate() {
                            if p.kind != q.kind {
                                bad = Some((i, "token-kind"));
                                break;
                            }
                            let placeholder = p.kind == Kind::Ident && map.contains_key(&p.text);
                            if !placeholder && p.text != q.text {
                                bad = Some((i, "token-text"));
                                break;
                            }
                        }
                    }
                    match bad {
                        None => ctx.count("agree:names:motoko"),
                        Some((at, class)) => ctx.violation(
                            &format!("motoko|names-change-tokens|{class}"),
                            &format!(
                                "token streams differ at {at}: twin `{}` vs hostile `{}`",
                                show_around(&cx, at),
                                show_around(&cy, at)
                            ),
                            inp(),
                        ),
                    }
                }
                (Ok(_), Err(e)) => ctx.violation(
                    &lex_error_sig("motoko", &b, &e),
                    &format!("with hostile names the Motoko output no longer lexes: {} near {:?}", e.class, e.context),
                    inp(),
                ),
                _ => ctx.count("excluded:reference-output-does-not-lex:motoko"),
            }
        }
    } else {
        ctx.count("excluded:motoko-non-identifier-method-name");
    }
    for t in &b.tags {
        ctx.count(&format!("cover:{t}"));
    }
    ctx.nontrivial(hash_str(&b.text));
    ctx.sample(|| json!({"origin": b.origin, "did": clip(&b.text, 1500)}));
}

pub fn run(ctx: &mut Ctx) {
    let node = node_available();
    if !node {
        ctx.count("inconclusive:node-missing");
    }
    let limit = if ctx.only.is_some() { 1 } else { 100 };
    let mut batch: JsBatch<C19Js> = JsBatch::new(ctx, limit);
    let all_targets: [&str; 3] = ["canister_call", "agent", "stub"];

    let assets: Vec<ProgramCase> = asset_cases().into_iter().chain(catalogue_cases()).collect();
    if !assets.is_empty() {
        let saved = ctx.max_cases;
        let n = assets.len() as u64;
        ctx.max_cases = (n + ctx.nshards - 1) / ctx.nshards.max(1);
        ctx.cases("assets", 1.0, |ctx, _rng| {
            let local = ctx.case & ((1 << 40) - 1);
            if let Some(pc) = assets.get(local as usize) {
                check_program(ctx, &mut batch, node, pc, &all_targets);
            }
        });
        ctx.max_cases = saved;
        batch.flush(ctx, &mut judge_js);
    }

    let adhoc: [(&str, GenCfg); 3] = [
        (
            "adhoc-mixed",
            GenCfg {
                ident_methods: true,
                ..GenCfg::default()
            },
        ),
        (
            "adhoc-keywords",
            GenCfg {
                labels: NameMode::Keywords,
                defs: NameMode::Keywords,
                ident_methods: true,
                max_defs: 7,
                ..GenCfg::default()
            },
        ),
        (
            "adhoc-hostile",
            GenCfg {
                labels: NameMode::Hostile,
                defs: NameMode::Keywords,
                docs: DocMode::Hostile,
                ..GenCfg::default()
            },
        ),
    ];
    let table = placeholder_table();
    // one family; the producer / differential is drawn per case (twentieths)
    ctx.cases("generated", 1.0, |ctx, rng| {
        let pick = rng.below(20);
        match pick {
            0..=8 => {
                let (name, cfg) = match pick {
                    0..=3 => &adhoc[0],
                    4 | 5 => &adhoc[1],
                    _ => &adhoc[2],
                };
                ctx.count(&format!("producer:{name}"));
                let pc = gen_case(rng, cfg, &format!("adhoc:{name}"));
                let targets: &[&str] = if rng.chance(1, 3) { &all_targets } else { &all_targets[..1] };
                check_program(ctx, &mut batch, node, &pc, targets);
            }
            9..=13 => {
                ctx.count("producer:prog-random");
                let nul = rng.chance(1, 4);
                match gen_prog_case(rng, &|c| c.nul_names = nul && c.hostile_names, "prog:random") {
                    Some(pc) => {
                        let targets: &[&str] = if rng.chance(1, 3) { &all_targets } else { &all_targets[..1] };
                        check_program(ctx, &mut batch, node, &pc, targets);
                    }
                    None => ctx.count("excluded:prog-model-failed"),
                }
            }
            14 | 15 => {
                ctx.count("producer:docs-differential");
                docs_differential(ctx, rng)
            }
            16 | 17 => {
                ctx.count("producer:prog-docs-differential");
                prog_docs_differential(ctx, rng)
            }
            _ => {
                ctx.count("producer:names-differential");
                names_differential(ctx, rng, &table)
            }
        }
        if batch.full() {
            batch.flush(ctx, &mut judge_js);
        }
    });
    batch.flush(ctx, &mut judge_js);
    if batch.dead {
        ctx.count("inconclusive:node-unusable");
    }
    let _ = std::fs::remove_dir_all(scratch_dir(ctx));
}
