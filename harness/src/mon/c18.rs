//! C18 — the generated Rust binding defines types with the same Candid meaning.
//!
//! For every type-checked program `bindings::rust::emit_bindgen` is run (A) on the program as it is and
//! (B) with a synthetic main service `vrf_m_<i> : (Def_i) -> (Def_i)` for every definition, so the
//! generator itself says which Rust type it uses for which source definition. The emitted type
//! definitions go into a generated crate (rsbind/gen_<worker>/src/m_<k>.rs, template in rsbind/template)
//! which is compiled with cargo; at run time the crate prints, for every definition and every method
//! argument/result, the Candid type the derive macro computes (`T::ty()`, as a type graph). Oracle:
//! the module compiles; every printed graph is structurally equal (R3 `requal2`) to the model type of the
//! source item; emitted item names are pairwise distinct and field / variant names are distinct within
//! their struct / enum (checked with `syn` before compiling).
//! Only one worker may run the cargo pipeline at a time (props: max_workers = 1).
use super::c17::bind_js::*;
use super::c17::bind_prog::*;
use super::c17::bind_rs::*;
use crate::ctx::{catch, Ctx};
use crate::model::subtype::requal2;
use crate::model::*;
use crate::rng::hash_str;
use candid::types::{Function, Type, TypeInner};
use candid_parser::bindings::rust;
use serde_json::json;
use std::collections::{BTreeMap, BTreeSet};
use std::time::Instant;

fn clip(s: &str, n: usize) -> String {
    if s.len() <= n {
        s.to_string()
    } else {
        let mut k = n;
        while !s.is_char_boundary(k) {
            k -= 1;
        }
        format!("{}…(+{} bytes)", &s[..k], s.len() - k)
    }
}

fn rust_config() -> rust::Config {
    use std::str::FromStr;
    rust::Config::new(candid_parser::configs::Configs::from_str("").unwrap())
}

struct Expect {
    module: usize,
    label: String,
    what: String,
    expected: RType,
}

struct Pending {
    case: u64,
    pc: ProgramCase,
    /// module number -> ("A" | "B", emitted type definitions, names explained by the syn check)
    modules: BTreeMap<usize, (&'static str, String, bool)>,
    /// module number -> (item label, Rust type expression) to probe
    items: BTreeMap<usize, Vec<(String, String)>>,
    /// (module, label) of items already reported as sharing one Rust type with a different source type
    shared: BTreeSet<(usize, String)>,
    expects: Vec<Expect>,
}

fn reachable_defs(pc: &ProgramCase) -> BTreeSet<usize> {
    fn go(t: &RType, env: &REnv, seen: &mut BTreeSet<usize>) {
        match t {
            RType::Ref(i) => {
                if seen.insert(*i) {
                    if let Some(b) = env.0.get(*i) {
                        go(b, env, seen);
                    }
                }
            }
            RType::Opt(t) | RType::Vec(t) => go(t, env, seen),
            RType::Record(fs) | RType::Variant(fs) => fs.iter().for_each(|f| go(&f.1, env, seen)),
            RType::Func { args, rets, .. } => args.iter().chain(rets.iter()).for_each(|t| go(t, env, seen)),
            RType::Service(ms) => ms.iter().for_each(|m| go(&m.1, env, seen)),
            _ => {}
        }
    }
    let mut seen = BTreeSet::new();
    if let Some(s) = &pc.service {
        go(s, &pc.model_env, &mut seen);
    }
    for t in pc.init.iter().flatten() {
        go(t, &pc.model_env, &mut seen);
    }
    seen
}

/// names the emitted code (the `use` line, the derive expansions, the candid macros) relies on: a definition
/// that is given one of them breaks the module
const SHADOWABLE: &[&str] = &[
    "Box", "Option", "Vec", "String", "Result", "Principal", "CandidType", "Deserialize", "Ok", "Err", "Some", "None", "From",
    "Into", "Default", "Clone", "Copy", "Send", "Sync", "Sized", "Drop", "Fn", "FnMut", "FnOnce", "Eq", "PartialEq", "Ord",
    "PartialOrd", "AsRef", "AsMut", "Iterator", "IntoIterator", "Extend", "ToString", "ToOwned", "TryFrom", "TryInto",
    "FromIterator", "Debug", "Serialize",
];

fn subterms(pc: &ProgramCase) -> Vec<RType> {
    fn go(t: &RType, out: &mut Vec<RType>) {
        out.push(t.clone());
        match t {
            RType::Opt(t) | RType::Vec(t) => go(t, out),
            RType::Record(fs) | RType::Variant(fs) => fs.iter().for_each(|f| go(&f.1, out)),
            RType::Func { args, rets, .. } => args.iter().chain(rets.iter()).for_each(|t| go(t, out)),
            RType::Service(ms) => ms.iter().for_each(|m| go(&m.1, out)),
            _ => {}
        }
    }
    let mut out = Vec::new();
    for t in &pc.model_env.0 {
        go(t, &mut out);
    }
    if let Some(s) = &pc.service {
        go(s, &mut out);
    }
    for t in pc.init.iter().flatten() {
        go(t, &mut out);
    }
    out.retain(|t| !t.is_prim() && !matches!(t, RType::Ref(_)));
    out.sort();
    out.dedup();
    out
}

fn needs_rust_escape(m: &str) -> bool {
    m.chars().any(|c| c == '"' || c == '\\' || c == '\r')
}

/// Root cause of one difference between the source type and the Candid type of the emitted Rust type,
/// when the difference is exactly what a known mechanism predicts; otherwise the generic shape class.
fn classify(pc: &ProgramCase, label: &str, g: &JsGraphs, d: &Diff) -> String {
    use crate::model::misc::label_hash;
    // record { X } is emitted as a one-field tuple struct, which the derive macro treats as a newtype (= X)
    if let Some(RType::Record(fs)) = pc.model_env.unfold(&d.expected) {
        if fs.len() == 1 && fs[0].0 == 0 {
            let same_as_field = requal2(&pc.model_env, &fs[0].1, &g.env, &d.observed);
            // (for recursive types the observed type loses the record layer at every level, so it is not equal
            // to the field type either: a one-tuple that is observed as something that is no record at all)
            if same_as_field || d.class == "vacuous-or-dangling" || d.class.starts_with("kind:record-vs-") {
                return "one-element-tuple-record-becomes-newtype".to_string();
            }
        }
    }
    // `5 : t` is emitted as field `_5_` without a rename; the derive macro hashes the name `_5_`
    if !d.missing_ids.is_empty()
        && d.missing_ids.iter().all(|n| d.extra_ids.contains(&label_hash(&format!("_{n}_"))))
        && d.extra_ids.len() == d.missing_ids.len()
    {
        return "numeric-field-id-becomes-hash-of-_N_".to_string();
    }
    if d.class.starts_with("service-") && pc.method_labels.iter().any(|m| needs_rust_escape(m)) {
        return "define_service-method-name-not-escaped".to_string();
    }
    // the Rust item carries the body of another source type: generated names collapsed
    let composite = g.env.unfold(&d.observed).map(|t| !t.is_prim()).unwrap_or(false);
    if composite {
        for t in subterms(pc) {
            if requal2(&pc.model_env, &t, &g.env, &d.observed) && !crate::model::subtype::requal(&pc.model_env, &t, &d.expected) {
                return if label.starts_with("init:") {
                    "distinct-source-types-collapse-into-one-generated-name|init-arguments".to_string()
                } else {
                    "distinct-source-types-collapse-into-one-generated-name".to_string()
                };
            }
        }
    }
    let kind = if label.starts_with("def:") { "definition" } else { "method-type" };
    format!("{kind}|{}", d.class)
}

fn norm(s: &str) -> String {
    s.chars().filter(|c| *c != '_').collect::<String>().to_lowercase()
}

/// syn-level checks on one emitted module; returns true when a name collision was reported
fn cheap_checks(ctx: &mut Ctx, pc: &ProgramCase, which: &str, type_defs: &str) -> bool {
    let src = format!("use candid::{{self, CandidType, Deserialize, Principal}};\n{type_defs}");
    let input = || json!({"origin": pc.origin, "did": clip(&pc.text, 6000), "rust": clip(type_defs, 6000), "variant": which});
    let facts = match analyze_rust(&src) {
        Ok(f) => f,
        Err(e) => {
            let cr = type_defs.split('\n').any(|l| l.trim_start().starts_with("///") && l.trim_end_matches('\r').contains('\r'));
            let unescaped = pc
                .method_labels
                .iter()
                .any(|m| m.chars().any(|c| c == '"' || c == '\\' || c == '\r') && type_defs.contains(&format!("\"{m}\" :")));
            let class: String = if unescaped {
                "define_service-method-name-not-escaped".to_string()
            } else if cr {
                "bare-CR-in-doc-comment".to_string()
            } else {
                e.split(" at line").next().unwrap_or("").chars().filter(|c| !c.is_ascii_digit()).take(60).collect()
            };
            let sig = match class.as_str() {
                "bare-CR-in-doc-comment" => "rust|bare-CR-in-doc-comment".to_string(),
                "define_service-method-name-not-escaped" => "rust|define_service-method-name-not-escaped".to_string(),
                c => format!("rust|does-not-parse|{c}"),
            };
            ctx.violation(
                &sig,
                &format!("syn cannot parse the emitted type definitions: {e}"),
                input(),
            );
            return true;
        }
    };
    let mut found = false;
    let di = facts.duplicate_items();
    if !di.is_empty() {
        found = true;
        let d = &di[0];
        let sources = pc.def_names.iter().filter(|n| norm(n) == norm(d)).count();
        let class = match sources {
            0 => "generated-vs-generated",
            1 => "definition-vs-generated",
            _ => "definition-vs-definition",
        };
        ctx.violation(
            &format!("rust|item-name-collision|{class}"),
            &format!("the emitted Rust defines {di:?} more than once: distinct source types collapse into one Rust item name"),
            input(),
        );
    }
    let df = facts.duplicate_fields();
    if !df.is_empty() {
        found = true;
        ctx.violation(
            "rust|field-name-collision",
            &format!("fields with the same Rust name after case conversion: {df:?}"),
            input(),
        );
    }
    let dv = facts.duplicate_variants();
    if !dv.is_empty() {
        found = true;
        ctx.violation(
            "rust|variant-name-collision",
            &format!("enum variants with the same Rust name after case conversion: {dv:?}"),
            input(),
        );
    }
    found
}

/// Two probed items of one module that are given the same Rust type expression but have different source
/// types: at least one of them is wrong, no compiler needed. Returns the labels of all items involved.
fn same_rust_type_check(
    ctx: &mut Ctx,
    pc: &ProgramCase,
    which: &str,
    type_defs: &str,
    items: &[(String, String)],
    ex: &[Expect],
    colliding_def_types: &BTreeSet<String>,
) -> BTreeSet<String> {
    let mut involved = BTreeSet::new();
    let mut reported: BTreeSet<&str> = BTreeSet::new();
    for (i, (la, ta)) in items.iter().enumerate() {
        for (lb, tb) in items.iter().skip(i + 1) {
            if ta != tb {
                continue;
            }
            let (Some(ea), Some(eb)) = (ex.iter().find(|e| &e.label == la), ex.iter().find(|e| &e.label == lb)) else {
                continue;
            };
            if crate::model::subtype::requal(&pc.model_env, &ea.expected, &eb.expected) {
                continue;
            }
            involved.insert(la.clone());
            involved.insert(lb.clone());
            let place = if la.starts_with("init:") && lb.starts_with("init:") {
                "init-arguments"
            } else if la.starts_with("def:") || lb.starts_with("def:") || colliding_def_types.contains(ta) {
                // (incl. method types that are plain references to the two definitions of a colliding pair)
                "definitions"
            } else {
                "method-types"
            };
            if reported.insert(place) {
                ctx.violation(
                    &format!("rust|distinct-source-types-share-one-rust-type|{place}"),
                    &format!(
                        "{} and {} are different Candid types ({} vs {}) but the binding uses the Rust type `{ta}` for both",
                        ea.what, eb.what, ea.expected, eb.expected
                    ),
                    json!({"origin": pc.origin, "did": clip(&pc.text, 6000), "rust": clip(type_defs, 6000), "variant": which}),
                );
            }
        }
    }
    involved
}

fn prepare(ctx: &mut Ctx, pc: ProgramCase, next_module: &mut usize) -> Option<Pending> {
    let ck = match check_case(&pc) {
        Ok(c) => c,
        Err(m) => {
            ctx.count(&format!("excluded:not-accepted:{}", reject_class(&m)));
            return None;
        }
    };
    let input = || json!({"origin": pc.origin, "did": clip(&pc.text, 6000)});
    let cfg = rust_config();
    // (B) synthetic service: one method per definition
    let names: Vec<String> = ck.env.0.keys().cloned().collect();
    let meths: Vec<(String, Type)> = names
        .iter()
        .enumerate()
        .map(|(i, n)| {
            let v: Type = TypeInner::Var(n.clone()).into();
            (
                format!("vrf_m_{i:04}"),
                TypeInner::Func(Function {
                    modes: vec![],
                    args: vec![v.clone()],
                    rets: vec![v],
                })
                .into(),
            )
        })
        .collect();
    let actor_b: Option<Type> = Some(TypeInner::Service(meths).into());
    let out_b = match catch(|| rust::emit_bindgen(&cfg, &ck.env, &actor_b, &ck.prog).0) {
        Ok(o) => o,
        Err(p) => {
            ctx.violation(
                &format!("rust|panic|{}", p.sig()),
                &format!("emit_bindgen panicked (synthetic service over all definitions): {}", p.message),
                input(),
            );
            return None;
        }
    };
    let mut rust_of: BTreeMap<String, String> = BTreeMap::new();
    for m in &out_b.methods {
        if let Some(i) = m.original_name.strip_prefix("vrf_m_").and_then(|s| s.parse::<usize>().ok()) {
            if let (Some(n), Some(a)) = (names.get(i), m.args.first()) {
                rust_of.insert(n.clone(), a.1.clone());
            }
        }
    }
    let out_a = if ck.actor.is_some() {
        match catch(|| rust::emit_bindgen(&cfg, &ck.env, &ck.actor, &ck.prog).0) {
            Ok(o) => Some(o),
            Err(p) => {
                ctx.violation(
                    &format!("rust|panic|{}", p.sig()),
                    &format!("emit_bindgen panicked: {}", p.message),
                    input(),
                );
                None
            }
        }
    } else {
        None
    };
    // Rust type names given to more than one definition
    let mut colliding: BTreeSet<String> = BTreeSet::new();
    {
        let mut seen: BTreeSet<&String> = BTreeSet::new();
        for t in rust_of.values() {
            if !seen.insert(t) {
                colliding.insert(t.clone());
            }
        }
    }
    let reach = reachable_defs(&pc);
    let mut need_b = out_a.is_none() || reach.len() < pc.def_names.len();
    let mut pending = Pending {
        case: ctx.case,
        pc: pc.clone(),
        modules: BTreeMap::new(),
        items: BTreeMap::new(),
        shared: BTreeSet::new(),
        expects: Vec::new(),
    };
    let def_expects = |module: usize, only: Option<&BTreeSet<usize>>, out: &mut Vec<Expect>| {
        for (i, n) in pc.def_names.iter().enumerate() {
            if only.map(|s| !s.contains(&i)).unwrap_or(false) {
                continue;
            }
            if rust_of.contains_key(n) {
                out.push(Expect {
                    module,
                    label: format!("def:{i}"),
                    what: format!("definition `{n}`"),
                    expected: RType::Ref(i),
                });
            }
        }
    };
    let mut items_of: BTreeMap<usize, Vec<(String, String)>> = BTreeMap::new();
    if let Some(a) = &out_a {
        let k = *next_module;
        *next_module += 1;
        let explained = cheap_checks(ctx, &pc, "program as is", &a.type_defs);
        pending.modules.insert(k, ("A", a.type_defs.clone(), explained));
        let mut ex = Vec::new();
        def_expects(k, Some(&reach), &mut ex);
        // a definition the model reaches from the service but that is not emitted for it (a consequence of
        // generated names collapsing, which is reported on its own) is probed in module B instead
        if let Ok(f) = analyze_rust(&format!("use candid::{{self, CandidType, Deserialize, Principal}};\n{}", a.type_defs)) {
            let before = ex.len();
            ex.retain(|e| {
                let i: usize = e.label[4..].parse().unwrap();
                let t = &rust_of[&pc.def_names[i]];
                !is_ident(t.trim_start_matches("r#")) || f.items.iter().any(|it| it == t)
            });
            if ex.len() < before {
                need_b = true;
                ctx.count("cover:definition-not-emitted-for-the-actor");
            }
        }
        let mut items: Vec<(String, String)> = ex
            .iter()
            .map(|e| {
                let i: usize = e.label[4..].parse().unwrap();
                (e.label.clone(), rust_of[&pc.def_names[i]].clone())
            })
            .collect();
        // methods
        let model_methods: BTreeMap<String, RType> = pc.methods().unwrap_or_default().into_iter().collect();
        for (mi, m) in a.methods.iter().enumerate() {
            let Some(RType::Func { args, rets, .. }) = model_methods.get(&m.original_name) else {
                ctx.violation(
                    "rust|method-not-in-program",
                    &format!("emit_bindgen lists a method {:?} the program does not have", m.original_name),
                    input(),
                );
                continue;
            };
            if args.len() != m.args.len() || rets.len() != m.rets.len() {
                ctx.violation(
                    "rust|method-arity",
                    &format!(
                        "method {:?}: program has {}->{} types, binding lists {}->{}",
                        m.original_name,
                        args.len(),
                        rets.len(),
                        m.args.len(),
                        m.rets.len()
                    ),
                    input(),
                );
                continue;
            }
            for (j, (a, t)) in m.args.iter().zip(args.iter()).enumerate() {
                let label = format!("m:{mi}:arg{j}");
                items.push((label.clone(), a.1.clone()));
                ex.push(Expect {
                    module: k,
                    label,
                    what: format!("argument {j} of method {:?}", m.original_name),
                    expected: t.clone(),
                });
            }
            for (j, (r, t)) in m.rets.iter().zip(rets.iter()).enumerate() {
                let label = format!("m:{mi}:ret{j}");
                items.push((label.clone(), r.clone()));
                ex.push(Expect {
                    module: k,
                    label,
                    what: format!("result {j} of method {:?}", m.original_name),
                    expected: t.clone(),
                });
            }
        }
        if a.methods.len() != model_methods.len() {
            ctx.violation(
                "rust|method-count",
                &format!("the service has {} methods, emit_bindgen lists {}", model_methods.len(), a.methods.len()),
                input(),
            );
        }
        if let (Some(ia), Some(im)) = (&a.init_args, &pc.init) {
            if ia.len() == im.len() {
                for (j, (x, t)) in ia.iter().zip(im.iter()).enumerate() {
                    let label = format!("init:{j}");
                    items.push((label.clone(), x.1.clone()));
                    ex.push(Expect {
                        module: k,
                        label,
                        what: format!("init argument {j}"),
                        expected: t.clone(),
                    });
                }
            } else {
                ctx.violation("rust|init-arity", "number of init arguments differs", input());
            }
        }
        for l in same_rust_type_check(ctx, &pc, "program as is", &a.type_defs, &items, &ex, &colliding) {
            pending.shared.insert((k, l));
        }
        items_of.insert(k, items);
        pending.expects.extend(ex);
    }
    if need_b {
        let k = *next_module;
        *next_module += 1;
        let explained = cheap_checks(ctx, &pc, "synthetic service over all definitions", &out_b.type_defs);
        pending.modules.insert(k, ("B", out_b.type_defs.clone(), explained));
        let mut ex = Vec::new();
        def_expects(k, None, &mut ex);
        let items: Vec<(String, String)> = ex
            .iter()
            .map(|e| {
                let i: usize = e.label[4..].parse().unwrap();
                (e.label.clone(), rust_of[&pc.def_names[i]].clone())
            })
            .collect();
        for l in same_rust_type_check(ctx, &pc, "synthetic service over all definitions", &out_b.type_defs, &items, &ex, &colliding) {
            pending.shared.insert((k, l));
        }
        items_of.insert(k, items);
        pending.expects.extend(ex);
        ctx.count("cover:module-B");
    }
    if out_a.is_some() {
        ctx.count("cover:module-A");
    }
    pending.items = items_of;
    for t in &pc.tags {
        ctx.count(&format!("cover:{t}"));
    }
    Some(pending)
}

fn flush(ctx: &mut Ctx, pipe: &RsPipeline, pend: &mut Vec<Pending>, max_confirm: usize) -> f64 {
    if pend.is_empty() {
        return 0.0;
    }
    let batch = std::mem::take(pend);
    let mut mods: Vec<RsModule> = Vec::new();
    for p in &batch {
        for (k, (_, defs, _)) in &p.modules {
            mods.push(RsModule {
                k: *k,
                type_defs: defs.clone(),
                items: p.items.get(k).cloned().unwrap_or_default(),
            });
        }
    }
    let current = ctx.case;
    let res = match pipe.process(&mods, max_confirm) {
        Ok(r) => r,
        Err(e) => {
            ctx.count("inconclusive:cargo-pipeline-failed");
            eprintln!("C18 pipeline failed: {e}");
            return 0.0;
        }
    };
    ctx.count_n("cargo-builds", res.builds as u64);
    ctx.count_n("modules-compiled", (mods.len() - res.failed.len()) as u64);
    ctx.max("batch-seconds", res.build_seconds);
    for p in &batch {
        ctx.case = p.case;
        let pc = &p.pc;
        let mut judged = 0;
        for (k, (which, defs, explained)) in &p.modules {
            let input = || json!({"origin": pc.origin, "did": clip(&pc.text, 6000), "rust": clip(defs, 6000), "variant": which});
            if let Some(errs) = res.confirmed.get(k) {
                let all = if errs.is_empty() { res.failed.get(k).cloned().unwrap_or_default() } else { errs.clone() };
                if *explained {
                    ctx.count("compile-error-explained-by-reported-name-collision");
                } else if let Some(e) = all.first() {
                    let facts = analyze_rust(&format!("use candid::{{self, CandidType, Deserialize, Principal}};\n{defs}")).ok();
                    let shadow = facts
                        .as_ref()
                        .map(|f| f.items.iter().any(|i| SHADOWABLE.contains(&i.as_str())))
                        .unwrap_or(false);
                    let unescaped = pc.method_labels.iter().any(|m| needs_rust_escape(m) && defs.contains(&format!("\"{m}\" :")));
                    let sig = if unescaped {
                        "rust|define_service-method-name-not-escaped".to_string()
                    } else if shadow {
                        "rust|does-not-compile|definition-shadows-name-used-by-the-binding".to_string()
                    } else {
                        format!("rust|does-not-compile|{}", e.class())
                    };
                    ctx.violation(
                        &sig,
                        &format!("the emitted type definitions do not compile (confirmed alone): {}", clip(&e.rendered, 1200)),
                        input(),
                    );
                }
                ctx.count("outcome:does-not-compile");
            } else if res.failed.contains_key(k) {
                if res.not_reproduced.contains(k) {
                    ctx.count("inconclusive:compile-error-not-reproduced-alone");
                } else {
                    ctx.count("unconfirmed-compile-error");
                }
            } else {
                ctx.count("outcome:compiles");
            }
        }
        // first pass: classify every difference; a difference without a recognised root cause is reported under
        // its generic shape class only when nothing in this program has a recognised cause (overlapping
        // defects produce shapes that vary from program to program and would make signatures unstable)
        let mut found: Vec<(usize, String, String)> = Vec::new(); // (index into expects, class, path)
        for (ei, e) in p.expects.iter().enumerate() {
            let Some(r) = res.graphs.get(&(e.module, e.label.clone())) else { continue };
            let which = p.modules.get(&e.module).map(|m| m.0).unwrap_or("?");
            let defs = p.modules.get(&e.module).map(|m| m.1.as_str()).unwrap_or("");
            let input = || json!({"origin": pc.origin, "did": clip(&pc.text, 6000), "rust": clip(defs, 6000), "variant": which, "item": e.what});
            match r {
                Err(m) => ctx.violation(
                    &format!("rust|probe-error|{m}"),
                    &format!("computing the Candid type of the Rust type for {} failed: {m}", e.what),
                    input(),
                ),
                Ok(g) => {
                    judged += 1;
                    if g.roots.len() == 1 && requal2(&pc.model_env, &e.expected, &g.env, &g.roots[0]) {
                        ctx.count("agree:type");
                        continue;
                    }
                    ctx.count("outcome:type-differs");
                    if p.shared.contains(&(e.module, e.label.clone())) {
                        // already reported without compiling (same Rust type for different source types)
                        ctx.count("type-differs-explained-by-shared-rust-type");
                        continue;
                    }
                    let ds = g
                        .roots
                        .first()
                        .map(|r| diff_all_types(&pc.model_env, &e.expected, &g.env, r, 12))
                        .unwrap_or_default();
                    if ds.is_empty() {
                        found.push((ei, "unclassified".to_string(), String::new()));
                    }
                    for d in &ds {
                        found.push((ei, classify(pc, &e.label, g, d), d.path.clone()));
                    }
                }
            }
        }
        let generic = |c: &str| c.starts_with("definition|") || c.starts_with("method-type|") || c == "unclassified";
        let any_recognised =
            !p.shared.is_empty() || p.modules.values().any(|m| m.2) || found.iter().any(|f| !generic(&f.1));
        let mut sigs: BTreeSet<String> = BTreeSet::new();
        for (ei, c, path) in &found {
            let e = &p.expects[*ei];
            if generic(c) && any_recognised {
                ctx.count("type-differs-unclassified-in-program-with-recognised-defect");
                continue;
            }
            if !sigs.insert(c.clone()) {
                continue;
            }
            let which = p.modules.get(&e.module).map(|m| m.0).unwrap_or("?");
            let defs = p.modules.get(&e.module).map(|m| m.1.as_str()).unwrap_or("");
            ctx.violation(
                &(if c == "define_service-method-name-not-escaped" {
                    "rust|define_service-method-name-not-escaped".to_string()
                } else {
                    format!("rust|type-differs|{c}")
                }),
                &format!(
                    "the Candid type of the Rust type emitted for {} differs from the source at {}; expected {} in env {}",
                    e.what, path, e.expected, pc.model_env
                ),
                json!({"origin": pc.origin, "did": clip(&pc.text, 6000), "rust": clip(defs, 6000), "variant": which, "item": e.what}),
            );
        }
        if judged > 0 {
            ctx.nontrivial(hash_str(&pc.text));
        }
        ctx.sample(|| json!({"origin": pc.origin, "did": clip(&pc.text, 1500)}));
    }
    ctx.case = current;
    res.build_seconds
}

pub fn run(ctx: &mut Ctx) {
    let pipe = RsPipeline::new(&format!("{}{}", ctx.lane, ctx.shard));
    if std::env::var("VERIF_C18_PREBUILD").is_ok() {
        match pipe.prebuild() {
            Ok(s) => {
                ctx.count("prebuild:ok");
                ctx.max("prebuild-seconds", s);
            }
            Err(e) => {
                ctx.count("inconclusive:prebuild-failed");
                eprintln!("C18 prebuild failed: {e}");
            }
        }
        return;
    }
    let only = ctx.only.is_some();
    let mut pend: Vec<Pending> = Vec::new();
    let mut next_module = 0usize;
    let mut est = 0.0f64;
    let started = Instant::now();

    // round 0: the repository's assets
    let assets: Vec<ProgramCase> = asset_cases().into_iter().chain(catalogue_cases()).collect();
    if !assets.is_empty() {
        let saved = ctx.max_cases;
        let n = assets.len() as u64;
        ctx.max_cases = (n + ctx.nshards - 1) / ctx.nshards.max(1);
        ctx.cases("assets", 1.0, |ctx, _rng| {
            let local = ctx.case & ((1 << 40) - 1);
            if let Some(pc) = assets.get(local as usize) {
                if let Some(p) = prepare(ctx, pc.clone(), &mut next_module) {
                    pend.push(p);
                }
            }
        });
        ctx.max_cases = saved;
    }
    let cfgs: [(GenCfg, u64); 4] = [
        // no keyword names, no names colliding after case conversion, no numeric ids, no one-element tuples:
        // the shapes for which the binding is expected to be right, so that deeper problems are not masked
        (
            GenCfg {
                labels: NameMode::Clean,
                defs: NameMode::Clean,
                docs: DocMode::Benign,
                max_depth: 4,
                numeric_ids: false,
                one_tuples: false,
                ..GenCfg::default()
            },
            5,
        ),
        (
            GenCfg {
                labels: NameMode::Plain,
                defs: NameMode::Plain,
                docs: DocMode::Benign,
                max_depth: 4,
                ..GenCfg::default()
            },
            2,
        ),
        (GenCfg::default(), 2),
        (
            GenCfg {
                labels: NameMode::Hostile,
                defs: NameMode::Keywords,
                docs: DocMode::Benign,
                ..GenCfg::default()
            },
            1,
        ),
    ];
    let per_round: u64 = if only {
        u64::MAX >> 8
    } else if ctx.thorough() {
        60
    } else {
        24
    };
    let max_rounds = if only { 256 } else { 10_000 };
    for r in 0..max_rounds {
        if !only {
            let left = ctx.deadline.saturating_duration_since(Instant::now()).as_secs_f64();
            if r > 0 && left < est * 1.3 + 5.0 {
                break;
            }
        }
        let saved = ctx.max_cases;
        ctx.max_cases = per_round;
        ctx.cases(&format!("adhoc-r{r}"), 1.0, |ctx, rng| {
            let pick = rng.below(10);
            let mut acc = 0;
            let mut cfg = &cfgs[0].0;
            for (c, w) in cfgs.iter() {
                acc += w;
                if pick < acc {
                    cfg = c;
                    break;
                }
            }
            let pc = if rng.chance(1, 2) {
                gen_case(rng, cfg, "adhoc:c18")
            } else {
                // the shared generator; two thirds with the name classes that are known to break the binding off
                let tame = rng.chance(2, 3);
                let tweak = |c: &mut crate::prog::ProgCfg| {
                    if tame {
                        c.keyword_names = false;
                        c.hostile_names = false;
                        c.case_collisions = false;
                    }
                    c.max_defs = c.max_defs.min(6);
                };
                match gen_prog_case(rng, &tweak, if tame { "prog:c18-tame" } else { "prog:c18" }) {
                    Some(pc) => pc,
                    None => {
                        ctx.count("excluded:prog-model-failed");
                        return;
                    }
                }
            };
            if let Some(p) = prepare(ctx, pc, &mut next_module) {
                pend.push(p);
            }
        });
        ctx.max_cases = saved;
        if !only {
            let s = flush(ctx, &pipe, &mut pend, if ctx.thorough() { 6 } else { 3 });
            est = if est == 0.0 { s } else { est.max(s) * 0.5 + s * 0.5 };
            ctx.count("rounds");
        }
    }
    if only {
        flush(ctx, &pipe, &mut pend, 4);
    }
    ctx.max("total-seconds", started.elapsed().as_secs_f64());
    pipe.cleanup();
}
