//! C10 — untyped values survive annotate, encode and decode at their type.
use super::common::*;
use crate::conv::*;
use crate::ctx::{catch, hex, Ctx};
use crate::gen::types::*;
use crate::gen::values::*;
use crate::model::wire::{encodable, mu_records};
use crate::model::*;
use crate::rng::{hash_str, Rng};
use candid::types::value::{IDLField, IDLValue, VariantValue};
use candid::types::Label;
use candid::IDLArgs;
use serde_json::json;

/// Does a reference type (func/service) in `t` mention a record that contains itself? Decoding such a
/// reference at its own type is affected by the documented wire-side normalisation (see DESIGN §4).
pub fn mentions_mu_in_reference(env: &REnv, t: &RType) -> bool {
    // flatten through the reference encoder's view: any µ-record in the environment reachable from a func/service
    fn reach(env: &REnv, t: &RType, seen: &mut Vec<bool>, inside_ref: bool, mu: &[bool]) -> bool {
        match t {
            RType::Ref(i) => {
                if inside_ref && mu[*i] {
                    return true;
                }
                if seen[*i + if inside_ref { env.0.len() } else { 0 }] {
                    return false;
                }
                seen[*i + if inside_ref { env.0.len() } else { 0 }] = true;
                reach(env, &env.0[*i], seen, inside_ref, mu)
            }
            RType::Opt(x) | RType::Vec(x) => reach(env, x, seen, inside_ref, mu),
            RType::Record(fs) | RType::Variant(fs) => fs.iter().any(|f| reach(env, &f.1, seen, inside_ref, mu)),
            RType::Func { args, rets, .. } => args.iter().chain(rets.iter()).any(|x| reach(env, x, seen, true, mu)),
            RType::Service(ms) => ms.iter().any(|m| reach(env, &m.1, seen, true, mu)),
            _ => false,
        }
    }
    // µ-records of the *named* environment: definitions that are records containing themselves through record fields
    let flat_mu = named_mu(env);
    let mut seen = vec![false; env.0.len() * 2];
    reach(env, t, &mut seen, false, &flat_mu)
}

/// definitions whose values would have to contain themselves (through record fields, inline or by reference)
fn named_mu(env: &REnv) -> Vec<bool> {
    fn rec_reaches(env: &REnv, t: &RType, s: &[bool]) -> bool {
        match t {
            RType::Ref(j) => s[*j],
            RType::Record(fs) => fs.iter().any(|f| rec_reaches(env, &f.1, s)),
            _ => false,
        }
    }
    let n = env.0.len();
    let mut s: Vec<bool> = env.0.iter().map(|t| matches!(env.unfold(t), Some(RType::Record(_)))).collect();
    loop {
        let mut changed = false;
        for i in 0..n {
            if s[i] && !rec_reaches(env, &env.0[i], &s) {
                s[i] = false;
                changed = true;
            }
        }
        if !changed {
            return s;
        }
    }
}

/// Typing with the allowances of the property: nat at int, anything at reserved, null at opt.
/// None = a corner the property leaves open (do not judge).
fn lenient_type(env: &REnv, v: &IDLValue, t: &RType) -> Option<bool> {
    let t = env.unfold(t)?;
    Some(match (v, t) {
        (_, RType::Reserved) => true,
        (IDLValue::Null, RType::Null) => true,
        (IDLValue::Null | IDLValue::None, RType::Opt(_)) => true,
        (IDLValue::Reserved, RType::Opt(_)) => return None,
        (IDLValue::Opt(x), RType::Opt(u)) => lenient_type(env, x, u)?,
        (IDLValue::Bool(_), RType::Bool) => true,
        (IDLValue::Nat(_), RType::Nat) | (IDLValue::Nat(_), RType::Int) | (IDLValue::Int(_), RType::Int) => true,
        (IDLValue::Nat8(_), RType::Nat8)
        | (IDLValue::Nat16(_), RType::Nat16)
        | (IDLValue::Nat32(_), RType::Nat32)
        | (IDLValue::Nat64(_), RType::Nat64)
        | (IDLValue::Int8(_), RType::Int8)
        | (IDLValue::Int16(_), RType::Int16)
        | (IDLValue::Int32(_), RType::Int32)
        | (IDLValue::Int64(_), RType::Int64)
        | (IDLValue::Float32(_), RType::Float32)
        | (IDLValue::Float64(_), RType::Float64) => true,
        (IDLValue::Float64(_), RType::Float32) => return None,
        (IDLValue::Number(_), _) => return None,
        (IDLValue::Text(_), RType::Text) => true,
        (IDLValue::Principal(_), RType::Principal) => true,
        (IDLValue::Service(_), RType::Service(_)) => true,
        (IDLValue::Func(..), RType::Func { .. }) => true,
        (IDLValue::Blob(_), RType::Vec(u)) => matches!(env.unfold(u), Some(RType::Nat8)),
        (IDLValue::Vec(xs), RType::Vec(u)) => {
            let mut ok = true;
            for x in xs {
                ok &= lenient_type(env, x, u)?;
            }
            ok
        }
        (IDLValue::Record(fs), RType::Record(ts)) => {
            // every field of the type must be present (or be opt/null/reserved: the annotation fills those in)
            let mut ok = true;
            for (id, ft) in ts {
                match fs.iter().find(|f| f.id.get_id() == *id) {
                    Some(f) => ok &= lenient_type(env, &f.val, ft)?,
                    None => {
                        if !env.is_nullable(ft) {
                            ok = false;
                        }
                    }
                }
            }
            // surplus fields in the value: the property does not say; leave open
            if fs.iter().any(|f| !ts.iter().any(|t| t.0 == f.id.get_id())) {
                return None;
            }
            ok
        }
        (IDLValue::Variant(x), RType::Variant(ts)) => match ts.iter().find(|t| t.0 == x.0.id.get_id()) {
            Some((_, ft)) => lenient_type(env, &x.0.val, ft)?,
            None => false,
        },
        _ => false,
    })
}

/// One edit that (usually) makes the value ill-typed. Returns a description.
fn near_miss(rng: &mut Rng, v: &mut IDLValue, depth: usize) -> Option<&'static str> {
    // descend randomly
    if depth < 6 && rng.chance(2, 3) {
        match v {
            IDLValue::Opt(x) => return near_miss(rng, x, depth + 1),
            IDLValue::Vec(xs) if !xs.is_empty() => {
                let k = rng.usize(xs.len());
                return near_miss(rng, &mut xs[k], depth + 1);
            }
            IDLValue::Record(fs) if !fs.is_empty() => {
                let k = rng.usize(fs.len());
                return near_miss(rng, &mut fs[k].val, depth + 1);
            }
            IDLValue::Variant(x) => return near_miss(rng, &mut x.0.val, depth + 1),
            _ => {}
        }
    }
    let (nv, what): (IDLValue, &'static str) = match &*v {
        IDLValue::Nat8(n) => (IDLValue::Nat16(*n as u16), "width:nat8->nat16"),
        IDLValue::Nat16(n) => (IDLValue::Nat8(*n as u8), "width:nat16->nat8"),
        IDLValue::Nat32(n) => (IDLValue::Int32(*n as i32), "sign:nat32->int32"),
        IDLValue::Nat64(n) => (IDLValue::Nat32(*n as u32), "width:nat64->nat32"),
        IDLValue::Int8(n) => (IDLValue::Int16(*n as i16), "width:int8->int16"),
        IDLValue::Int16(n) => (IDLValue::Nat16(*n as u16), "sign:int16->nat16"),
        IDLValue::Int32(n) => (IDLValue::Int64(*n as i64), "width:int32->int64"),
        IDLValue::Int64(n) => (IDLValue::Nat64(*n as u64), "sign:int64->nat64"),
        IDLValue::Int(i) => (IDLValue::Text(i.to_string()), "kind:int->text"),
        IDLValue::Nat(n) => (IDLValue::Nat64(n.0.to_u64_digits().first().copied().unwrap_or(0)), "width:nat->nat64"),
        IDLValue::Bool(b) => (IDLValue::Nat8(*b as u8), "kind:bool->nat8"),
        IDLValue::Text(s) => (IDLValue::Blob(s.as_bytes().to_vec()), "kind:text->blob"),
        IDLValue::Float32(f) => (IDLValue::Nat32(f.to_bits()), "kind:float32->nat32"),
        IDLValue::Float64(f) => (IDLValue::Int64(f.to_bits() as i64), "kind:float64->int64"),
        IDLValue::Principal(p) => (IDLValue::Service(*p), "reference:principal->service"),
        IDLValue::Service(p) => (IDLValue::Func(*p, "m".into()), "reference:service->func"),
        IDLValue::Func(p, _) => (IDLValue::Principal(*p), "reference:func->principal"),
        IDLValue::Blob(b) => (IDLValue::Text(String::from_utf8_lossy(b).to_string()), "kind:blob->text"),
        IDLValue::Record(fs) if !fs.is_empty() => {
            let mut fs = fs.clone();
            let k = rng.usize(fs.len());
            fs.remove(k);
            (IDLValue::Record(fs), "record:field-removed")
        }
        IDLValue::Record(_) => (IDLValue::Vec(vec![]), "kind:record->vec"),
        IDLValue::Variant(x) => {
            let mut id = x.0.id.get_id().wrapping_add(1 + rng.below(5) as u32);
            if rng.bool() {
                id = rng.next() as u32;
            }
            (
                IDLValue::Variant(VariantValue(
                    Box::new(IDLField {
                        id: Label::Id(id),
                        val: x.0.val.clone(),
                    }),
                    0,
                )),
                "variant:other-tag",
            )
        }
        IDLValue::Vec(xs) => {
            let mut xs = xs.clone();
            xs.push(IDLValue::Text("intruder".into()));
            (IDLValue::Vec(xs), "vec:foreign-element")
        }
        IDLValue::Null | IDLValue::None => (IDLValue::Bool(false), "kind:null->bool"),
        IDLValue::Opt(_) => (IDLValue::Text("x".into()), "kind:opt->text"),
        _ => return None,
    };
    *v = nv;
    Some(what)
}

pub fn run(ctx: &mut Ctx) {
    let cfg = TypeCfg::default();
    ctx.cases("well-typed", 0.65, |ctx, rng| {
        let env = gen_env(rng, &cfg);
        let nt = 1 + rng.usize(3);
        let cand = gen_types(rng, &cfg, &env, nt);
        let vg = ValGen::new(&env);
        let mut fuel = *rng.pick(&[4i64, 20, 60]);
        let mut ts = Vec::new();
        let mut vals = Vec::new();
        for t in cand {
            if !encodable(&env, &t) {
                continue;
            }
            if let Some(v) = vg.gen(rng, &t, &mut fuel) {
                ts.push(t);
                vals.push(v);
            }
        }
        if ts.is_empty() {
            return;
        }
        let names = if rng.chance(2, 3) { gen_names(rng, &env, &ts) } else { Names::new() };
        let (cenv, cts) = candid_side(&env, &ts, Some(&names));
        let mut idl = Vec::new();
        for (t, v) in ts.iter().zip(vals.iter()) {
            match to_idl(&env, t, v, Some(&names)) {
                Ok(x) => idl.push(x),
                Err(_) => return,
            }
        }
        let want: Vec<RValue> = idl.iter().map(model_value).collect();
        // a third of the cases start from a hand-built spelling of the same values (see `hand_built`)
        if rng.chance(1, 3) {
            idl = idl.iter().map(|v| hand_built(rng, v)).collect();
            ctx.count("cover:hand-built-values");
        }
        let args = IDLArgs { args: idl };
        let label_feature = if names.values().any(|n| n == "_") {
            "label=_"
        } else if names.values().any(|n| n.contains(',')) {
            "label-with-comma"
        } else {
            "plain"
        };
        let mu_ref = ts.iter().any(|t| mentions_mu_in_reference(&env, t));
        let input = || {
            json!({
                "env": env.to_string(), "types": ts.iter().map(|t| t.to_string()).collect::<Vec<_>>(),
                "value": args.to_string().chars().take(1200).collect::<String>(),
                "names": names.iter().map(|(k, v)| format!("{k}={v:?}")).collect::<Vec<_>>(),
            })
        };
        // 1. annotation keeps the meaning
        for from_parser in [true, false] {
            match catch(|| args.clone().annotate_types(from_parser, &cenv, &cts)) {
                Err(p) => ctx.violation(&format!("panic|annotate_types({from_parser})|{}", p.sig()), &p.message, input()),
                Ok(Err(e)) => ctx.violation(
                    &format!("annotate-rejects-well-typed|from_parser={from_parser}|{}", err_class(&e)),
                    &format!("annotate_types failed on a value of the type: {e}"),
                    input(),
                ),
                Ok(Ok(a2)) => {
                    let got: Vec<RValue> = a2.args.iter().map(model_value).collect();
                    if let Some(d) = diff_all(&want, &got) {
                        ctx.violation(
                            &format!("annotate-changes-meaning|from_parser={from_parser}"),
                            &format!("before (left) vs after annotation (right): {d}"),
                            input(),
                        );
                    }
                }
            }
        }
        // 2. encode at t, decode at t and with no type
        let bytes = match catch(|| args.to_bytes_with_types(&cenv, &cts)) {
            Err(p) => {
                ctx.violation(&format!("panic|to_bytes_with_types|{}", p.sig()), &p.message, input());
                return;
            }
            Ok(Err(e)) => {
                ctx.violation(&format!("encode-rejects-well-typed|{}", err_class(&e)), &e.to_string(), input());
                return;
            }
            Ok(Ok(b)) => b,
        };
        match catch(|| IDLArgs::from_bytes_with_types(&bytes, &cenv, &cts)) {
            Err(p) => {
                let sig = if label_feature == "label-with-comma" && p.location.contains("value.rs") {
                    format!("panic|{}|label-with-comma", p.location)
                } else {
                    format!("panic|from_bytes_with_types|{}", p.sig())
                };
                ctx.violation(&sig, &p.message, json!({"bytes": hex(&bytes), "case": input()}))
            }
            Ok(Err(e)) if mu_ref => ctx.violation(
                "decode-at-same-type-fails|reference-type-mentions-self-containing-record",
                &format!("decoding at the type the value was encoded at fails: {}", err_class(&e)),
                json!({"bytes": hex(&bytes), "case": input()}),
            ),
            Ok(Err(e)) => ctx.violation(
                &format!("decode-at-same-type-fails|{}", err_class(&e)),
                &format!("decoding at the type the value was encoded at fails: {}", e.to_string().lines().next().unwrap_or("")),
                json!({"bytes": hex(&bytes), "case": input()}),
            ),
            Ok(Ok(back)) => {
                let got: Vec<RValue> = back.args.iter().map(model_value).collect();
                if let Some(d) = diff_all(&want, &got) {
                    let sig = if mu_ref && d.contains("vs null") {
                        "decode-at-same-type-differs|reference-type-mentions-self-containing-record".to_string()
                    } else if label_feature == "label=_" && d.contains("record fields") {
                        "decode-at-same-type-differs|expected-field-named-underscore-dropped".to_string()
                    } else {
                        format!("decode-at-same-type-differs|{label_feature}")
                    };
                    ctx.violation(&sig, &format!("original (left) vs decoded (right): {d}"), json!({"bytes": hex(&bytes), "case": input()}));
                } else {
                    ctx.count("agree:typed-roundtrip");
                    // structural equality of IDLValue as well (labels compare by id)
                    if let Ok(Ok(ann)) = catch(|| args.clone().annotate_types(true, &cenv, &cts)) {
                        if ann != back && !args.to_string().contains("NaN") {
                            ctx.violation("decode-at-same-type-differs|IDLValue-eq", "model values equal but IDLValue::eq says different", json!({"bytes": hex(&bytes), "case": input()}));
                        }
                    }
                }
            }
        }
        match catch(|| IDLArgs::from_bytes(&bytes)) {
            Err(p) => ctx.violation(&format!("panic|from_bytes|{}", p.sig()), &p.message, json!({"bytes": hex(&bytes)})),
            Ok(Err(e)) => ctx.violation(&format!("untyped-decode-fails|{}", err_class(&e)), &e.to_string(), json!({"bytes": hex(&bytes), "case": input()})),
            Ok(Ok(back)) => {
                let got: Vec<RValue> = back.args.iter().map(model_value).collect();
                if let Some(d) = diff_all(&want, &got) {
                    ctx.violation("untyped-decode-differs", &format!("original (left) vs decoded without types (right): {d}"), json!({"bytes": hex(&bytes), "case": input()}));
                } else {
                    ctx.count("agree:untyped-roundtrip");
                }
            }
        }
        ctx.count(&format!("cover:labels:{label_feature}"));
        if mu_records(&env).iter().any(|b| *b) {
            ctx.count("cover:env-with-self-containing-record");
        }
        ctx.nontrivial(hash_str(&format!("{:?}|{}", ts.iter().map(|t| shape(&env, t, 4)).collect::<Vec<_>>(), bytes.len())));
        ctx.sample(input);
    });
    // argument lists of the wrong length: more values than types must be rejected (not a panic), fewer values than types
    // only when the missing ones are not null / opt / reserved
    ctx.cases("argument-count-mismatch", 0.05, |ctx, rng| {
        let env = gen_env(rng, &cfg);
        let n = 1 + rng.usize(3);
        let ts = gen_types(rng, &cfg, &env, n);
        if ts.iter().any(|t| !encodable(&env, t)) {
            return;
        }
        let vg = ValGen::new(&env);
        let mut fuel = 30i64;
        let mut vals = Vec::new();
        for t in &ts {
            let Some(v) = vg.gen(rng, t, &mut fuel) else { return };
            let Ok(idl) = to_idl(&env, t, &v, None) else { return };
            vals.push(idl);
        }
        let (cenv, cts) = candid_side(&env, &ts, None);
        let keep = rng.usize(n); // types given: fewer than values
        let args = IDLArgs { args: vals.clone() };
        let input = || json!({"env": env.to_string(), "types_given": ts[..keep].iter().map(|t| t.to_string()).collect::<Vec<_>>(), "values": format!("{args:?}").chars().take(600).collect::<String>()});
        for from_parser in [true, false] {
            match catch(|| args.clone().annotate_types(from_parser, &cenv, &cts[..keep])) {
                Err(p) => ctx.violation(&format!("panic|annotate_types|{}", p.sig()), &p.message, input()),
                Ok(Ok(a)) => ctx.violation(
                    "annotate_types-accepts-surplus-values",
                    &format!("{} values annotated with {keep} types returned {} values", vals.len(), a.args.len()),
                    input(),
                ),
                Ok(Err(_)) => ctx.count("agree:annotate_types-rejects-surplus-values"),
            }
        }
        // fewer values than types: the omitted ones must be null / opt / reserved
        let fewer = IDLArgs { args: vals[..keep].to_vec() };
        let omitted_ok = ts[keep..].iter().all(|t| matches!(env.unfold(t), Some(RType::Null | RType::Reserved | RType::Opt(_))));
        match catch(|| fewer.clone().annotate_types(true, &cenv, &cts)) {
            Err(p) => ctx.violation(&format!("panic|annotate_types|{}", p.sig()), &p.message, input()),
            Ok(r) => {
                if r.is_ok() != omitted_ok {
                    ctx.violation(
                        &format!("annotate_types-omitted-values|{}", if omitted_ok { "rejects-optional" } else { "accepts-required" }),
                        &format!("{keep} values for {n} types: {:?}", r.map(|a| a.args.len()).map_err(|e| e.to_string())),
                        input(),
                    );
                } else {
                    ctx.count("agree:annotate_types-omitted-values");
                }
            }
        }
        ctx.nontrivial(hash_str(&format!("argc|{keep}|{n}|{}", shape(&env, &ts[0], 2))));
    });
    ctx.cases("near-miss", 0.3, |ctx, rng| {
        let env = gen_env(rng, &cfg);
        let cand = gen_types(rng, &cfg, &env, 1);
        let vg = ValGen::new(&env);
        let mut fuel = 30i64;
        let t = &cand[0];
        if !encodable(&env, t) {
            return;
        }
        let Some(v) = vg.gen(rng, t, &mut fuel) else { return };
        let Ok(mut idl) = to_idl(&env, t, &v, None) else { return };
        let Some(what) = near_miss(rng, &mut idl, 0) else { return };
        let (cenv, cts) = candid_side(&env, std::slice::from_ref(t), None);
        let verdict = lenient_type(&env, &idl, t);
        let input = || json!({"env": env.to_string(), "type": t.to_string(), "value": format!("{idl:?}").chars().take(800).collect::<String>(), "edit": what});
        match verdict {
            None => {
                ctx.count("excluded:open-corner");
            }
            Some(true) => {
                ctx.count("near-miss:still-well-typed");
            }
            Some(false) => {
                ctx.count(&format!("cover:near-miss:{what}"));
                match catch(|| idl.annotate_type(true, &cenv, &cts[0])) {
                    Err(p) => ctx.violation(&format!("panic|annotate_type|{}", p.sig()), &p.message, input()),
                    Ok(Ok(a)) => ctx.violation(
                        &format!("annotate-accepts-ill-typed|{what}"),
                        &format!("annotate_type(true) returned {a:?} for a value that is not of the type"),
                        input(),
                    ),
                    Ok(Err(_)) => ctx.count("agree:annotate-rejects"),
                }
                let args = IDLArgs { args: vec![idl.clone()] };
                match catch(|| args.to_bytes_with_types(&cenv, &cts)) {
                    Err(p) => ctx.violation(&format!("panic|to_bytes_with_types|{}", p.sig()), &p.message, input()),
                    Ok(Ok(b)) => ctx.violation(
                        &format!("encode-accepts-ill-typed|{what}"),
                        &format!("typed encoding produced {} for a value that is not of the type", hex(&b)),
                        input(),
                    ),
                    Ok(Err(_)) => ctx.count("agree:encode-rejects"),
                }
                ctx.nontrivial(hash_str(&format!("nm|{what}|{}", shape(&env, t, 3))));
            }
        }
    });
}
