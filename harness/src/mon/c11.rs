//! C11 — printing a value as Candid text and parsing it back returns the same value.
//!
//! Values are generated from model types (so their types are known without asking candid), turned
//! into the `IDLValue` the decoder would produce, printed with `Display` and `{:?}`, parsed with
//! `parse_idl_args` / `parse_idl_value` and annotated with their types. The result must be equal as
//! `IDLValue` and in abstract meaning (`conv::model_value`, floats bit for bit).
//! A failing value is shrunk to the smallest failing sub-value before it is classified, so a
//! signature describes the construct that breaks, not whatever surrounded it.
use super::common::{diff, err_class};
use super::textgen::*;
use crate::conv::*;
use crate::ctx::{catch, Ctx};
use crate::gen::types::*;
use crate::gen::values::*;
use crate::model::*;
use crate::rng::{hash_str, Rng};
use candid::types::value::{IDLArgs, IDLValue};
use candid::types::{Label, Type, TypeEnv};
use candid_parser::{parse_idl_args, parse_idl_value};
use serde_json::json;
use std::collections::BTreeMap;

type Cover = BTreeMap<String, u64>;

fn bump(cov: &mut Cover, k: &str) {
    if let Some(v) = cov.get_mut(k) {
        *v += 1;
    } else {
        cov.insert(k.to_string(), 1);
    }
}

#[derive(Clone, Copy, PartialEq, Eq, Debug)]
enum Printer {
    Display,
    Debug,
}
impl Printer {
    fn name(self) -> &'static str {
        match self {
            Printer::Display => "display",
            Printer::Debug => "debug",
        }
    }
}

struct Failure {
    stage: &'static str,
    detail: String,
    text: String,
}

fn print_value(v: &IDLValue, p: Printer) -> String {
    match p {
        Printer::Display => format!("{v}"),
        Printer::Debug => format!("{v:?}"),
    }
}
fn print_args(v: &IDLArgs, p: Printer) -> String {
    match p {
        Printer::Display => format!("{v}"),
        Printer::Debug => format!("{v:?}"),
    }
}

fn diff_class(d: &str) -> String {
    let tail = d.split(": ").nth(1).unwrap_or(d);
    let w: Vec<&str> = tail.split_whitespace().take(2).collect();
    w.join(" ").chars().filter(|c| !c.is_ascii_digit()).take(40).collect()
}

/// `VERIF_TRACE=1` prints every text before it is parsed (to find the input of a crash).
fn trace(text: &str) {
    static ON: std::sync::OnceLock<bool> = std::sync::OnceLock::new();
    if *ON.get_or_init(|| std::env::var("VERIF_TRACE").is_ok()) {
        eprintln!("TRACE {text:?}");
    }
}

fn short_loc(loc: &str) -> String {
    loc.rsplit('/').next().unwrap_or(loc).to_string()
}

fn panic_detail(pi: &crate::ctx::PanicInfo) -> String {
    format!("{}|{}", short_loc(&pi.location), pi.message.lines().next().unwrap_or(""))
}

/// Kinds the printers annotate at top level (`5 : nat8`): the `Arg` grammar behind
/// `parse_idl_value` has no annotation at top level, so those are parsed inside parentheses.
fn top_level_annotated(v: &IDLValue) -> bool {
    use IDLValue::*;
    matches!(
        v,
        Int(_)
            | Nat(_)
            | Nat8(_)
            | Nat16(_)
            | Nat32(_)
            | Nat64(_)
            | Int8(_)
            | Int16(_)
            | Int32(_)
            | Int64(_)
            | Float32(_)
            | Float64(_)
            | Null
            | Reserved
    )
}

/// Print, print again, parse, annotate, compare one value. With `wrapped` the printed text is
/// parsed as `(text)` (an argument position).
fn roundtrip_value(v: &IDLValue, env: &TypeEnv, t: &Type, p: Printer, wrapped: bool) -> Result<String, Failure> {
    let text = match catch(|| print_value(v, p)) {
        Ok(s) => s,
        Err(pi) => {
            return Err(Failure {
                stage: "print-panic",
                detail: panic_detail(&pi),
                text: String::new(),
            })
        }
    };
    let again = catch(|| print_value(v, p)).unwrap_or_default();
    if again != text {
        return Err(Failure {
            stage: "nondeterministic-print",
            detail: String::new(),
            text,
        });
    }
    let src = if wrapped { format!("({text})") } else { text.clone() };
    if lexer_ub_risk(&src) {
        return Err(Failure {
            stage: "unparsable-escape",
            detail: "printed text has a backslash before a non-ASCII character: no such escape exists (and lexing it is undefined behaviour, see C13)".into(),
            text,
        });
    }
    trace(&src);
    let parsed = match catch(|| parse_idl_value(&src)) {
        Err(pi) => {
            return Err(Failure {
                stage: "parse-panic",
                detail: panic_detail(&pi),
                text,
            })
        }
        Ok(Err(e)) => {
            return Err(Failure {
                stage: "parse-fail",
                detail: err_class(&e),
                text,
            })
        }
        Ok(Ok(x)) => x,
    };
    let ann = match catch(|| parsed.annotate_type(true, env, t)) {
        Err(pi) => {
            return Err(Failure {
                stage: "annotate-panic",
                detail: panic_detail(&pi),
                text,
            })
        }
        Ok(Err(e)) => {
            return Err(Failure {
                stage: "annotate-fail",
                detail: err_class(&e),
                text,
            })
        }
        Ok(Ok(x)) => x,
    };
    let (ma, mb) = (model_value(v), model_value(&ann));
    if let Some(d) = diff(&ma, &mb, &mut String::from("v")) {
        return Err(Failure {
            stage: "value-mismatch",
            detail: d,
            text,
        });
    }
    if ann != *v {
        return Err(Failure {
            stage: "idlvalue-not-equal",
            detail: "same abstract value, different IDLValue".into(),
            text,
        });
    }
    Ok(text)
}

fn roundtrip_args(a: &IDLArgs, env: &TypeEnv, ts: &[Type], p: Printer) -> Result<String, Failure> {
    let text = match catch(|| print_args(a, p)) {
        Ok(s) => s,
        Err(pi) => {
            return Err(Failure {
                stage: "print-panic",
                detail: panic_detail(&pi),
                text: String::new(),
            })
        }
    };
    let again = catch(|| print_args(a, p)).unwrap_or_default();
    if again != text {
        return Err(Failure {
            stage: "nondeterministic-print",
            detail: String::new(),
            text,
        });
    }
    if lexer_ub_risk(&text) {
        return Err(Failure {
            stage: "unparsable-escape",
            detail: "printed text has a backslash before a non-ASCII character: no such escape exists (and lexing it is undefined behaviour, see C13)".into(),
            text,
        });
    }
    trace(&text);
    let parsed = match catch(|| parse_idl_args(&text)) {
        Err(pi) => {
            return Err(Failure {
                stage: "parse-panic",
                detail: panic_detail(&pi),
                text,
            })
        }
        Ok(Err(e)) => {
            return Err(Failure {
                stage: "parse-fail",
                detail: err_class(&e),
                text,
            })
        }
        Ok(Ok(x)) => x,
    };
    if parsed.args.len() != a.args.len() {
        return Err(Failure {
            stage: "value-mismatch",
            detail: format!("args: argument count {} vs {}", a.args.len(), parsed.args.len()),
            text,
        });
    }
    let ann = match catch(|| parsed.annotate_types(true, env, ts)) {
        Err(pi) => {
            return Err(Failure {
                stage: "annotate-panic",
                detail: panic_detail(&pi),
                text,
            })
        }
        Ok(Err(e)) => {
            return Err(Failure {
                stage: "annotate-fail",
                detail: err_class(&e),
                text,
            })
        }
        Ok(Ok(x)) => x,
    };
    for (i, (x, y)) in a.args.iter().zip(ann.args.iter()).enumerate() {
        if let Some(d) = diff(&model_value(x), &model_value(y), &mut format!("arg{i}")) {
            return Err(Failure {
                stage: "value-mismatch",
                detail: d,
                text,
            });
        }
    }
    if ann != *a {
        return Err(Failure {
            stage: "idlvalue-not-equal",
            detail: "same abstract value, different IDLValue".into(),
            text,
        });
    }
    Ok(text)
}

/// Which escape forms / raw classes the printer actually emitted.
fn scan_printed(text: &str, cov: &mut Cover) -> bool {
    let b: Vec<char> = text.chars().collect();
    let mut i = 0;
    let mut nul_escape = false;
    while i < b.len() {
        if b[i] != '"' {
            i += 1;
            continue;
        }
        // a string literal starts; blob literals use \xx for everything
        let mut j = i;
        while j > 0 && b[j - 1] == ' ' {
            j -= 1;
        }
        let is_blob = j >= 4 && b[j - 4..j] == ['b', 'l', 'o', 'b'];
        let kind = if is_blob { "blob" } else { "text" };
        i += 1;
        while i < b.len() && b[i] != '"' {
            if b[i] == '\\' && i + 1 < b.len() {
                let c = b[i + 1];
                if is_blob {
                    bump(cov, "cover:printed:blob:\\xx");
                    i += 3;
                    continue;
                }
                match c {
                    'n' | 't' | 'r' | '\\' | '"' | '\'' => {
                        bump(cov, &format!("cover:printed:text:\\{c}"));
                        i += 2;
                    }
                    '0' => {
                        nul_escape = true;
                        let hex = b.get(i + 2).map(|x| x.is_ascii_hexdigit()).unwrap_or(false);
                        bump(
                            cov,
                            if hex {
                                "cover:printed:text:\\0+hexdigit"
                            } else {
                                "cover:printed:text:\\0"
                            },
                        );
                        i += 2;
                    }
                    'u' => {
                        let mut k = i + 3;
                        let mut cp = 0u32;
                        while k < b.len() && b[k] != '}' {
                            cp = cp.wrapping_mul(16).wrapping_add(b[k].to_digit(16).unwrap_or(0));
                            k += 1;
                        }
                        let class = char::from_u32(cp).map(scalar_class).unwrap_or("invalid");
                        bump(cov, &format!("cover:printed:text:\\u{{..}}:{class}"));
                        i = k + 1;
                    }
                    _ => {
                        // only reachable when a printer emitted something that is not a string escape
                        bump(cov, "cover:printed:text:\\other(unparsable print)");
                        i += 2;
                    }
                }
            } else {
                if b[i].is_ascii() {
                    bump(cov, if is_blob { "cover:printed:blob:raw-ascii" } else { "cover:printed:text:raw-ascii" });
                } else {
                    bump(cov, &format!("cover:printed:{kind}:raw:{}", scalar_class(b[i])));
                }
                i += 1;
            }
        }
        i += 1;
    }
    nul_escape
}

fn scan_string(s: &str, pos: &str, cov: &mut Cover) {
    let mut seen: [bool; 20] = [false; 20];
    const CLASSES: [&str; 20] = [
        "nul",
        "tab-cr-lf",
        "c0-control",
        "double-quote",
        "single-quote",
        "backslash",
        "ascii-printable",
        "del",
        "c1-control",
        "latin1",
        "combining",
        "bidi-or-zero-width",
        "line-separator",
        "bom",
        "surrogate-adjacent",
        "noncharacter",
        "private-use",
        "bmp-other",
        "astral",
        "?",
    ];
    let cs: Vec<char> = s.chars().collect();
    for (i, c) in cs.iter().enumerate() {
        let k = scalar_class(*c);
        let idx = CLASSES.iter().position(|x| *x == k).unwrap_or(19);
        if !seen[idx] {
            seen[idx] = true;
            bump(cov, &format!("cover:value:{pos}:{k}"));
        }
        if *c == '\u{0}' {
            let hex = cs.get(i + 1).map(|x| x.is_ascii_hexdigit()).unwrap_or(false);
            bump(
                cov,
                &format!("cover:value:{pos}:{}", if hex { "nul+hexdigit" } else { "nul+other-or-end" }),
            );
        }
    }
    if s.is_empty() {
        bump(cov, &format!("cover:value:{pos}:empty"));
    }
}

fn scan_value(v: &IDLValue, depth: usize, cov: &mut Cover, maxdepth: &mut usize) {
    if depth > *maxdepth {
        *maxdepth = depth;
    }
    let lab = |l: &Label, cov: &mut Cover| match l {
        Label::Named(n) => {
            scan_string(n, "label", cov);
            if LEXER_KEYWORDS.contains(&n.as_str()) || PRIM_NAMES.contains(&n.as_str()) {
                bump(cov, "cover:label:keyword");
            } else if is_plain_id(n) {
                bump(cov, "cover:label:identifier");
            } else {
                bump(cov, "cover:label:needs-quotes");
            }
        }
        _ => bump(cov, "cover:label:numeric"),
    };
    match v {
        IDLValue::Text(s) => scan_string(s, "text", cov),
        IDLValue::Func(_, m) => {
            scan_string(m, "method", cov);
            bump(cov, "cover:kind:func");
        }
        IDLValue::Opt(x) => {
            bump(
                cov,
                match **x {
                    IDLValue::Nat(_)
                    | IDLValue::Int(_)
                    | IDLValue::Nat8(_)
                    | IDLValue::Nat16(_)
                    | IDLValue::Nat32(_)
                    | IDLValue::Nat64(_)
                    | IDLValue::Int8(_)
                    | IDLValue::Int16(_)
                    | IDLValue::Int32(_)
                    | IDLValue::Int64(_)
                    | IDLValue::Float32(_)
                    | IDLValue::Float64(_) => "cover:kind:opt-of-annotated-number",
                    IDLValue::Null | IDLValue::Reserved | IDLValue::None => "cover:kind:opt-of-null-like",
                    _ => "cover:kind:opt",
                },
            );
            scan_value(x, depth + 1, cov, maxdepth)
        }
        IDLValue::Vec(xs) => {
            bump(
                cov,
                match xs.len() {
                    0 => "cover:vec-len:0",
                    1..=8 => "cover:vec-len:1-8",
                    9 => "cover:vec-len:9",
                    10 => "cover:vec-len:10",
                    11 => "cover:vec-len:11",
                    _ => "cover:vec-len:12+",
                },
            );
            for x in xs {
                scan_value(x, depth + 1, cov, maxdepth);
            }
        }
        IDLValue::Record(fs) => {
            bump(cov, "cover:kind:record");
            for f in fs {
                lab(&f.id, cov);
                scan_value(&f.val, depth + 1, cov, maxdepth);
            }
        }
        IDLValue::Variant(x) => {
            lab(&x.0.id, cov);
            if x.0.val == IDLValue::Null {
                bump(cov, "cover:kind:variant-null-payload");
            } else {
                bump(cov, "cover:kind:variant-with-payload");
            }
            scan_value(&x.0.val, depth + 1, cov, maxdepth);
        }
        IDLValue::Blob(b) => {
            bump(
                cov,
                if b.is_empty() {
                    "cover:kind:blob-empty"
                } else if b.iter().all(|c| (0x20..=0x7e).contains(c)) {
                    "cover:kind:blob-printable"
                } else {
                    "cover:kind:blob-binary"
                },
            );
        }
        IDLValue::Float64(f) => bump(cov, float_class(*f, "float64")),
        IDLValue::Float32(f) => bump(cov, float_class(*f as f64, "float32")),
        IDLValue::Nat(n) => bump(
            cov,
            if n.0.bits() > 64 {
                "cover:kind:nat>64bit"
            } else {
                "cover:kind:nat"
            },
        ),
        IDLValue::Int(n) => bump(
            cov,
            if n.0.bits() > 64 {
                "cover:kind:int>64bit"
            } else {
                "cover:kind:int"
            },
        ),
        IDLValue::Nat8(_) | IDLValue::Nat16(_) | IDLValue::Nat32(_) | IDLValue::Nat64(_) => {
            bump(cov, "cover:kind:natN")
        }
        IDLValue::Int8(_) | IDLValue::Int16(_) | IDLValue::Int32(_) | IDLValue::Int64(_) => {
            bump(cov, "cover:kind:intN")
        }
        IDLValue::Principal(_) => bump(cov, "cover:kind:principal"),
        IDLValue::Service(_) => bump(cov, "cover:kind:service"),
        IDLValue::Reserved => bump(cov, "cover:kind:reserved"),
        IDLValue::None => bump(cov, "cover:kind:none"),
        IDLValue::Null => bump(cov, "cover:kind:null"),
        IDLValue::Bool(_) => bump(cov, "cover:kind:bool"),
        IDLValue::Number(_) => {}
    }
}

fn float_class(f: f64, w: &str) -> &'static str {
    let s = if f == 0.0 && f.is_sign_negative() {
        "negative-zero"
    } else if f == 0.0 {
        "zero"
    } else if f.abs() < f64::MIN_POSITIVE || (w == "float32" && f.abs() < f32::MIN_POSITIVE as f64) {
        "subnormal"
    } else if f.abs() >= 1e21 {
        "huge"
    } else if f.trunc() == f {
        "integral"
    } else {
        "fractional"
    };
    match (w, s) {
        ("float64", "negative-zero") => "cover:kind:float64:negative-zero",
        ("float64", "zero") => "cover:kind:float64:zero",
        ("float64", "subnormal") => "cover:kind:float64:subnormal",
        ("float64", "huge") => "cover:kind:float64:huge",
        ("float64", "integral") => "cover:kind:float64:integral",
        ("float64", _) => "cover:kind:float64:fractional",
        (_, "negative-zero") => "cover:kind:float32:negative-zero",
        (_, "zero") => "cover:kind:float32:zero",
        (_, "subnormal") => "cover:kind:float32:subnormal",
        (_, "huge") => "cover:kind:float32:huge",
        (_, "integral") => "cover:kind:float32:integral",
        _ => "cover:kind:float32:fractional",
    }
}

struct Case<'a> {
    env: &'a REnv,
    names: &'a Names,
    cenv: &'a TypeEnv,
}

impl Case<'_> {
    fn fails(&self, t: &RType, v: &RValue, p: Printer) -> Option<Failure> {
        let iv = to_idl(self.env, t, v, Some(self.names)).ok()?;
        let ct = to_candid_type(t, Some(self.names));
        roundtrip_value(&iv, self.cenv, &ct, p, true).err()
    }
    /// Descend into the first failing child until none fails. When a value fails under `Display`
    /// although each child reads back under `Display`, the printer's abbreviation (more than 10
    /// elements / deeper than 10) has switched to the `Debug` form: continue with `Debug`.
    fn minimize(&self, t: &RType, v: &RValue, p: Printer) -> (RType, RValue, Printer) {
        let mut t = self.env.unfold(t).cloned().unwrap_or(t.clone());
        let mut v = v.clone();
        let mut p = p;
        loop {
            let mut kids: Vec<(RType, RValue)> = Vec::new();
            match (&t, &v) {
                (RType::Opt(it), RValue::Opt(iv)) => kids.push(((**it).clone(), (**iv).clone())),
                (RType::Vec(it), RValue::Vec(vs)) => {
                    for x in vs {
                        kids.push(((**it).clone(), x.clone()));
                    }
                }
                (RType::Record(fs), RValue::Record(vs)) => {
                    for ((_, ft), (_, fv)) in fs.iter().zip(vs.iter()) {
                        kids.push((ft.clone(), fv.clone()));
                    }
                }
                (RType::Variant(fs), RValue::Variant(id, pv)) => {
                    if let Some((_, ft)) = fs.iter().find(|f| f.0 == *id) {
                        kids.push((ft.clone(), (**pv).clone()));
                    }
                }
                _ => {}
            }
            let mut next = None;
            for (kt, kv) in &kids {
                if self.fails(kt, kv, p).is_some() {
                    next = Some((kt.clone(), kv.clone()));
                    break;
                }
            }
            if next.is_none() && p == Printer::Display {
                for (kt, kv) in &kids {
                    if self.fails(kt, kv, Printer::Debug).is_some() {
                        next = Some((kt.clone(), kv.clone()));
                        p = Printer::Debug;
                        break;
                    }
                }
            }
            match next {
                Some((kt, kv)) => {
                    t = self.env.unfold(&kt).cloned().unwrap_or(kt);
                    v = kv;
                }
                None => {
                    // a vector may fail as a whole: shrink its length as far as it still fails
                    if let (RType::Vec(it), RValue::Vec(vs)) = (&t, &v) {
                        if vs.len() > 1 {
                            let shorter = RValue::Vec(vs[..vs.len() - 1].to_vec());
                            if self.fails(&RType::Vec(it.clone()), &shorter, p).is_some() {
                                v = shorter;
                                continue;
                            }
                        }
                    }
                    return (t, v, p);
                }
            }
        }
    }
}

fn nul_follow(s: &str) -> &'static str {
    let cs: Vec<char> = s.chars().collect();
    let mut all_hex = true;
    for (i, c) in cs.iter().enumerate() {
        if *c == '\u{0}' && !cs.get(i + 1).map(|x| x.is_ascii_hexdigit()).unwrap_or(false) {
            all_hex = false;
        }
    }
    if all_hex {
        "followed-by-hexdigit"
    } else {
        "not-followed-by-hexdigit"
    }
}

fn needs_quotes(n: &str) -> bool {
    !is_plain_id(n) || LEXER_KEYWORDS.contains(&n)
}

/// Cause of a failure of a *minimal* failing value, from the features of that node alone.
/// `pn` names the printer path: display, debug, or display-abbreviated (Display that fell back to
/// the Debug form because of the element / depth limit).
fn classify(iv: &IDLValue, p: Printer, pn: &str, f: &Failure) -> String {
    let own_labels: Vec<&str> = match iv {
        IDLValue::Record(fs) => fs
            .iter()
            .filter_map(|x| if let Label::Named(n) = &x.id { Some(n.as_str()) } else { None })
            .collect(),
        IDLValue::Variant(x) => match &x.0.id {
            Label::Named(n) => vec![n.as_str()],
            _ => vec![],
        },
        _ => vec![],
    };
    match iv {
        IDLValue::Text(s) if s.contains('\u{0}') => {
            return format!("roundtrip|{pn}|nul-escape|text|{}", nul_follow(s));
        }
        IDLValue::Func(_, m) if m.contains('\u{0}') => {
            return format!("roundtrip|{pn}|nul-escape|method-name|{}", nul_follow(m));
        }
        IDLValue::Func(_, m) if m == "true" || m == "false" => {
            return format!("roundtrip|{pn}|bare-boolean-keyword|method-name");
        }
        _ => {}
    }
    if let Some(n) = own_labels.iter().find(|n| n.contains('\u{0}')) {
        return format!("roundtrip|{pn}|nul-escape|label|{}", nul_follow(n));
    }
    if own_labels.iter().any(|n| *n == "true" || *n == "false") {
        return format!("roundtrip|{pn}|bare-boolean-keyword|label");
    }
    if p == Printer::Debug {
        if let IDLValue::Variant(x) = iv {
            if x.0.val == IDLValue::Null {
                if let Label::Named(n) = &x.0.id {
                    if needs_quotes(n) {
                        return format!("roundtrip|{pn}|variant-null-payload|label-printed-unquoted");
                    }
                }
            }
        }
    }
    if let IDLValue::Record(fs) = iv {
        if f.stage == "parse-panic" && f.detail.contains("overflow") && fs.iter().any(|x| x.id.get_id() == u32::MAX) {
            return format!("roundtrip|{pn}|record-field-id-u32-max|parser-add-overflow");
        }
    }
    let kind = match iv {
        IDLValue::Text(_) => "text",
        IDLValue::Func(..) => "func",
        IDLValue::Record(_) => "record",
        IDLValue::Variant(_) => "variant",
        IDLValue::Vec(xs) if xs.len() > 10 => "vec>10",
        IDLValue::Vec(_) => "vec",
        IDLValue::Opt(_) => "opt",
        IDLValue::Blob(_) => "blob",
        IDLValue::Float32(_) => "float32",
        IDLValue::Float64(_) => "float64",
        IDLValue::Nat(_) | IDLValue::Int(_) => "bignum",
        IDLValue::Principal(_) | IDLValue::Service(_) => "reference",
        IDLValue::Null | IDLValue::None | IDLValue::Reserved => "null-like",
        _ => "fixed-width-number",
    };
    let detail = if f.stage == "value-mismatch" {
        diff_class(&f.detail)
    } else {
        f.detail.clone()
    };
    format!("{}|{pn}|{kind}|{detail}", f.stage)
}

struct Gen {
    env: REnv,
    types: Vec<RType>,
    values: Vec<RValue>,
    names: Names,
}

fn gen_case(rng: &mut Rng, cfg: &TypeCfg, nargs: usize, fuel: i64, max_len: usize) -> Gen {
    let env0 = gen_env(rng, cfg);
    let cand0 = gen_types(rng, cfg, &env0, nargs);
    let mut names = Names::new();
    let pct = *rng.pick(&[0u64, 30, 60, 100]);
    let env = REnv(env0.0.iter().map(|t| rename_fields(rng, t, &mut names, pct)).collect());
    let cand: Vec<RType> = cand0.iter().map(|t| rename_fields(rng, t, &mut names, pct)).collect();
    // spell pool ids by their pool names too
    for (k, v) in super::common::gen_names(rng, &env, &cand) {
        names.entry(k).or_insert(v);
    }
    let mut vg = ValGen::new(&env);
    vg.max_len = max_len;
    let mut fuel = fuel;
    let mut types = Vec::new();
    let mut values = Vec::new();
    for t in cand {
        if let Some(v) = vg.gen(rng, &t, &mut fuel) {
            types.push(t);
            values.push(v);
        }
    }
    Gen {
        env,
        types,
        values,
        names,
    }
}

fn run_case(ctx: &mut Ctx, rng: &mut Rng, g: Gen, family: &str, cov: &mut Cover) {
    if !names_consistent(&g.names) {
        ctx.count("excluded:names-inconsistent");
        return;
    }
    let mut ivs = Vec::new();
    for (t, v) in g.types.iter().zip(g.values.iter()) {
        match to_idl(&g.env, t, v, Some(&g.names)) {
            Ok(x) => ivs.push(x),
            Err(_) => {
                ctx.count("excluded:to_idl");
                return;
            }
        }
    }
    let args = IDLArgs { args: ivs };
    let cenv = to_candid_env(&g.env, Some(&g.names));
    let cts: Vec<Type> = g.types.iter().map(|t| to_candid_type(t, Some(&g.names))).collect();
    let mut maxdepth = 0;
    for v in &args.args {
        scan_value(v, 1, cov, &mut maxdepth);
    }
    bump(
        cov,
        match maxdepth {
            0..=5 => "cover:depth:<=5",
            6..=10 => "cover:depth:6-10",
            11 => "cover:depth:11",
            _ => "cover:depth:12+",
        },
    );
    bump(cov, &format!("cover:nargs:{}", args.args.len().min(3)));
    let case = Case {
        env: &g.env,
        names: &g.names,
        cenv: &cenv,
    };
    let names_json = || g.names.iter().map(|(k, v)| format!("{k}={v:?}")).collect::<Vec<_>>();
    let input = |text: &str| {
        json!({
            "family": family,
            "env": g.env.to_string(),
            "types": g.types.iter().map(|t| t.to_string()).collect::<Vec<_>>(),
            "values": g.values.iter().map(|v| v.to_string()).collect::<Vec<_>>(),
            "names": names_json(),
            "printed": text,
        })
    };
    // Report the smallest failing sub-value of argument (t, v) under printer p. Returns false when
    // the argument reads back on its own.
    let attribute = |ctx: &mut Ctx, cov: &mut Cover, t: &RType, v: &RValue, p: Printer, whole: &str, prefix: &str| -> bool {
        if case.fails(t, v, p).is_none() {
            return false;
        }
        let (mt, mv, mp) = case.minimize(t, v, p);
        let (Some(mf), Ok(miv)) = (case.fails(&mt, &mv, mp), to_idl(&g.env, &mt, &mv, Some(&g.names))) else {
            return false;
        };
        let pn = if mp != p { "display-abbreviated" } else { p.name() };
        let sig = format!("{prefix}{}", classify(&miv, mp, pn, &mf));
        scan_printed(&mf.text, cov);
        ctx.violation(
            &sig,
            &format!(
                "{} of the value does not read back ({}: {}). Smallest failing sub-value: type `{}`, value {}, printed{} as {:?}",
                p.name(),
                mf.stage,
                mf.detail,
                to_candid_type(&mt, Some(&g.names)),
                mv,
                if mp != p { " (by the Debug form the Display printer falls back to beyond 10 elements / levels)" } else { "" },
                mf.text
            ),
            json!({
                "family": family,
                "env": g.env.to_string(),
                "type": mt.to_string(),
                "value": mv.to_string(),
                "names": names_json(),
                "printed": mf.text,
                "whole_printed": whole,
            }),
        );
        true
    };
    let mut all_ok = true;
    for p in [Printer::Display, Printer::Debug] {
        match roundtrip_args(&args, &cenv, &cts, p) {
            Ok(text) => {
                scan_printed(&text, cov);
                bump(cov, if p == Printer::Display { "agree:display-args" } else { "agree:debug-args" });
            }
            Err(f) => {
                all_ok = false;
                let mut attributed = false;
                for (t, v) in g.types.iter().zip(g.values.iter()) {
                    if attribute(ctx, cov, t, v, p, &f.text, "") {
                        attributed = true;
                        break;
                    }
                }
                if !attributed {
                    // every argument reads back alone: the argument-list printer is at fault
                    let sig = if args.args.is_empty() {
                        format!("args-only|{}|empty-argument-list|{}", p.name(), f.stage)
                    } else {
                        let detail = if f.stage == "value-mismatch" { diff_class(&f.detail) } else { f.detail.clone() };
                        format!("args-only|{}|{}|{}", p.name(), f.stage, detail)
                    };
                    ctx.violation(
                        &sig,
                        &format!(
                            "{} of the argument list does not read back ({}: {}), printed as {:?}",
                            p.name(),
                            f.stage,
                            f.detail,
                            f.text
                        ),
                        input(&f.text),
                    );
                }
            }
        }
    }
    // the single-value printers and parse_idl_value on one argument
    if !args.args.is_empty() {
        let k = rng.usize(args.args.len());
        for p in [Printer::Display, Printer::Debug] {
            let annotated = top_level_annotated(&args.args[k]);
            let mut r = roundtrip_value(&args.args[k], &cenv, &cts[k], p, false);
            if annotated && matches!(&r, Err(f) if f.stage == "parse-fail") {
                // `5 : nat8` is not an `Arg`; this grammar limit is not part of the property
                bump(cov, "observed:parse_idl_value-rejects-top-level-annotation");
                r = roundtrip_value(&args.args[k], &cenv, &cts[k], p, true);
            }
            match r {
                Ok(_) => bump(cov, if p == Printer::Display { "agree:display-value" } else { "agree:debug-value" }),
                Err(f) => {
                    if all_ok && !attribute(ctx, cov, &g.types[k], &g.values[k], p, &f.text, "value-only|") {
                        let detail = if f.stage == "value-mismatch" { diff_class(&f.detail) } else { f.detail.clone() };
                        ctx.violation(
                            &format!("value-only|unwrapped|{}|{}|{}", p.name(), f.stage, detail),
                            &format!(
                                "parse_idl_value fails on the printed value although `(text)` reads back ({}: {}), printed {:?}",
                                f.stage, f.detail, f.text
                            ),
                            input(&f.text),
                        );
                    }
                }
            }
        }
    }
    let shape: Vec<String> = g.types.iter().map(|t| super::common::shape(&g.env, t, 5)).collect();
    let vshape: Vec<usize> = g.values.iter().map(|v| v.node_count()).collect();
    ctx.nontrivial(hash_str(&format!("{shape:?}|{vshape:?}|{}", g.names.len())));
    ctx.sample(|| input(&format!("{args}")));
}

fn threshold_case(rng: &mut Rng) -> Gen {
    // vec of exactly 8..12 elements of a random small type
    let cfg = TypeCfg {
        max_defs: 0,
        max_depth: 2,
        max_fields: 3,
        refs: true,
        empty: false,
        ref_pct: 0,
    };
    let env0 = REnv::new();
    let mut elem;
    loop {
        elem = gen_types(rng, &cfg, &env0, 1).pop().unwrap();
        if ValGen::new(&env0).inhabited(&elem) {
            break;
        }
    }
    let mut names = Names::new();
    let elem = rename_fields(rng, &elem, &mut names, 50);
    let n = *rng.pick(&[8usize, 9, 9, 10, 10, 10, 11, 11, 11, 12, 20]);
    let vg = ValGen::new(&env0);
    let mut vs = Vec::new();
    for _ in 0..n {
        let mut fuel = 6;
        if let Some(v) = vg.gen(rng, &elem, &mut fuel) {
            vs.push(v);
        }
    }
    let mut t = RType::vec(elem);
    let mut v = RValue::Vec(vs);
    // sometimes below a few more constructors so the abbreviation happens at depth
    for _ in 0..rng.usize(3) {
        match rng.below(3) {
            0 => {
                t = RType::opt(t);
                v = RValue::opt(v);
            }
            1 => {
                t = RType::Record(vec![(7, t)]);
                v = RValue::Record(vec![(7, v)]);
            }
            _ => {
                t = RType::Variant(vec![(3, t)]);
                v = RValue::Variant(3, Box::new(v));
            }
        }
    }
    Gen {
        env: env0,
        types: vec![t],
        values: vec![v],
        names,
    }
}

fn deep_case(rng: &mut Rng) -> Gen {
    let depth = *rng.pick(&[9usize, 10, 11, 12, 13, 15, 20, 30, 40]);
    // build type and value together so the nesting is really present in the value
    let leaf_t = rng
        .pick(&[RType::Nat, RType::Null, RType::Text, RType::Bool, RType::Reserved, RType::Int8, RType::Float64])
        .clone();
    let env = REnv::new();
    let vg = ValGen::new(&env);
    let mut fuel = 5;
    let mut v = vg.gen(rng, &leaf_t, &mut fuel).unwrap_or(RValue::Null);
    let mut t = leaf_t;
    let mut names = Names::new();
    for _ in 0..depth {
        match rng.below(5) {
            0 => {
                t = RType::opt(t);
                v = RValue::opt(v);
            }
            1 => {
                let n = if rng.chance(1, 4) { 2 } else { 1 };
                t = RType::vec(t);
                v = RValue::Vec(vec![v; n]);
            }
            2 => {
                let id = rng.below(3) as u32;
                t = RType::Record(vec![(id, t)]);
                v = RValue::Record(vec![(id, v)]);
            }
            3 => {
                let n = gen_label(rng);
                let id = crate::model::misc::label_hash(&n);
                if names.get(&id).map(|x| x == &n).unwrap_or(true) {
                    names.insert(id, n);
                }
                t = RType::Record(vec![(id, t)]);
                v = RValue::Record(vec![(id, v)]);
            }
            _ => {
                let id = rng.below(3) as u32;
                t = RType::Variant(vec![(id, t)]);
                v = RValue::Variant(id, Box::new(v));
            }
        }
    }
    Gen {
        env,
        types: vec![t],
        values: vec![v],
        names,
    }
}

/// One hostile string in every position that carries text: text value, field name, variant label,
/// method name; with the other parts plain.
fn string_case(rng: &mut Rng) -> Gen {
    let s = match rng.below(4) {
        0 => gen_text(rng),
        1 => gen_label(rng),
        2 => {
            // every scalar class, uniformly over the code space
            let n = 1 + rng.usize(3);
            (0..n)
                .map(|_| loop {
                    if let Some(c) = char::from_u32(rng.below(0x110000) as u32) {
                        break c;
                    }
                })
                .collect()
        }
        _ => {
            // a single interesting scalar between plain neighbours
            let c = gen_char(rng);
            let pre = *rng.pick(&["", "a", "1", "f", "\\", "\""]);
            let post = *rng.pick(&["", "a", "1", "f", "g", "0", "}", "\""]);
            format!("{pre}{c}{post}")
        }
    };
    let id = crate::model::misc::label_hash(&s);
    let mut names = Names::new();
    names.insert(id, s.clone());
    let payload_t = rng.pick(&[RType::Null, RType::Nat, RType::Text, RType::opt(RType::Nat8)]).clone();
    let payload_v = match &payload_t {
        RType::Null => RValue::Null,
        RType::Nat => RValue::nat(rng.below(1000)),
        RType::Text => RValue::Text(s.clone()),
        _ => RValue::opt(RValue::Nat8(rng.next() as u8)),
    };
    let (t, v) = match rng.below(5) {
        0 => (RType::Text, RValue::Text(s)),
        1 => (RType::Record(vec![(id, payload_t)]), RValue::Record(vec![(id, payload_v)])),
        2 => (RType::Variant(vec![(id, payload_t)]), RValue::Variant(id, Box::new(payload_v))),
        3 => (
            RType::func(vec![], vec![], vec![]),
            RValue::Func(gen_principal(rng), s),
        ),
        _ => (
            RType::vec(RType::Text),
            RValue::Vec(vec![RValue::Text(s.clone()), RValue::Text(String::new()), RValue::Text(s)]),
        ),
    };
    Gen {
        env: REnv::new(),
        types: vec![t],
        values: vec![v],
        names,
    }
}

fn number_case(rng: &mut Rng) -> Gen {
    let t = rng
        .pick(&[
            RType::Nat,
            RType::Int,
            RType::Nat8,
            RType::Nat16,
            RType::Nat32,
            RType::Nat64,
            RType::Int8,
            RType::Int16,
            RType::Int32,
            RType::Int64,
            RType::Float32,
            RType::Float64,
            RType::Float64,
            RType::Float32,
        ])
        .clone();
    let env = REnv::new();
    let vg = ValGen::new(&env);
    let mut fuel = 10;
    let v = match &t {
        RType::Float64 if rng.bool() => {
            // uniform over finite bit patterns, powers of ten, and neighbours of integers
            let f = match rng.below(4) {
                0 => loop {
                    let f = f64::from_bits(rng.next());
                    if f.is_finite() {
                        break f;
                    }
                },
                1 => 10f64.powi(rng.range(0, 616) as i32 - 308),
                2 => f64::from_bits((rng.below(1 << 54) as f64).to_bits() + rng.below(3)),
                _ => -f64::from_bits(rng.below(4)),
            };
            RValue::Float64(if f.is_finite() { f } else { 0.0 }.to_bits())
        }
        RType::Float32 if rng.bool() => {
            let f = match rng.below(3) {
                0 => loop {
                    let f = f32::from_bits(rng.next() as u32);
                    if f.is_finite() {
                        break f;
                    }
                },
                1 => 10f32.powi(rng.range(0, 82) as i32 - 44),
                _ => -f32::from_bits(rng.below(4) as u32),
            };
            RValue::Float32(if f.is_finite() { f } else { 0.0 }.to_bits())
        }
        _ => vg.gen(rng, &t, &mut fuel).unwrap(),
    };
    // plain, under opt, in a record field, or as a vector element
    let (t, v) = match rng.below(5) {
        0 => (RType::opt(t), RValue::opt(v)),
        1 => (RType::Record(vec![(1, t)]), RValue::Record(vec![(1, v)])),
        2 => (RType::vec(t), RValue::Vec(vec![v.clone(), v])),
        3 => (RType::Variant(vec![(0, t)]), RValue::Variant(0, Box::new(v))),
        _ => (t, v),
    };
    Gen {
        env,
        types: vec![t],
        values: vec![v],
        names: Names::new(),
    }
}

fn blob_case(rng: &mut Rng) -> Gen {
    let n = match rng.below(6) {
        0 => 0,
        1 => 1,
        2 => 256,
        _ => rng.usize(24),
    };
    let b: Vec<u8> = match rng.below(5) {
        0 => (0..n).map(|i| i as u8).collect(),
        1 => (0..n).map(|_| 0x20 + rng.below(0x5f) as u8).collect(),
        2 => (0..n)
            .map(|_| *rng.pick(&[0u8, 9, 10, 13, 0x22, 0x27, 0x5c, 0x60, 0x7f, 0x80, 0xff, b'a', b'0']))
            .collect(),
        3 => gen_text(rng).into_bytes(),
        _ => rng.bytes(n),
    };
    let t = RType::vec(RType::Nat8);
    let v = RValue::blob(&b);
    let (t, v) = match rng.below(3) {
        0 => (RType::opt(t), RValue::opt(v)),
        1 => (RType::Record(vec![(0, t.clone()), (1, t)]), RValue::Record(vec![(0, v.clone()), (1, v)])),
        _ => (t, v),
    };
    Gen {
        env: REnv::new(),
        types: vec![t],
        values: vec![v],
        names: Names::new(),
    }
}

pub fn run(ctx: &mut Ctx) {
    ctx.max_violations = 80;
    let mut cov = Cover::new();
    let cfg = TypeCfg::default();
    let small = TypeCfg {
        max_defs: 2,
        max_depth: 3,
        max_fields: 3,
        refs: true,
        empty: true,
        ref_pct: 15,
    };
    ctx.cases("random-typed-values", 0.3, |ctx, rng| {
        let nargs = rng.usize(4);
        let max_len = *rng.pick(&[3usize, 4, 4, 5]);
        let c = if rng.bool() { &cfg } else { &small };
        let fuel = if ctx.thorough() { 90 } else { 40 };
        let g = gen_case(rng, c, nargs, fuel, max_len);
        run_case(ctx, rng, g, "random-typed-values", &mut cov);
    });
    ctx.cases("hostile-strings", 0.3, |ctx, rng| {
        let g = string_case(rng);
        run_case(ctx, rng, g, "hostile-strings", &mut cov);
    });
    ctx.cases("numbers", 0.12, |ctx, rng| {
        let g = number_case(rng);
        run_case(ctx, rng, g, "numbers", &mut cov);
    });
    ctx.cases("blobs", 0.08, |ctx, rng| {
        let g = blob_case(rng);
        run_case(ctx, rng, g, "blobs", &mut cov);
    });
    ctx.cases("vec-threshold", 0.1, |ctx, rng| {
        let g = threshold_case(rng);
        run_case(ctx, rng, g, "vec-threshold", &mut cov);
    });
    ctx.cases("deep-nesting", 0.1, |ctx, rng| {
        let g = deep_case(rng);
        run_case(ctx, rng, g, "deep-nesting", &mut cov);
    });
    for (k, v) in cov {
        ctx.count_n(&k, v);
    }
}
