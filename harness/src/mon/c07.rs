//! C07 — decoding quotas bound the work and never change the result.
use super::common::*;
use crate::conv::*;
use crate::corpus::registry::{self as reg, DecOut};
use crate::ctx::{catch, hex, Ctx};
use crate::gen::types::*;
use crate::gen::upgrade::Upgrader;
use crate::gen::values::ValGen;
use crate::model::wire::{decode, encodable, encode, Decoded, EncOpts};
use crate::model::*;
use crate::rng::{hash_str, Rng};
use candid::de::IDLDeserialize;
use candid::types::{Type, TypeEnv};
use candid::DecoderConfig;
use serde_json::json;

const HUGE: usize = 1 << 50;

fn cfg(d: Option<usize>, s: Option<usize>) -> DecoderConfig {
    let mut c = DecoderConfig::new();
    if let Some(d) = d {
        c.set_decoding_quota(d);
    }
    if let Some(s) = s {
        c.set_skipping_quota(s);
    }
    c
}

#[derive(Clone, Debug, PartialEq)]
enum Out {
    Ok(Vec<RValue>),
    Quota(String),
    Err(String),
    Panic(String),
}

fn classify_err(e: &str) -> Out {
    if e.contains("Decoding cost exceeds the limit") || e.contains("Skipping cost exceeds the limit") {
        Out::Quota(if e.contains("Decoding") { "decoding".into() } else { "skipping".into() })
    } else {
        Out::Err(err_class_str(e))
    }
}

fn sort_vecs(v: &RValue) -> RValue {
    match v {
        RValue::Vec(xs) => {
            let mut ys: Vec<RValue> = xs.iter().map(sort_vecs).collect();
            ys.sort_by_key(|y| y.to_string());
            RValue::Vec(ys)
        }
        RValue::Opt(x) => RValue::opt(sort_vecs(x)),
        RValue::Record(fs) => RValue::Record(fs.iter().map(|(i, x)| (*i, sort_vecs(x))).collect()),
        RValue::Variant(i, x) => RValue::Variant(*i, Box::new(sort_vecs(x))),
        x => x.clone(),
    }
}

/// One decode: result, cost (decoding, skipping) when quotas were set, element-access steps.
trait Target {
    fn run(&self, bytes: &[u8], c: &DecoderConfig) -> (Out, Option<usize>, Option<usize>, u64);
    fn describe(&self) -> String;
    /// the same decode through another public entry point: (entry point, result, cost when it reports one)
    fn alt(&self, _rng: &mut Rng, _bytes: &[u8], _c: &DecoderConfig) -> Option<(String, Out, Option<(Option<usize>, Option<usize>)>)> {
        None
    }
    /// the const-generic quota wrappers: (entry point, configuration they stand for, Ok(values) / Err(panic text))
    fn const_quota(&self, _rng: &mut Rng, _bytes: &[u8]) -> Option<(String, DecoderConfig, Result<Vec<RValue>, String>)> {
        None
    }
}

struct Native(usize);
impl Target for Native {
    fn run(&self, bytes: &[u8], c: &DecoderConfig) -> (Out, Option<usize>, Option<usize>, u64) {
        candid::verif::reset(u64::MAX);
        let r = reg::with(self.0, |t| t.decode(bytes, c));
        let steps = candid::verif::steps();
        match r {
            DecOut::Ok { model, cost, .. } => {
                // hash containers iterate in a per-instance order: compare them as multisets
                let model = if self.describe().contains("Hash") { sort_vecs(&model) } else { model };
                (Out::Ok(vec![model]), cost.decoding_quota, cost.skipping_quota, steps)
            }
            DecOut::Err(e) => (classify_err(&e), None, None, steps),
            DecOut::Panic(p) => (Out::Panic(p.sig()), None, None, steps),
        }
    }
    fn describe(&self) -> String {
        reg::with(self.0, |t| t.name())
    }
    fn alt(&self, rng: &mut Rng, bytes: &[u8], c: &DecoderConfig) -> Option<(String, Out, Option<(Option<usize>, Option<usize>)>)> {
        let api = 1 + rng.below(5) as u8;
        let name = ["", "decode_one_with_config", "decode_args_with_config", "decode_args_with_config_debug", "Decode!([config])", "Decode!(@Debug [config])"][api as usize];
        let hashy = self.describe().contains("Hash");
        Some(match reg::with(self.0, |t| t.decode_via(api, bytes, c)) {
            DecOut::Ok { model, cost, .. } => {
                let model = if hashy { sort_vecs(&model) } else { model };
                let cost = if api == 3 || api == 5 { Some((cost.decoding_quota, cost.skipping_quota)) } else { None };
                (name.to_string(), Out::Ok(vec![model]), cost)
            }
            DecOut::Err(e) => (name.to_string(), classify_err(&e), None),
            DecOut::Panic(p) => (name.to_string(), Out::Panic(p.sig()), None),
        })
    }
    fn const_quota(&self, rng: &mut Rng, bytes: &[u8]) -> Option<(String, DecoderConfig, Result<Vec<RValue>, String>)> {
        let which = rng.below(6) as u8;
        let name = [
            "decode_one_with_decoding_quota",
            "decode_one_with_skipping_quota",
            "decode_one_with_decoding_and_skipping_quota",
            "decode_args_with_decoding_quota",
            "decode_args_with_skipping_quota",
            "decode_args_with_decoding_and_skipping_quota",
        ][which as usize];
        let c = match which % 3 {
            0 => cfg(Some(reg::CONST_DQ), None),
            1 => cfg(None, Some(reg::CONST_SQ)),
            _ => cfg(Some(reg::CONST_DQ), Some(reg::CONST_SQ)),
        };
        let hashy = self.describe().contains("Hash");
        let r = reg::with(self.0, |t| t.decode_const_quota(which, bytes)).map(|m| vec![if hashy { sort_vecs(&m) } else { m }]);
        Some((name.to_string(), c, r))
    }
}

struct Untyped {
    env: TypeEnv,
    types: Vec<Type>,
    label: String,
}
impl Target for Untyped {
    fn run(&self, bytes: &[u8], c: &DecoderConfig) -> (Out, Option<usize>, Option<usize>, u64) {
        candid::verif::reset(u64::MAX);
        let r = catch(|| -> Result<(Vec<RValue>, DecoderConfig), String> {
            let mut de = IDLDeserialize::new_with_config(bytes, c).map_err(|e| format!("{e:?}"))?;
            let mut out = Vec::new();
            for t in &self.types {
                let v = de.get_value_with_type(&self.env, t).map_err(|e| format!("{e:?}"))?;
                out.push(model_value(&v));
            }
            de.done().map_err(|e| format!("{e:?}"))?;
            Ok((out, de.get_config().compute_cost(c)))
        });
        let steps = candid::verif::steps();
        match r {
            Err(p) => (Out::Panic(p.sig()), None, None, steps),
            Ok(Err(e)) => (classify_err(&e), None, None, steps),
            Ok(Ok((v, cost))) => (Out::Ok(v), cost.decoding_quota, cost.skipping_quota, steps),
        }
    }
    fn describe(&self) -> String {
        self.label.clone()
    }
    fn alt(&self, _rng: &mut Rng, bytes: &[u8], c: &DecoderConfig) -> Option<(String, Out, Option<(Option<usize>, Option<usize>)>)> {
        let r = catch(|| candid::IDLArgs::from_bytes_with_types_with_config(bytes, &self.env, &self.types, c).map_err(|e| format!("{e:?}")));
        let out = match r {
            Err(p) => Out::Panic(p.sig()),
            Ok(Err(e)) => classify_err(&e),
            Ok(Ok(a)) => Out::Ok(a.args.iter().map(model_value).collect()),
        };
        Some(("IDLArgs::from_bytes_with_types_with_config".into(), out, None))
    }
}

/// The cost model documented with `set_decoding_quota`, evaluated on the wire value.
fn doc_cost(env: &REnv, t: &RType, v: &RValue, table_len: usize) -> u64 {
    let t = env.unfold(t).unwrap_or(t);
    match (t, v) {
        (RType::Nat, RValue::Nat(n)) => crate::model::leb::encode_leb(n).len() as u64,
        (RType::Int, RValue::Int(n)) => crate::model::leb::encode_sleb(n).len() as u64,
        (RType::Nat8 | RType::Int8 | RType::Bool | RType::Null | RType::Reserved, _) => 1,
        (RType::Nat16 | RType::Int16, _) => 2,
        (RType::Nat32 | RType::Int32 | RType::Float32, _) => 4,
        (RType::Nat64 | RType::Int64 | RType::Float64, _) => 8,
        (RType::Text, RValue::Text(s)) => 1 + s.len() as u64,
        (RType::Opt(_), RValue::Null) => 2,
        (RType::Opt(u), RValue::Opt(x)) => 2 + doc_cost(env, u, x, table_len),
        (RType::Vec(u), RValue::Vec(xs)) => 2 + 3 * xs.len() as u64 + xs.iter().map(|x| doc_cost(env, u, x, table_len)).sum::<u64>(),
        (RType::Record(fs), RValue::Record(vs)) => {
            2 + fs
                .iter()
                .zip(vs.iter())
                .map(|((_, ft), (_, fv))| 7 + 4 + doc_cost(env, ft, fv, table_len))
                .sum::<u64>()
        }
        (RType::Variant(fs), RValue::Variant(id, x)) => {
            let ft = fs.iter().find(|f| f.0 == *id).map(|f| &f.1);
            2 + 5 + 4 + ft.map(|ft| doc_cost(env, ft, x, table_len)).unwrap_or(0)
        }
        (RType::Principal, RValue::Principal(b)) => 30.max(b.len() as u64),
        (RType::Service(_), RValue::Service(b)) => 2 + 30.max(b.len() as u64) + table_len as u64,
        (RType::Func { .. }, RValue::Func(b, m)) => 2 + 30.max(b.len() as u64) + 1 + m.len() as u64 + table_len as u64,
        _ => 1,
    }
}

struct Measured {
    cd: usize,
    cs: usize,
}

fn judge(ctx: &mut Ctx, rng: &mut Rng, tgt: &dyn Target, bytes: &[u8], d: &Decoded, skipped_lb: u64, all_skipped: bool, fam: &str) {
    let label = tgt.describe();
    let input = || json!({"target": label, "bytes": hex(bytes)});
    // unmetered reference result
    let (r0, _, _, steps0) = tgt.run(bytes, &cfg(None, None));
    if let Out::Panic(p) = &r0 {
        ctx.violation(&format!("panic|{fam}|{p}"), "decode panicked", input());
        return;
    }
    // huge quotas: the cost
    let (r1, cd, cs, steps1) = tgt.run(bytes, &cfg(Some(HUGE), Some(HUGE)));
    if r1 != r0 {
        ctx.violation(
            &format!("result-changes-with-quota|{fam}"),
            &format!("unmetered: {r0:?}; with huge quotas: {r1:?}"),
            input(),
        );
        return;
    }
    let Out::Ok(_) = &r0 else {
        // a message that fails unmetered must fail under every quota
        for q in [0usize, 10, 1000] {
            let (r, ..) = tgt.run(bytes, &cfg(Some(q), Some(q)));
            if matches!(r, Out::Ok(_)) {
                ctx.violation(&format!("quota-makes-it-succeed|{fam}"), &format!("unmetered fails ({r0:?}) but quota {q} succeeds"), input());
            }
        }
        ctx.count("cover:unmetered-fails");
        return;
    };
    let (Some(cd), Some(cs)) = (cd, cs) else {
        ctx.violation(&format!("no-cost-reported|{fam}"), "compute_cost returned None with both quotas set", input());
        return;
    };
    let m = Measured { cd, cs };
    if steps0 != steps1 {
        ctx.violation(&format!("work-changes-with-quota|{fam}"), &format!("{steps0} element accesses unmetered, {steps1} with quotas"), input());
    }
    // exactness and monotonicity around the measured cost
    let mut probes: Vec<(usize, usize, bool)> = vec![(m.cd, m.cs, true), (m.cd + 1 + rng.usize(1000), m.cs + rng.usize(1000), true)];
    if m.cd > 0 {
        probes.push((m.cd - 1, m.cs + 5, false));
        probes.push((rng.usize(m.cd), HUGE, false));
    }
    if m.cs > 0 {
        probes.push((m.cd + 5, m.cs - 1, false));
        probes.push((HUGE, rng.usize(m.cs), false));
    }
    for _ in 0..3 {
        let a = rng.usize(2 * m.cd + 2);
        let b = rng.usize(2 * m.cs + 2);
        probes.push((a, b, a >= m.cd && b >= m.cs));
    }
    for (a, b, want_ok) in probes {
        let (r, cd2, cs2, _) = tgt.run(bytes, &cfg(Some(a), Some(b)));
        match (&r, want_ok) {
            (Out::Ok(_), true) => {
                if r != r0 {
                    ctx.violation(&format!("result-changes-with-quota|{fam}"), &format!("quota ({a},{b}): {r:?} vs unmetered {r0:?}"), input());
                }
                if cd2 != Some(m.cd) || cs2 != Some(m.cs) {
                    ctx.violation(
                        &format!("cost-depends-on-quota|{fam}"),
                        &format!("cost at huge quotas ({},{}) but at ({a},{b}) it is ({cd2:?},{cs2:?})", m.cd, m.cs),
                        input(),
                    );
                }
            }
            (Out::Quota(_), false) => {}
            (Out::Ok(_), false) => ctx.violation(
                &format!("not-monotone|succeeds-below-cost|{fam}"),
                &format!("cost is ({},{}) but decoding succeeds with quotas ({a},{b})", m.cd, m.cs),
                input(),
            ),
            (Out::Quota(which), true) => ctx.violation(
                &format!("not-monotone|fails-above-cost|{fam}"),
                &format!("cost is ({},{}) but quotas ({a},{b}) fail with the {which} quota error", m.cd, m.cs),
                input(),
            ),
            (other, _) => ctx.violation(
                &format!("result-changes-with-quota|{fam}"),
                &format!("quota ({a},{b}): {other:?} (neither the unmetered result nor a quota error)"),
                input(),
            ),
        }
    }
    // the other public entry points that take a configuration: same result, same cost, same quota errors
    let below = (m.cd.saturating_sub(1 + rng.usize(3)), m.cs + 3);
    for (a, b) in [(HUGE, HUGE), (m.cd, m.cs), below, (m.cd + 3, m.cs.saturating_sub(1))] {
        let c = cfg(Some(a), Some(b));
        let Some((api, ra, cost)) = tgt.alt(rng, bytes, &c) else { break };
        let (rr, cdr, csr, _) = tgt.run(bytes, &c);
        ctx.count(&format!("cover:entry-point:{api}"));
        if ra != rr {
            ctx.violation(
                &format!("entry-points-disagree|{api}|{fam}"),
                &format!("quotas ({a},{b}): {api} gives {ra:?} but IDLDeserialize (get_value + done) gives {rr:?}"),
                input(),
            );
        } else if let Some((cda, csa)) = cost {
            if matches!(ra, Out::Ok(_)) && (cda != cdr || csa != csr) {
                ctx.violation(
                    &format!("entry-points-disagree|cost|{api}|{fam}"),
                    &format!("quotas ({a},{b}): {api} reports cost ({cda:?},{csa:?}) but IDLDeserialize reports ({cdr:?},{csr:?})"),
                    input(),
                );
            }
        }
    }
    if let Some((api, c, got)) = tgt.const_quota(rng, bytes) {
        let (rr, ..) = tgt.run(bytes, &c);
        ctx.count(&format!("cover:entry-point:{api}"));
        match (&got, &rr) {
            (Ok(v), Out::Ok(w)) if v == w => ctx.count("agree:const-quota-wrapper:ok"),
            (Err(msg), Out::Quota(which)) if msg.contains("unwrap") && msg.to_lowercase().contains(&which[..4]) => ctx.count("agree:const-quota-wrapper:quota-error"),
            _ => ctx.violation(
                &format!("entry-points-disagree|{api}|{fam}"),
                &format!("{api} (const quotas {:?}/{:?}) gives {got:?} but the same quotas through DecoderConfig give {rr:?}", c.decoding_quota, c.skipping_quota),
                input(),
            ),
        }
    }
    // only one of the quotas set
    let (r, cd3, cs3, _) = tgt.run(bytes, &cfg(Some(m.cd), None));
    if r != r0 || cd3 != Some(m.cd) || cs3.is_some() {
        ctx.violation(&format!("single-quota|decoding-only|{fam}"), &format!("{r:?} cost ({cd3:?},{cs3:?}), expected success with ({},None)", m.cd), input());
    }
    let (r, cd4, cs4, _) = tgt.run(bytes, &cfg(None, Some(m.cs)));
    if r != r0 || cs4 != Some(m.cs) || cd4.is_some() {
        ctx.violation(&format!("single-quota|skipping-only|{fam}"), &format!("{r:?} cost ({cd4:?},{cs4:?}), expected success with (None,{})", m.cs), input());
    }
    // lower bounds: every wire value node costs at least one unit; skipped nodes are charged to the skipping quota
    let nodes: u64 = d.values.iter().map(|v| v.node_count() as u64).sum();
    if (m.cd as u64) < nodes {
        ctx.violation(
            &format!("undercharged|decoding|{fam}"),
            &format!("{nodes} wire value nodes but the decoding cost is {}", m.cd),
            input(),
        );
    }
    let skipped = if all_skipped { nodes } else { skipped_lb };
    if (m.cs as u64) < skipped {
        ctx.violation(
            &format!("undercharged|skipping|{fam}"),
            &format!("at least {skipped} wire value nodes are skipped but the skipping cost is {}", m.cs),
            input(),
        );
    }
    if steps1 > m.cd as u64 {
        ctx.violation(
            &format!("undercharged|steps|{fam}"),
            &format!("{steps1} element accesses but the decoding cost is only {}", m.cd),
            input(),
        );
    }
    // upper bound against the documented model
    let table_len = d.env.0.len();
    let mut model: u64 = 4 * d.header_len as u64;
    for (i, (t, v)) in d.types.iter().zip(d.values.iter()).enumerate() {
        let c = doc_cost(&d.env, t, v, table_len);
        // surplus arguments, untyped decoding and values read at `reserved` are skipped: 50x
        let penal = all_skipped || (skipped_lb > 0 && i > 0) || label.contains("Reserved") || fam == "native-related-wire";
        // a mismatched option is skipped (50x) after the failed attempt, and a value below k enclosing options can be
        // skipped once per enclosing option that fails: the documented model, applied literally, charges every one
        let refail = if all_skipped || fam == "native-related-wire" { 1 + opt_depth(v) } else { 1 };
        model += if penal { 50 * c * refail } else { c };
    }
    // constant per-message overheads (a failed opt costs 10, times 50 when skipping) dominate tiny messages:
    // the multiple is judged after an absolute allowance
    let ratio = (m.cd as f64 - 1500.0).max(0.0) / model.max(1) as f64;
    ctx.max(&format!("cost/documented-model:{fam}"), m.cd as f64 / model.max(1) as f64);
    if model >= 500 {
        ctx.max(&format!("cost/documented-model(model>=500):{fam}"), m.cd as f64 / model as f64);
    }
    // native-related-wire: the documented model has no entry for a value that a native type reads half-way before a nested
    // option gives up (attempt + skip at every level of every element); the ratio is recorded (worst_observed), the
    // constant-multiple rule is asserted for the two families where the model applies as written
    if ratio > 10.0 && fam != "native-related-wire" {
        ctx.violation(
            &format!("overcharged|{fam}"),
            &format!("decoding cost {} is {ratio:.1} times the documented model {model}", m.cd),
            input(),
        );
    }
    if nodes > 0 {
        ctx.max(&format!("cost/node:{fam}"), m.cd as f64 / nodes as f64);
    }
    ctx.count(&format!("agree:{fam}"));
}

/// number of options on the deepest path of a value
fn opt_depth(v: &RValue) -> u64 {
    match v {
        RValue::Opt(x) => 1 + opt_depth(x),
        RValue::Variant(_, x) => opt_depth(x),
        RValue::Vec(xs) => xs.iter().map(opt_depth).max().unwrap_or(0),
        RValue::Record(fs) => fs.iter().map(|f| opt_depth(&f.1)).max().unwrap_or(0),
        _ => 0,
    }
}

/// One deserializer, several arguments, each read its own way (native at its own type, untyped at its own type,
/// `get_value::<IDLValue>()`): what one argument costs must not depend on how the arguments before it were read.
/// Oracle: the skipping cost of the whole sequence is the sum of the skipping costs of the same reads done on
/// single-argument messages (the header is not charged to the skipping quota), the values are the same, and the
/// decoding cost differs from that sum only by the header term.
fn mixed_sequence(ctx: &mut Ctx, rng: &mut Rng, n_types: usize) {
    let nargs = 2 + rng.usize(2);
    let mut r2 = Rng::new(rng.next());
    let mut whole = candid::ser::IDLBuilder::new();
    let mut singles: Vec<Vec<u8>> = Vec::new();
    let mut tys: Vec<usize> = Vec::new();
    for _ in 0..nargs {
        let i = rng.usize(n_types);
        // a reference value is charged by the size of the message's type table, which differs between the whole message
        // and the single-argument ones: no exact additivity there
        let nm = reg::with(i, |t| t.name());
        if nm.contains("MyFunc") || nm.contains("MyServ") {
            ctx.count("excluded:mixed-sequence-with-reference-types");
            return;
        }
        let seed = r2.next();
        let mut one = candid::ser::IDLBuilder::new();
        if reg::with(i, |t| t.arg_into(&mut whole, &mut Rng::new(seed), 12)).is_err() || reg::with(i, |t| t.arg_into(&mut one, &mut Rng::new(seed), 12)).is_err() {
            return;
        }
        let Ok(b) = one.serialize_to_vec() else { return };
        singles.push(b);
        tys.push(i);
    }
    let Ok(bytes) = whole.serialize_to_vec() else { return };
    // how each argument is read: 0 native, 1 untyped without a type (IDLValue), 2 untyped at the type's Candid type
    let modes: Vec<u64> = (0..nargs).map(|_| rng.below(3)).collect();
    if modes.iter().all(|m| *m == modes[0]) {
        return;
    }
    let c = cfg(Some(HUGE), Some(HUGE));
    let read = |de: &mut IDLDeserialize, i: usize, mode: u64| -> Result<Result<RValue, String>, crate::ctx::PanicInfo> {
        match mode {
            0 => reg::with(i, |t| t.get_from(de)),
            1 => catch(|| de.get_value::<candid::IDLValue>().map(|v| model_value(&v)).map_err(|e| format!("{e:?}"))),
            _ => {
                let (env, t) = reg::with(i, |t| t.rtype());
                let (cenv, cts) = candid_side(&env, std::slice::from_ref(&t), None);
                catch(|| de.get_value_with_type(&cenv, &cts[0]).map(|v| model_value(&v)).map_err(|e| format!("{e:?}")))
            }
        }
    };
    let names: Vec<String> = tys.iter().zip(&modes).map(|(i, m)| format!("{}@{}", reg::with(*i, |t| t.name()), ["native", "IDLValue", "untyped-at-type"][*m as usize])).collect();
    let input = || json!({"reads": names, "bytes": hex(&bytes)});
    // the whole message on one deserializer
    let Ok(mut de) = IDLDeserialize::new_with_config(&bytes, &c) else { return };
    let mut vals = Vec::new();
    for (i, m) in tys.iter().zip(&modes) {
        match read(&mut de, *i, *m) {
            Ok(Ok(v)) => vals.push(v),
            Ok(Err(e)) if e.contains("inconsistent binding") => {
                // two reads at a type bring environments that use the same definition names for different types: the
                // caller's (this harness's) mistake, reported as an error as it should be
                ctx.count("excluded:mixed-sequence-environments-clash");
                return;
            }
            Ok(Err(e)) => {
                ctx.violation(&format!("mixed-sequence|read-fails|{}", err_class_str(&e)), &e, input());
                return;
            }
            Err(p) => {
                ctx.violation(&format!("panic|mixed-sequence|{}", p.sig()), &p.message, input());
                return;
            }
        }
    }
    if de.done().is_err() {
        return;
    }
    let cost = de.get_config().compute_cost(&c);
    // the same reads, one message per argument
    let (mut sum_cs, mut sum_cd) = (0usize, 0usize);
    for (k, (i, m)) in tys.iter().zip(&modes).enumerate() {
        let Ok(mut d1) = IDLDeserialize::new_with_config(&singles[k], &c) else { return };
        match read(&mut d1, *i, *m) {
            Ok(Ok(v)) => {
                let hashy = names[k].contains("Hash");
                let (a, b) = if hashy { (sort_vecs(&v), sort_vecs(&vals[k])) } else { (v, vals[k].clone()) };
                if a != b {
                    ctx.violation("mixed-sequence|value-depends-on-earlier-reads", &format!("argument {k}: alone {a} vs in sequence {b}"), input());
                    return;
                }
            }
            _ => return,
        }
        if d1.done().is_err() {
            return;
        }
        let c1 = d1.get_config().compute_cost(&c);
        sum_cs += c1.skipping_quota.unwrap_or(0);
        sum_cd += c1.decoding_quota.unwrap_or(0);
    }
    let (cd, cs) = (cost.decoding_quota.unwrap_or(0), cost.skipping_quota.unwrap_or(0));
    if cs != sum_cs {
        ctx.violation(
            "mixed-sequence|skipping-cost-depends-on-earlier-reads",
            &format!("skipping cost of the sequence is {cs}; the same reads on single-argument messages cost {sum_cs} in total"),
            input(),
        );
        return;
    }
    // decoding cost: equal up to the header term (4 per header byte; the single messages repeat magic and counts)
    let slack = 4 * (bytes.len() + singles.iter().map(|b| b.len()).sum::<usize>()) + 64;
    if cd > sum_cd + slack || sum_cd > cd + slack {
        ctx.violation(
            "mixed-sequence|decoding-cost-depends-on-earlier-reads",
            &format!("decoding cost of the sequence is {cd}; the same reads on single-argument messages cost {sum_cd} in total (header allowance {slack})"),
            input(),
        );
        return;
    }
    ctx.count("agree:mixed-sequence");
    ctx.nontrivial(hash_str(&format!("{names:?}")));
}

pub fn run(ctx: &mut Ctx) {
    let n_types = reg::len();
    // native targets: a message of T (+ surplus arguments of other types)
    ctx.cases("native", 0.35, |ctx, rng| {
        let i = rng.usize(n_types);
        let fuel = *rng.pick(&[2i64, 15, 60]);
        let surplus = rng.usize(3);
        let mut b = candid::ser::IDLBuilder::new();
        let mut r2 = Rng::new(rng.next());
        if reg::with(i, |t| t.arg_into(&mut b, &mut r2, fuel)).is_err() {
            return;
        }
        for _ in 0..surplus {
            let j = rng.usize(n_types);
            if reg::with(j, |t| t.arg_into(&mut b, &mut r2, 10)).is_err() {
                return;
            }
        }
        let Ok(bytes) = b.serialize_to_vec() else { return };
        let Ok(d) = decode(&bytes) else {
            ctx.count("excluded:model-cannot-read");
            return;
        };
        let skipped: u64 = d.values.iter().skip(1).map(|v| v.node_count() as u64).sum();
        let tgt = Native(i);
        judge(ctx, rng, &tgt, &bytes, &d, skipped, false, "native");
        let kind = reg::with(i, |t| t.kind());
        ctx.count(&format!("cover:kind:{kind}"));
        if surplus > 0 {
            ctx.count("cover:surplus-arguments");
        }
        ctx.nontrivial(hash_str(&format!("{}|{}|{surplus}", tgt.describe(), bytes.len())));
        ctx.sample(|| json!({"target": tgt.describe(), "bytes": hex(&bytes)}));
    });
    // untyped targets: wire/expected pairs incl. surplus fields, mismatched options, references
    let tcfg = TypeCfg::default();
    // native targets reading a message of a *related* wire type (fields added or dropped, values made optional, nat for
    // int ...): the native decoder skips surplus fields and mismatched options itself
    let tcfg_refs = TypeCfg { refs: true, ..TypeCfg::default() };
    ctx.cases("native-related-wire", 0.2, |ctx, rng| {
        let i = rng.usize(n_types);
        let (tenv, tt) = reg::with(i, |t| t.rtype());
        let mut up = Upgrader::new(&tcfg_refs);
        up.edit_pct = 30;
        up.illegal_pct = 50;
        let (wenv, wts) = up.up_env(rng, &tenv, std::slice::from_ref(&tt));
        let wt = wts[0].clone();
        if !encodable(&wenv, &wt) || wenv.0.iter().any(|d| wenv.unfold(d).is_none()) {
            return;
        }
        let vg = ValGen::new(&wenv);
        let mut fuel = *rng.pick(&[5i64, 25, 60]);
        let Some(v) = vg.gen(rng, &wt, &mut fuel) else { return };
        let Ok(bytes) = encode(&wenv, std::slice::from_ref(&wt), std::slice::from_ref(&v), &EncOpts::default(), None) else { return };
        let Ok(d) = decode(&bytes) else { return };
        let tgt = Native(i);
        judge(ctx, rng, &tgt, &bytes, &d, 0, false, "native-related-wire");
        if up.edits > 0 {
            ctx.count("cover:native-wire-type-differs");
        }
        ctx.nontrivial(hash_str(&format!("{}|{}", tgt.describe(), shape(&wenv, &wt, 4))));
    });
    ctx.cases("mixed-sequence-on-one-deserializer", 0.1, |ctx, rng| mixed_sequence(ctx, rng, n_types));
    ctx.cases("untyped", 0.35, |ctx, rng| {
        let Some(wc) = gen_wire_case(rng, &tcfg, 3, 40, true) else { return };
        let (eenv, ets, kind) = gen_expected(rng, &tcfg, &wc);
        let (cenv, cts) = candid_side(&eenv, &ets, None);
        let Ok(d) = decode(&wc.bytes) else { return };
        let tgt = Untyped {
            env: cenv,
            types: cts,
            label: format!("wire [{}] {:?} at [{eenv}] {:?}", wc.env, wc.types.iter().map(|t| t.to_string()).collect::<Vec<_>>(), ets.iter().map(|t| t.to_string()).collect::<Vec<_>>()),
        };
        judge(ctx, rng, &tgt, &wc.bytes, &d, 0, true, "untyped");
        ctx.count(&format!("cover:expected:{kind:?}"));
        ctx.nontrivial(hash_str(&format!("{:?}|{:?}", wc.types.iter().map(|t| shape(&wc.env, t, 3)).collect::<Vec<_>>(), ets.iter().map(|t| shape(&eenv, t, 3)).collect::<Vec<_>>())));
    });
}
