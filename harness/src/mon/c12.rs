//! C12 — printing an interface as .did text and re-checking it yields an equal interface.
//!
//! Workload: programs from `crate::prog` (text from OUR printer) -> candid's parser and checker.
//! Oracle: the model of the SOURCE program (`prog::to_model`, computed from our AST by the spec's
//! desugaring rules). Each of candid's two printers must produce text that parses and checks
//! again, and the re-checked definitions (matched by name), init args and service must be
//! structurally equal (greatest-fixed-point bisimulation `requal`) to that model.
use crate::conv::FromCandid;
use crate::ctx::{catch, Ctx};
use crate::model::misc::label_hash;
use crate::model::subtype::requal;
use crate::model::{Mode, REnv, RType};
use crate::prog::*;
use crate::rng::{hash_str, Rng};
use candid::types::internal::TypeContainer;
use candid::types::{Type, TypeEnv};
use candid_parser::syntax::{pretty_print, IDLMergedProg};
use candid_parser::utils::{get_metadata, instantiate_candid, merge_init_args, service_equal, CandidSource};
use serde_json::json;

fn clip(s: &str) -> String {
    if s.len() > 6000 {
        let mut end = 6000;
        while !s.is_char_boundary(end) {
            end -= 1;
        }
        format!("{}…(+{} bytes)", &s[..end], s.len() - end)
    } else {
        s.to_string()
    }
}

/// A hint about which delicate name class the program contains, to keep signatures of
/// "same text shape, different meaning" findings apart.
fn name_hint(feats: &std::collections::BTreeSet<&'static str>) -> &'static str {
    if feats.contains("name:nul+hexdigit") {
        "names=NUL+hexdigit"
    } else if feats.contains("name:nul") {
        "names=NUL"
    } else if feats.contains("name:control-char") {
        "names=control-char"
    } else if feats.contains("name:needs-escape") {
        "names=quote/backslash"
    } else if feats.contains("name:non-ascii") {
        "names=non-ascii"
    } else if feats.contains("name:non-identifier") {
        "names=quoted"
    } else {
        "names=plain"
    }
}

/// Stable class of a re-parse failure: the offending token/escape, not its position.
fn reparse_class(e: &CheckErr) -> String {
    let m = e.message();
    if m.contains("Unrecognized token `Boolean(") {
        "name-true/false-printed-unquoted".into()
    } else if m.contains("Unknown escape character 0") {
        "NUL-printed-as-backslash-0".into()
    } else {
        e.class()
    }
}

/// Judge one printed text against the model. Returns the violation (signature tail, explanation).
fn judge_printed(pm: &ProgModel, original: &str, printed: &str, has_actor: bool, check_equal: bool) -> Option<(String, String)> {
    match parse_check(printed) {
        Err(e) => Some((
            format!("reparse-fails|{}", reparse_class(&e)),
            format!("printed text is rejected at stage {}: {}", e.stage(), e.message().lines().next().unwrap_or("")),
        )),
        Ok((env2, actor2, _)) => {
            if let Some(d) = diff_model(pm, &env2, &actor2) {
                let kind = d.split('|').next().unwrap_or("differs").to_string();
                return Some((kind, format!("re-checked interface differs from the source program: {d}")));
            }
            if has_actor && check_equal {
                // candid's own structural equality must agree
                match catch(|| service_equal(CandidSource::Text(original), CandidSource::Text(printed))) {
                    Err(p) => {
                        return Some((
                            format!("service_equal-panics|{}", stable_location(&p.location)),
                            format!("service_equal panicked: {}", p.message),
                        ))
                    }
                    Ok(Err(e)) => {
                        return Some((
                            format!("service_equal-rejects|{}", crate::mon::common::err_class(&e)),
                            format!(
                                "model: interfaces equal; service_equal(original, printed) = Err({})",
                                e.to_string().lines().next().unwrap_or("")
                            ),
                        ))
                    }
                    Ok(Ok(())) => {}
                }
            }
            None
        }
    }
}

/// Compare a service (and, when given, init argument types) as candid holds them with the model of the program.
fn diff_service(pm: &ProgModel, env: &TypeEnv, init: Option<&[Type]>, serv: &Type) -> Option<String> {
    let (minit, mserv) = pm.actor.as_ref()?;
    let mut c = FromCandid::new(env);
    let cserv = match c.ty(serv) {
        Ok(t) => t,
        Err(e) => return Some(format!("service-unconvertible|{e}")),
    };
    let mut cinit = Vec::new();
    for t in init.unwrap_or(&[]) {
        match c.ty(t) {
            Ok(rt) => cinit.push(rt),
            Err(e) => return Some(format!("init-unconvertible|{e}")),
        }
    }
    let mut all: REnv = pm.env.clone();
    let off = all.append(&c.out);
    if !requal(&all, mserv, &cserv.shift_refs(off)) {
        return Some(format!(
            "service-differs|model {} vs candid {}",
            crate::mon::common::shape(&pm.env, mserv, 4),
            crate::mon::common::shape(&c.out, &cserv, 4)
        ));
    }
    if init.is_some() {
        if cinit.len() != minit.len() {
            return Some(format!("init-arity|model {} vs candid {}", minit.len(), cinit.len()));
        }
        for (k, (a, b)) in minit.iter().zip(cinit.iter()).enumerate() {
            if !requal(&all, a, &b.shift_refs(off)) {
                return Some(format!("init-arg-differs|#{k}: model {} vs candid {}", crate::mon::common::shape(&pm.env, a, 4), crate::mon::common::shape(&c.out, b, 4)));
            }
        }
    }
    None
}

/// (c) the helpers built on the printers: `get_metadata` (service with only the definitions it reaches, init arguments
/// dropped), `instantiate_candid` (init arguments and service of a printed interface) and `merge_init_args`.
fn printer_clients(ctx: &mut Ctx, rng: &mut Rng, pm: &ProgModel, env: &TypeEnv, actor: &Option<Type>, printed: &str, hint: &str, input: &dyn Fn(&str) -> serde_json::Value) {
    if actor.is_none() || pm.actor.is_none() {
        return;
    }
    let quiet = |c: &str| c.starts_with("name-true/false") || c.starts_with("NUL-");
    // get_metadata
    match catch(|| get_metadata(env, actor)) {
        Err(pn) => ctx.violation(&format!("get_metadata|panic|{}", stable_location(&pn.location)), &pn.message, input("")),
        Ok(None) => ctx.violation(&format!("get_metadata|none|{hint}"), "get_metadata returned None for a checked program with a main service", input("")),
        Ok(Some(meta)) => match parse_check(&meta) {
            Err(e) => {
                let c = reparse_class(&e);
                if !quiet(&c) {
                    ctx.violation(
                        &format!("get_metadata|reparse-fails|{c}|{hint}"),
                        &format!("metadata text is rejected at stage {}: {}", e.stage(), e.message().lines().next().unwrap_or("")),
                        input(&meta),
                    );
                }
            }
            Ok((env3, Some(a3), _)) => {
                let (init3, serv3) = actor_parts(&a3);
                if init3.is_some() {
                    ctx.violation(&format!("get_metadata|keeps-init-args|{hint}"), "metadata service still is a constructor", input(&meta));
                } else if let Some(d) = diff_service(pm, &env3, None, &serv3) {
                    let kind = d.split('|').next().unwrap_or("differs").to_string();
                    ctx.violation(&format!("get_metadata|{kind}|{hint}"), &format!("service of the metadata text differs from the source: {d}"), input(&meta));
                } else if env3.0.keys().any(|k| !env.0.contains_key(k)) {
                    ctx.violation(&format!("get_metadata|invents-definition|{hint}"), "metadata text defines a name the program does not have", input(&meta));
                } else {
                    ctx.count("agree:get_metadata");
                    if env3.0.len() < env.0.len() {
                        ctx.count("cover:get_metadata-filters-definitions");
                    }
                }
            }
            Ok(_) => ctx.violation(&format!("get_metadata|lost-actor|{hint}"), "metadata text has no service", input(&meta)),
        },
    }
    // instantiate_candid on the printed interface
    match catch(|| instantiate_candid(CandidSource::Text(printed))) {
        Err(pn) => ctx.violation(&format!("instantiate_candid|panic|{}", stable_location(&pn.location)), &pn.message, input(printed)),
        Ok(Err(e)) => {
            let m = e.to_string();
            if !(m.contains("Boolean(") || m.contains("Unknown escape character 0")) {
                ctx.violation(&format!("instantiate_candid|error|{}|{hint}", crate::mon::common::err_class(&e)), &m, input(printed));
            }
        }
        Ok(Ok((args, (env4, serv4)))) => {
            if matches!(serv4.as_ref(), candid::types::TypeInner::Class(..)) {
                ctx.violation(&format!("instantiate_candid|service-is-constructor|{hint}"), "the service part still carries init arguments", input(printed));
            } else if let Some(d) = diff_service(pm, &env4, Some(&args), &serv4) {
                let kind = d.split('|').next().unwrap_or("differs").to_string();
                ctx.violation(&format!("instantiate_candid|{kind}|{hint}"), &format!("instantiate_candid on the printed interface differs from the source: {d}"), input(printed));
            } else {
                ctx.count("agree:instantiate_candid");
                if !args.is_empty() {
                    ctx.count("cover:instantiate_candid-with-init-args");
                }
            }
        }
    }
    // merge_init_args: init arguments given separately, as definitions of the interface or inline types
    let names: Vec<&String> = pm.def_index.keys().filter(|n| n.chars().all(|c| c.is_ascii_alphanumeric() || c == '_') && n.chars().next().map_or(false, |c| c.is_ascii_alphabetic())).collect();
    let kws = ["type", "service", "func", "record", "variant", "vec", "opt", "import", "principal", "blob", "query", "oneway", "composite_query", "nat", "int", "text", "bool", "null", "reserved", "empty", "nat8", "nat16", "nat32", "nat64", "int8", "int16", "int32", "int64", "float32", "float64"];
    let mut want: Vec<RType> = Vec::new();
    let mut parts: Vec<String> = Vec::new();
    for _ in 0..rng.usize(4) {
        if !names.is_empty() && rng.chance(2, 3) {
            let n = names[rng.usize(names.len())];
            if kws.contains(&n.as_str()) {
                continue;
            }
            let idx = pm.def_index[n];
            want.push(RType::Ref(idx));
            parts.push(if rng.bool() { n.to_string() } else { format!("opt {n}") });
            if parts.last().unwrap().starts_with("opt ") {
                *want.last_mut().unwrap() = RType::opt(RType::Ref(idx));
            }
        } else {
            want.push(RType::vec(RType::Nat8));
            parts.push("blob".into());
        }
    }
    let init_text = format!("({})", parts.join(", "));
    match catch(|| merge_init_args(printed, &init_text)) {
        Err(pn) => ctx.violation(&format!("merge_init_args|panic|{}", stable_location(&pn.location)), &pn.message, input(printed)),
        Ok(Err(e)) => {
            let m = e.to_string();
            if !(m.contains("Boolean(") || m.contains("Unknown escape character 0")) {
                ctx.violation(&format!("merge_init_args|error|{}|{hint}", crate::mon::common::err_class(&e)), &format!("init {init_text}: {m}"), input(printed));
            }
        }
        Ok(Ok((env5, t5))) => {
            let (init5, serv5) = actor_parts(&t5);
            let mut pm2 = pm.clone();
            if !pm.is_class {
                // a plain service takes the given init arguments; a constructor is returned as it is
                pm2.actor = pm.actor.as_ref().map(|(_, s)| (want.clone(), s.clone()));
            }
            match init5 {
                None => ctx.violation(&format!("merge_init_args|not-a-constructor|{hint}"), &format!("init {init_text}: result is not a service constructor"), input(printed)),
                Some(i5) => match diff_service(&pm2, &env5, Some(&i5), &serv5) {
                    Some(d) => {
                        let kind = d.split('|').next().unwrap_or("differs").to_string();
                        ctx.violation(&format!("merge_init_args|{kind}|{hint}"), &format!("init {init_text}: {d}"), input(printed));
                    }
                    None => {
                        ctx.count("agree:merge_init_args");
                        if !pm.is_class && !want.is_empty() {
                            ctx.count("cover:merge_init_args-adds-arguments");
                        }
                    }
                },
            }
        }
    }
}

fn sig_of(printer: &str, sig: &str, hint: &str) -> String {
    if sig.starts_with("reparse-fails|name-true/false") || sig.starts_with("reparse-fails|NUL-") {
        format!("{printer}|{sig}")
    } else if hint == "names=NUL+hexdigit" {
        // `"\u{0}1"` is printed as `"\01"`, which the lexer reads as the byte 0x01: the text parses but means
        // another name (or collides with one). One defect, whatever part of the interface it lands in.
        format!("{printer}|NUL+hexdigit-printed-as-byte-escape")
    } else {
        format!("{printer}|{sig}|{hint}")
    }
}

pub fn one_program(ctx: &mut Ctx, rng: &mut Rng, cfg: &ProgCfg) {
    let p = gen_prog(rng, cfg);
    let pm = to_model(&p);
    let pc = PrintCfg::random(rng);
    let text = print_prog(&p, &pc, rng);
    let feats = features(&p);
    for f in &feats {
        ctx.count(&format!("cover:{f}"));
    }
    let (rec, mutual) = recursion(&pm);
    if rec {
        ctx.count("cover:recursive-def");
    }
    if mutual {
        ctx.count("cover:mutually-recursive-defs");
    }
    let hint = name_hint(&feats);
    let (env, actor, ast) = match parse_check(&text) {
        Ok(x) => x,
        Err(e) => {
            // acceptance of well-formed programs is C14's business
            ctx.count(&format!("excluded:source-rejected:{}", e.stage()));
            return;
        }
    };
    let check_equal = rng.chance(1, 2);
    let input = |printed: &str| {
        json!({
            "source": clip(&text),
            "source_plain_layout": clip(&plain(&p)),
            "printed": clip(printed),
        })
    };
    if let Some(d) = diff_model(&pm, &env, &actor) {
        // not a printing problem: the checker's reading of the source differs from the spec's
        let kind = d.split('|').next().unwrap_or("differs").to_string();
        ctx.violation(
            &format!("source-check|{kind}|{hint}"),
            &format!("check_prog's environment differs from the spec reading of the source: {d}"),
            input(""),
        );
        return;
    }
    ctx.count("checked:programs");
    // (a) type-level printer
    match catch(|| candid::pretty::candid::compile(&env, &actor)) {
        Err(pn) => ctx.violation(
            &format!("compile|panic|{}", stable_location(&pn.location)),
            &format!("pretty::candid::compile panicked: {}", pn.message),
            input(""),
        ),
        Ok(t1) => {
            let again = candid::pretty::candid::compile(&env, &actor);
            if again != t1 {
                ctx.violation("compile|nondeterministic", "two calls gave different text", input(&t1));
            }
            match judge_printed(&pm, &text, &t1, actor.is_some(), check_equal) {
                Some((sig, what)) => ctx.violation(&sig_of("compile", &sig, hint), &what, input(&t1)),
                None => {
                    ctx.count("agree:compile");
                    printer_clients(ctx, rng, &pm, &env, &actor, &t1, hint, &input);
                }
            }
        }
    }
    // (b) syntax-tree printer
    let merged = IDLMergedProg::new(ast);
    match catch(|| pretty_print(&merged)) {
        Err(pn) => ctx.violation(
            &format!("pretty_print|panic|{}", stable_location(&pn.location)),
            &format!("syntax::pretty_print panicked: {}", pn.message),
            input(""),
        ),
        Ok(t2) => {
            let again = pretty_print(&merged);
            if again != t2 {
                ctx.violation("pretty_print|nondeterministic", "two calls gave different text", input(&t2));
            }
            match judge_printed(&pm, &text, &t2, actor.is_some(), check_equal) {
                Some((sig, what)) => ctx.violation(&sig_of("pretty_print", &sig, hint), &what, input(&t2)),
                None => ctx.count("agree:pretty_print"),
            }
        }
    }
    ctx.nontrivial(shape_hash(&pm) ^ hash_str(hint));
    ctx.sample(|| json!({"source": clip(&text)}));
}

// ------------------------------------------------------------------------------------------
// (e) environments exported from Rust types

#[allow(dead_code)]
mod rust_types {
    use candid::{CandidType, Int, Nat, Principal, Reserved};
    #[derive(CandidType)]
    pub struct Point {
        pub x: i32,
        pub y: i32,
    }
    #[derive(CandidType)]
    pub enum Color {
        Red,
        Green,
        Blue(u8),
        Custom { r: u8, g: u8 },
        Pair(u8, bool),
    }
    #[derive(CandidType)]
    pub struct Wrapper<T> {
        pub inner: T,
        pub tag: String,
    }
    #[derive(CandidType)]
    pub struct Both {
        pub a: Wrapper<u8>,
        pub b: Wrapper<String>,
        pub c: Wrapper<u8>,
    }
    pub mod m1 {
        #[derive(candid::CandidType)]
        pub struct Item {
            pub id: u32,
        }
    }
    pub mod m2 {
        #[derive(candid::CandidType)]
        pub struct Item {
            pub name: String,
        }
    }
    #[derive(CandidType)]
    pub struct Items {
        pub a: m1::Item,
        pub b: m2::Item,
        pub v: Vec<m1::Item>,
    }
    #[derive(CandidType)]
    pub struct List {
        pub head: i64,
        pub tail: Option<Box<List>>,
    }
    #[derive(CandidType)]
    pub struct A {
        pub b: Option<Box<B>>,
    }
    #[derive(CandidType)]
    pub struct B {
        pub a: Vec<A>,
        pub n: Nat,
    }
    #[derive(CandidType)]
    pub struct Nest {
        pub o: Option<Option<Vec<Option<u16>>>>,
        pub v: Vec<Vec<bool>>,
    }
    #[derive(CandidType)]
    pub struct Tup(pub (u8, String), pub (Int, (bool, f64)));
    #[derive(CandidType)]
    pub enum Tree {
        Leaf(Nat),
        Node(Box<Tree>, Box<Tree>),
    }
    #[derive(CandidType, serde::Deserialize)]
    pub struct Kw {
        #[serde(rename = "record")]
        pub a: u8,
        #[serde(rename = "service")]
        pub b: u16,
        #[serde(rename = "with space")]
        pub c: u32,
        #[serde(rename = "quo\"te\\")]
        pub d: u64,
        #[serde(rename = "nat")]
        pub e: Nat,
    }
    #[derive(CandidType, serde::Deserialize)]
    pub struct KwBool {
        #[serde(rename = "true")]
        pub t: bool,
        #[serde(rename = "false")]
        pub f: bool,
    }
    #[derive(CandidType)]
    pub struct Misc {
        pub p: Principal,
        pub r: Reserved,
        pub blob: Vec<u8>,
        pub unit: (),
        pub f: f32,
        pub big: u128,
    }
    #[derive(CandidType)]
    pub enum Either<L, R> {
        Left(L),
        Right(R),
    }
    #[derive(CandidType)]
    pub struct Eithers {
        pub x: Either<u8, String>,
        pub y: Either<Point, Color>,
    }
    #[derive(CandidType)]
    pub struct Unit {}
    candid::define_function!(pub Callback : (Point) -> (Color) query);
    candid::define_service!(pub Svc : {
        "get" : candid::func!((Nat) -> (Option<Point>) query);
        "cb" : <Callback as candid::CandidType>::ty();
        "fire and forget" : candid::func!((Vec<u8>) -> () oneway)
    });
    #[derive(CandidType)]
    pub struct Refs {
        pub f: Callback,
        pub s: Svc,
    }
    // Rust identifiers need not be ASCII; definition names derived from them must still be Candid identifiers
    #[derive(CandidType)]
    #[allow(non_snake_case)]
    pub struct Größe {
        pub breite: u32,
        pub höhe: u32,
    }
    #[derive(CandidType)]
    pub enum Zustand {
        Offen,
        Belegt(Größe),
        Kette(Box<Zustand>),
    }
    // recursive types that occur only inside function / service reference types
    candid::define_function!(pub ListSource : () -> (List));
    candid::define_function!(pub ListSink : (List) -> ());
    candid::define_function!(pub TreeMap : (Tree, u32) -> (Option<Tree>, u32) query);
    candid::define_service!(pub ListServ : {
        "next" : candid::func!((List) -> (Tree) query);
        "src" : <ListSource as candid::CandidType>::ty()
    });
    #[derive(CandidType)]
    pub struct RecRefs {
        pub map: TreeMap,
        pub serv: ListServ,
    }
}

fn rec(fs: Vec<(&str, RType)>) -> RType {
    RType::record(fs.into_iter().map(|(n, t)| (label_hash(n), t)).collect())
}
fn var(fs: Vec<(&str, RType)>) -> RType {
    RType::variant(fs.into_iter().map(|(n, t)| (label_hash(n), t)).collect())
}

/// The hand-written Candid meaning of each Rust type above (the spec's Rust mapping as documented
/// in candid's derive: struct = record of field-name hashes, tuple struct = positional record, enum
/// = variant, unit case = null, newtype case = payload, Option = opt, Vec = vec, Box = transparent,
/// u128 = nat, () = null, Result = variant {Ok; Err}).
struct Export {
    name: &'static str,
    add: fn(&mut TypeContainer) -> Type,
    ty: fn() -> Type,
    expected: fn() -> (REnv, RType),
    /// candid_parser::utils::check_rust_type::<T>(init-args text)
    check: fn(&str) -> Result<(), String>,
}

fn point() -> RType {
    rec(vec![("x", RType::Int32), ("y", RType::Int32)])
}
fn color() -> RType {
    var(vec![
        ("Red", RType::Null),
        ("Green", RType::Null),
        ("Blue", RType::Nat8),
        ("Custom", rec(vec![("r", RType::Nat8), ("g", RType::Nat8)])),
        ("Pair", RType::tuple(vec![RType::Nat8, RType::Bool])),
    ])
}
fn wrapper(t: RType) -> RType {
    rec(vec![("inner", t), ("tag", RType::Text)])
}
fn no_env(t: RType) -> (REnv, RType) {
    (REnv::new(), t)
}

macro_rules! export {
    ($name:expr, $t:ty, $expected:expr) => {
        Export {
            name: $name,
            add: |c| c.add::<$t>(),
            ty: || <$t as candid::CandidType>::ty(),
            expected: $expected,
            check: |s| candid_parser::utils::check_rust_type::<$t>(s).map_err(|e| e.to_string()),
        }
    };
}

fn list_env() -> REnv {
    // T0 = record { head : int64; tail : opt T0 }
    REnv(vec![rec(vec![("head", RType::Int64), ("tail", RType::opt(RType::Ref(0)))])])
}
fn ab_env() -> REnv {
    // T0 = A = record { b : opt T1 }; T1 = B = record { a : vec T0; n : nat }
    REnv(vec![
        rec(vec![("b", RType::opt(RType::Ref(1)))]),
        rec(vec![("a", RType::vec(RType::Ref(0))), ("n", RType::Nat)]),
    ])
}
fn tree_env() -> REnv {
    REnv(vec![var(vec![
        ("Leaf", RType::Nat),
        ("Node", RType::tuple(vec![RType::Ref(0), RType::Ref(0)])),
    ])])
}
fn callback() -> RType {
    RType::func(vec![point()], vec![color()], vec![Mode::Query])
}

fn exports() -> Vec<Export> {
    use rust_types::*;
    vec![
        export!("Point", Point, || no_env(point())),
        export!("Color", Color, || no_env(color())),
        export!("Wrapper<u8>", Wrapper<u8>, || no_env(wrapper(RType::Nat8))),
        export!("Wrapper<Wrapper<String>>", Wrapper<Wrapper<String>>, || no_env(wrapper(wrapper(RType::Text)))),
        export!("Both", Both, || no_env(rec(vec![
            ("a", wrapper(RType::Nat8)),
            ("b", wrapper(RType::Text)),
            ("c", wrapper(RType::Nat8)),
        ]))),
        export!("Items", Items, || no_env(rec(vec![
            ("a", rec(vec![("id", RType::Nat32)])),
            ("b", rec(vec![("name", RType::Text)])),
            ("v", RType::vec(rec(vec![("id", RType::Nat32)]))),
        ]))),
        export!("List", List, || (list_env(), RType::Ref(0))),
        export!("Option<List>", Option<List>, || (list_env(), RType::opt(RType::Ref(0)))),
        export!("A", A, || (ab_env(), RType::Ref(0))),
        export!("B", B, || (ab_env(), RType::Ref(1))),
        export!("Vec<A>", Vec<A>, || (ab_env(), RType::vec(RType::Ref(0)))),
        export!("Nest", Nest, || no_env(rec(vec![
            ("o", RType::opt(RType::opt(RType::vec(RType::opt(RType::Nat16))))),
            ("v", RType::vec(RType::vec(RType::Bool))),
        ]))),
        export!("Tup", Tup, || no_env(RType::tuple(vec![
            RType::tuple(vec![RType::Nat8, RType::Text]),
            RType::tuple(vec![RType::Int, RType::tuple(vec![RType::Bool, RType::Float64])]),
        ]))),
        export!("(Point, Color)", (Point, Color), || no_env(RType::tuple(vec![point(), color()]))),
        export!("Result<Point, String>", Result<Point, String>, || no_env(var(vec![("Ok", point()), ("Err", RType::Text)]))),
        export!("Tree", Tree, || (tree_env(), RType::Ref(0))),
        export!("Box<Tree>", Box<Tree>, || (tree_env(), RType::Ref(0))),
        export!("Kw", Kw, || no_env(rec(vec![
            ("record", RType::Nat8),
            ("service", RType::Nat16),
            ("with space", RType::Nat32),
            ("quo\"te\\", RType::Nat64),
            ("nat", RType::Nat),
        ]))),
        export!("KwBool", KwBool, || no_env(rec(vec![("true", RType::Bool), ("false", RType::Bool)]))),
        export!("Misc", Misc, || no_env(rec(vec![
            ("p", RType::Principal),
            ("r", RType::Reserved),
            ("blob", RType::vec(RType::Nat8)),
            ("unit", RType::Null),
            ("f", RType::Float32),
            ("big", RType::Nat),
        ]))),
        export!("Eithers", Eithers, || no_env(rec(vec![
            ("x", var(vec![("Left", RType::Nat8), ("Right", RType::Text)])),
            ("y", var(vec![("Left", point()), ("Right", color())])),
        ]))),
        export!("Unit", Unit, || no_env(RType::Record(vec![]))),
        export!("Zustand", Zustand, || {
            let groesse = rec(vec![("breite", RType::Nat32), ("höhe", RType::Nat32)]);
            (REnv(vec![var(vec![("Offen", RType::Null), ("Belegt", groesse), ("Kette", RType::Ref(0))])]), RType::Ref(0))
        }),
        export!("ListSource", ListSource, || (list_env(), RType::func(vec![], vec![RType::Ref(0)], vec![]))),
        export!("ListSink", ListSink, || (list_env(), RType::func(vec![RType::Ref(0)], vec![], vec![]))),
        export!("TreeMap", TreeMap, || (tree_env(), RType::func(vec![RType::Ref(0), RType::Nat32], vec![RType::opt(RType::Ref(0)), RType::Nat32], vec![Mode::Query]))),
        export!("ListServ", ListServ, || {
            let mut env = list_env();
            let off = env.append(&tree_env());
            let t = RType::service(vec![
                ("next".to_string(), RType::func(vec![RType::Ref(0)], vec![RType::Ref(off)], vec![Mode::Query])),
                ("src".to_string(), RType::func(vec![], vec![RType::Ref(0)], vec![])),
            ]);
            (env, t)
        }),
        export!("RecRefs", RecRefs, || {
            let mut env = list_env();
            let off = env.append(&tree_env());
            let serv = RType::service(vec![
                ("next".to_string(), RType::func(vec![RType::Ref(0)], vec![RType::Ref(off)], vec![Mode::Query])),
                ("src".to_string(), RType::func(vec![], vec![RType::Ref(0)], vec![])),
            ]);
            let map = RType::func(vec![RType::Ref(off), RType::Nat32], vec![RType::opt(RType::Ref(off)), RType::Nat32], vec![Mode::Query]);
            (env, rec(vec![("map", map), ("serv", serv)]))
        }),
        export!("Refs", Refs, || no_env(rec(vec![
            ("f", callback()),
            ("s", RType::service(vec![
                ("get".to_string(), RType::func(vec![RType::Nat], vec![RType::opt(point())], vec![Mode::Query])),
                ("cb".to_string(), callback()),
                ("fire and forget".to_string(), RType::func(vec![RType::vec(RType::Nat8)], vec![], vec![Mode::Oneway])),
            ])),
        ]))),
    ]
}

fn eq2(e1: &REnv, t1: &RType, e2: &REnv, t2: &RType) -> bool {
    let mut all = e1.clone();
    let off = all.append(e2);
    requal(&all, t1, &t2.shift_refs(off))
}

fn one_export(ctx: &mut Ctx, ex: &Export, with: &[&Export]) {
    // several types may share one container (names must stay apart)
    let mut c = TypeContainer::new();
    let mut roots: Vec<(&Export, Type)> = Vec::new();
    for e in with.iter().chain(std::iter::once(&ex)) {
        let root = match catch(|| (e.add)(&mut c)) {
            Ok(t) => t,
            Err(p) => {
                ctx.violation(
                    &format!("export|panic|{}|{}", stable_location(&p.location), e.name),
                    &format!("TypeContainer::add::<{}> panicked: {}", e.name, p.message),
                    json!({"rust_type": e.name}),
                );
                return;
            }
        };
        roots.push((e, root));
    }
    let env: TypeEnv = c.env.clone();
    let names: Vec<&str> = roots.iter().map(|r| r.0.name).collect();
    let printed = match catch(|| candid::pretty::candid::compile(&env, &None)) {
        Ok(t) => t,
        Err(p) => {
            ctx.violation(
                &format!("export|compile-panic|{}", stable_location(&p.location)),
                &format!("compile panicked on the environment of {names:?}: {}", p.message),
                json!({"rust_types": names}),
            );
            return;
        }
    };
    if candid::pretty::candid::compile(&env, &None) != printed {
        ctx.violation("export|nondeterministic", "two calls gave different text", json!({"rust_types": names, "printed": printed}));
    }
    let input = json!({"rust_types": names, "printed": clip(&printed)});
    // the container's own view of each root must be the hand-written meaning of the Rust type
    let mut conv = FromCandid::new(&env);
    for (e, root) in &roots {
        let (xenv, xt) = (e.expected)();
        match conv.ty(root) {
            Err(m) => ctx.violation(
                &format!("export|unconvertible|{}", e.name),
                &format!("container type of {} cannot be read: {m}", e.name),
                input.clone(),
            ),
            Ok(rt) => {
                if !eq2(&xenv, &xt, &conv.out, &rt) {
                    ctx.violation(
                        &format!("export|container-differs|{}", e.name),
                        &format!(
                            "TypeContainer::add::<{}>() = {} in env [{}], expected {} in env [{}]",
                            e.name, rt, conv.out, xt, xenv
                        ),
                        input.clone(),
                    );
                }
            }
        }
        // and T::ty() (with Knot nodes) must mean the same
        let direct = (e.ty)();
        let empty = TypeEnv::new();
        let mut c2 = FromCandid::new(&empty);
        match c2.ty(&direct) {
            Ok(rt) => {
                if !eq2(&xenv, &xt, &c2.out, &rt) {
                    ctx.violation(
                        &format!("export|ty-differs|{}", e.name),
                        &format!("{}::ty() = {} in env [{}], expected {} in env [{}]", e.name, rt, c2.out, xt, xenv),
                        input.clone(),
                    );
                }
            }
            Err(m) => ctx.violation(
                &format!("export|unconvertible-ty|{}", e.name),
                &format!("{}::ty() cannot be read: {m}", e.name),
                input.clone(),
            ),
        }
    }
    // printed environment parses, checks, and every named definition is unchanged
    match parse_check(&printed) {
        Err(e) => ctx.violation(
            &{
                let c = reparse_class(&e);
                if c.starts_with("name-true/false") || c.starts_with("NUL-") {
                    format!("export|reparse-fails|{c}")
                } else {
                    format!("export|reparse-fails|{c}|{}", ex.name)
                }
            },
            &format!("printed environment of {names:?} is rejected: {}", e.message().lines().next().unwrap_or("")),
            input.clone(),
        ),
        Ok((env2, _, _)) => {
            let k1: Vec<&String> = env.0.keys().collect();
            let k2: Vec<&String> = env2.0.keys().collect();
            if k1 != k2 {
                ctx.violation(
                    &format!("export|def-names-differ|{}", ex.name),
                    &format!("definitions before {k1:?} and after {k2:?} printing"),
                    input.clone(),
                );
                return;
            }
            let mut a = FromCandid::new(&env);
            let mut b = FromCandid::new(&env2);
            for name in env.0.keys() {
                let v: Type = candid::types::TypeInner::Var(name.clone()).into();
                match (a.ty(&v), b.ty(&v)) {
                    (Ok(x), Ok(y)) => {
                        // compare after both conversions are complete enough: conversions are incremental,
                        // so compare at the end
                        let _ = (x, y);
                    }
                    (x, y) => {
                        ctx.violation(
                            &format!("export|unconvertible-def|{}", ex.name),
                            &format!("definition {name}: {:?} / {:?}", x.err(), y.err()),
                            input.clone(),
                        );
                        return;
                    }
                }
            }
            for name in env.0.keys() {
                let (Some(i), Some(j)) = (a.var_index(name), b.var_index(name)) else { continue };
                if !eq2(&a.out, &RType::Ref(i), &b.out, &RType::Ref(j)) {
                    ctx.violation(
                        &format!("export|def-differs|{}|{}", ex.name, name),
                        &format!(
                            "definition {name} before printing: {} ; after: {}",
                            crate::mon::common::shape(&a.out, &RType::Ref(i), 4),
                            crate::mon::common::shape(&b.out, &RType::Ref(j), 4)
                        ),
                        input.clone(),
                    );
                }
            }
            ctx.count("agree:export");
        }
    }
    // the roots themselves, as the export of a service does it: a service with one method per root, printed
    // together with the environment, must check again and its argument types must still mean the Rust types
    // (a name used by a root but missing from the environment shows up here)
    {
        use candid::types::{Function, TypeInner};
        let meths: Vec<(String, Type)> = roots
            .iter()
            .enumerate()
            .map(|(k, (_, root))| (format!("r{k}"), Type::from(TypeInner::Func(Function { modes: vec![], args: vec![root.clone()], rets: vec![root.clone()] }))))
            .collect();
        let actor: Type = TypeInner::Service(meths).into();
        let with_actor = match catch(|| candid::pretty::candid::compile(&env, &Some(actor.clone()))) {
            Ok(t) => t,
            Err(p) => {
                ctx.violation(&format!("export|compile-panic|{}", stable_location(&p.location)), &p.message, input.clone());
                return;
            }
        };
        let input2 = json!({"rust_types": names, "printed": clip(&with_actor)});
        match parse_check(&with_actor) {
            Err(e) => {
                let c = reparse_class(&e);
                if !(c.starts_with("name-true/false") || c.starts_with("NUL-")) {
                    ctx.violation(
                        &format!("export|service-over-roots-reparse-fails|{c}|{}", ex.name),
                        &format!("a service over the exported types {names:?} is rejected after printing: {}", e.message().lines().next().unwrap_or("")),
                        input2,
                    );
                }
            }
            Ok((env2, Some(actor2), _)) => {
                let mut b = FromCandid::new(&env2);
                if let TypeInner::Service(ms) = actor2.as_ref() {
                    for (k, (e, _)) in roots.iter().enumerate() {
                        let (xenv, xt) = (e.expected)();
                        let Some((_, mt)) = ms.iter().find(|m| m.0 == format!("r{k}")) else { continue };
                        let TypeInner::Func(f) = mt.as_ref() else { continue };
                        for (side, t) in [("argument", &f.args[0]), ("result", &f.rets[0])] {
                            match b.ty(t) {
                                Ok(rt) => {
                                    if !eq2(&xenv, &xt, &b.out, &rt) {
                                        ctx.violation(
                                            &format!("export|service-over-roots-differs|{}|{side}", e.name),
                                            &format!("{side} type of method r{k} after printing: {}, expected {xt} in [{xenv}]", crate::mon::common::shape(&b.out, &rt, 4)),
                                            input2.clone(),
                                        );
                                    }
                                }
                                Err(m) => ctx.violation(&format!("export|unconvertible|{}", e.name), &m, input2.clone()),
                            }
                        }
                    }
                    ctx.count("agree:export-service-over-roots");
                }
            }
            Ok(_) => ctx.violation("export|service-over-roots-lost-actor", "the printed program has no service", input2),
        }
    }
    // check_rust_type: the printed environment plus a root, in the init-args format, is the Candid type of that Rust type
    // (structural equality after merging the two environments) and of no Rust type with another meaning
    for (e, root) in &roots {
        let text = format!("{printed}\n({root})");
        let (xenv, xt) = (e.expected)();
        for (o, _) in &roots {
            let (oenv, ot) = (o.expected)();
            let same = eq2(&xenv, &xt, &oenv, &ot);
            match catch(|| (o.check)(&text)) {
                Err(p) => ctx.violation(&format!("export|check_rust_type-panic|{}", stable_location(&p.location)), &p.message, json!({"rust_type": o.name, "candid": clip(&text)})),
                Ok(r) => {
                    if r.is_ok() != same && !(text.contains("\"true\"") || text.contains("true :") || text.contains("\\0")) {
                        ctx.violation(
                            &format!("export|check_rust_type-{}|{}", if same { "rejects-own-type" } else { "accepts-other-type" }, o.name),
                            &format!("check_rust_type::<{}> on the exported type of {}: {:?}", o.name, e.name, r),
                            json!({"rust_type": o.name, "candid": clip(&text)}),
                        );
                    } else {
                        ctx.count(if same { "agree:check_rust_type-accepts" } else { "agree:check_rust_type-rejects" });
                    }
                }
            }
        }
    }
    ctx.count(&format!("cover:export:{}", ex.name));
    ctx.nontrivial(hash_str(&format!("export:{names:?}")));
}

pub fn run(ctx: &mut Ctx) {
    let base = ProgCfg {
        docs: DocKind::None,
        ..ProgCfg::default()
    };
    ctx.cases("default-programs", 0.30, |ctx, rng| one_program(ctx, rng, &base));
    ctx.cases("random-config-programs", 0.40, |ctx, rng| {
        let cfg = ProgCfg::random(rng);
        one_program(ctx, rng, &cfg)
    });
    let hostile = ProgCfg {
        hostile_names: true,
        case_collisions: true,
        docs: DocKind::Hostile,
        ..ProgCfg::default()
    };
    ctx.cases("hostile-names-and-docs", 0.20, |ctx, rng| one_program(ctx, rng, &hostile));
    let nul = ProgCfg {
        hostile_names: true,
        nul_names: true,
        max_defs: 3,
        ..ProgCfg::default()
    };
    ctx.cases("nul-in-names", 0.04, |ctx, rng| one_program(ctx, rng, &nul));
    let exs = exports();
    ctx.cases("rust-exports", 0.06, |ctx, rng| {
        let i = rng.usize(exs.len());
        // alone, or after one or two other types in the same container
        let mut with: Vec<&Export> = Vec::new();
        for _ in 0..rng.usize(3) {
            let e = &exs[rng.usize(exs.len())];
            // the type with fields named true/false is only exported on its own (it trips a known printer defect)
            if e.name != "KwBool" {
                with.push(e);
            }
        }
        one_export(ctx, &exs[i], &with);
    });
}
