//! Program cases for the binding monitors (C17, C18, C19).
//!
//! A `ProgramCase` is a `.did` text together with an oracle (model types) that does not come from
//! candid: the ad-hoc producer below owns an AST (`AProg`), a printer and a model conversion.
//! Other producers: the repository's `.did` assets (oracle = checker output converted by `conv`,
//! i.e. only "binding vs. checked program", not "binding vs. source text") and, when available,
//! `crate::prog` (see `from_prog`).
use crate::model::misc::label_hash;
use crate::model::*;
use crate::rng::Rng;
use std::collections::{BTreeSet, HashSet};
use std::path::PathBuf;

// ---------------------------------------------------------------------------------------------
// AST

#[derive(Clone, Debug, PartialEq)]
pub enum Lab {
    Named(String),
    Id(u32),
    /// unnamed record field: id = previous id + 1 (0 for the first)
    Pos,
}

#[derive(Clone, Debug, PartialEq)]
pub enum ATy {
    Prim(RType),
    Blob,
    Var(usize),
    Opt(Box<ATy>),
    Vec(Box<ATy>),
    Record(Vec<AField>),
    Variant(Vec<AField>),
    Func(AFunc),
    Service(Vec<AMeth>),
}

#[derive(Clone, Debug, PartialEq)]
pub struct AField {
    pub lab: Lab,
    pub ty: ATy,
    pub docs: Vec<String>,
    /// variant field of type null written without `: null`
    pub short: bool,
}

pub type AArg = (Option<String>, ATy);

#[derive(Clone, Debug, PartialEq)]
pub struct AFunc {
    pub args: Vec<AArg>,
    pub rets: Vec<AArg>,
    pub mode: Option<Mode>,
}

#[derive(Clone, Debug, PartialEq)]
pub enum AMethTy {
    Func(AFunc),
    Var(usize),
}

#[derive(Clone, Debug, PartialEq)]
pub struct AMeth {
    pub name: String,
    pub ty: AMethTy,
    pub docs: Vec<String>,
}

#[derive(Clone, Debug, PartialEq)]
pub struct ADef {
    pub name: String,
    pub ty: ATy,
    pub docs: Vec<String>,
}

#[derive(Clone, Debug, PartialEq)]
pub enum AActorBody {
    Service(Vec<AMeth>),
    Var(usize),
}

#[derive(Clone, Debug, PartialEq)]
pub struct AActor {
    pub docs: Vec<String>,
    pub name: Option<String>,
    pub init: Option<Vec<AArg>>,
    pub body: AActorBody,
}

#[derive(Clone, Debug, PartialEq)]
pub struct AProg {
    pub defs: Vec<ADef>,
    pub actor: Option<AActor>,
}

// ---------------------------------------------------------------------------------------------
// ProgramCase

#[derive(Clone, Debug)]
pub struct ProgramCase {
    pub text: String,
    pub model_env: REnv,
    /// name of `model_env.0[i]`
    pub def_names: Vec<String>,
    pub init: Option<Vec<RType>>,
    pub service: Option<RType>,
    /// present for the ad-hoc producer (lets monitors derive twins: docs stripped, names replaced)
    pub aprog: Option<AProg>,
    /// for assets with imports the program has to be loaded from its file
    pub path: Option<PathBuf>,
    pub origin: String,
    /// every label (field or method name) spelled in the program
    pub labels: Vec<String>,
    /// every method name of every service type of the program (subset of `labels`)
    pub method_labels: Vec<String>,
    pub tags: BTreeSet<String>,
}

impl ProgramCase {
    /// the methods of the main service, resolved through the model (name, function type)
    pub fn methods(&self) -> Option<Vec<(String, RType)>> {
        let s = self.service.as_ref()?;
        match self.model_env.unfold(s)? {
            RType::Service(ms) => Some(
                ms.iter()
                    .filter_map(|(n, t)| self.model_env.unfold(t).map(|f| (n.clone(), f.clone())))
                    .collect(),
            ),
            _ => None,
        }
    }
}

// ---------------------------------------------------------------------------------------------
// names

pub fn is_ident(s: &str) -> bool {
    let mut cs = s.chars();
    match cs.next() {
        Some(c) if c.is_ascii_alphabetic() || c == '_' => {}
        _ => return false,
    }
    cs.all(|c| c.is_ascii_alphanumeric() || c == '_')
}

/// words the Candid lexer turns into dedicated tokens (never `id`)
pub const CANDID_TOKENS: &[&str] = &[
    "null", "vec", "record", "variant", "func", "service", "oneway", "query", "composite_query", "blob", "type",
    "import", "opt", "principal", "true", "false",
];
/// identifiers the grammar reads as primitive types in type position
pub const CANDID_PRIMS: &[&str] = &[
    "nat", "nat8", "nat16", "nat32", "nat64", "int", "int8", "int16", "int32", "int64", "float32", "float64", "bool",
    "text", "null", "reserved", "empty",
];

pub const PLAIN_LABELS: &[&str] = &[
    "a", "b", "c", "id", "name", "value", "head", "tail", "key", "x", "y", "left", "right", "count", "data", "owner",
    "amount_e8s", "userName", "created_at", "A", "B", "C", "Ok", "Err", "ok", "err", "item", "inner", "arg", "ret",
    "init", "_0", "a_b", "aB", "a1", "get", "set", "find", "next", "result", "Some", "None", "leaf", "branch",
];

/// labels that stay pairwise distinct under snake / camel case conversion and are no keyword anywhere
pub const CLEAN_LABELS: &[&str] = &[
    "a", "b", "c", "id", "name", "value", "head", "tail", "key", "x", "y", "left", "right", "count", "data", "owner",
    "amount_e8s", "created_at", "item", "inner", "get", "set", "find", "next", "result", "leaf", "branch", "Ok", "Err",
    "height", "width", "memo", "to", "from_account", "fee", "tag", "payload",
];

pub const KEYWORD_LABELS: &[&str] = &[
    // JS / TS
    "if", "class", "return", "function", "let", "await", "async", "enum", "break", "new", "delete", "typeof", "void",
    "this", "in", "of", "eval", "arguments", "constructor", "prototype", "toString", "__proto__", "hasOwnProperty",
    "undefined", "NaN", "default", "export", "const", "do", "debugger", "extends", "interface", "package",
    "implements", "protected", "yield", "static", "var", "while", "with", "super", "switch", "throw", "valueOf",
    // Candid
    "type", "record", "variant", "vec", "opt", "service", "func", "import", "query", "oneway", "composite_query",
    "null", "text", "nat", "blob", "principal", "reserved", "empty", "true", "false",
    // Rust
    "fn", "self", "Self", "crate", "match", "mod", "struct", "trait", "impl", "use", "where", "dyn", "box", "try",
    "gen", "move", "ref", "mut", "pub", "loop", "as", "unsafe", "extern", "macro", "abstract", "become", "final",
    "override", "priv", "unsized", "virtual",
    // Motoko
    "actor", "shared", "stable", "label", "module", "object", "system", "public", "private", "flexible", "composite",
    "debug", "debug_show", "from_candid", "to_candid", "assert", "not", "and", "or", "case", "catch", "continue",
    "else", "for",
    // escape clones
    "if_", "class_", "type_", "f_", "self_", "return_", "Self_", "async_", "_",
];

pub const HOSTILE_LABELS: &[&str] = &[
    "with space", "quo\"te", "single'quote", "back\\slash", "trailing\\", "new\nline", "cr\rlf", "tab\t", "nul\u{0}",
    "nul\u{0}1", "\u{0}", "\u{0}7", "é", "名前", "\u{1F600}", "\u{301}x", "1", "42", "4294967295", "0x1F", "-1", "",
    "*/", "/*", "/* x */", "//", "{{", "}}", "{{x}}", "${x}", "`", "`${1}`", "</script>", "_5_", "_0_", "_1_",
    "_4294967295_", "_4294967296_", "_05_", "__", "\u{2028}", "line\u{2029}sep", "\u{7f}", "\u{feff}", "a.b", "a-b",
    "a:b", "a;b", "a,b", "#", "?", "\\u{41}", "\\n", "\\'", "%s", "'); //", "\"); //", "' + 1 + '", "\\x41", "\u{85}",
    "\u{200b}", "a\u{300}", "#", "\"#", "x\"#; pub fn injected() {} const _X: &[u8] = br#\"", "#\"", "\u{e000}", "\u{10ffff}", "\u{b}", "\u{c}", "\u{8}", "\u{1b}[0m", "­", "İ", "ǅ", "ß",
];

pub const PLAIN_DEFS: &[&str] = &[
    "t", "List", "node", "Tree", "stream", "Profile", "Key", "Value", "Res", "A", "B", "C", "my_type", "user_id", "o",
    "f", "g", "h", "s", "broker", "Callback", "Args", "Error", "Entry", "T1", "T2", "x", "y", "nested", "inner",
];
pub const COLLIDING_DEFS: &[&str] = &[
    "a_b", "aB", "AB", "A_b", "ab", "Ab", "a_B", "a__b", "_a", "a_", "A", "a", "a_b_c", "aBC", "ABC", "a_bc", "ab_c",
    "list", "List", "LIST", "my_type", "myType", "MyType", "node_", "node", "Node", "t1", "T1", "t_1", "x_y", "xY",
];
pub const KEYWORD_DEFS: &[&str] = &[
    // JS keywords and their escaped forms
    "if", "if_", "class", "class_", "return", "return_", "function", "let", "await", "enum", "break", "new", "delete",
    "typeof", "void", "this", "in", "eval", "arguments", "default", "export", "const", "do", "extends", "interface",
    "package", "yield", "static", "var", "while", "with", "super", "switch", "throw", "try", "catch", "case", "for",
    "undefined", "async", "of", "constructor", "toString", "NaN", "Object", "Array",
    // binding surface names
    "IDL", "idlFactory", "init", "_SERVICE", "Self", "Principal", "ActorMethod", "service", "Service", "Result",
    "Uint8Array", "bigint", "number", "string", "never", "any", "boolean",
    // Rust
    "fn", "self", "crate", "match", "mod", "struct", "trait", "impl", "use", "where", "dyn", "box", "gen", "move",
    "ref", "mut", "pub", "loop", "as", "unsafe", "extern", "Box", "Option", "Vec", "String", "CandidType",
    "Deserialize", "candid", "serde_bytes", "std", "u8", "bool_", "str",
    // Motoko
    "actor", "shared", "stable", "label", "module", "object", "system", "public", "private", "flexible", "composite",
    "debug", "assert", "not", "and", "or", "else", "Nat", "Int", "Text", "Bool", "Blob", "Any", "None", "Null", "Float",
    "actor_", "x_", "_",
];

fn is_candid_reserved_def(s: &str) -> bool {
    CANDID_TOKENS.contains(&s) || CANDID_PRIMS.contains(&s)
}

// ---------------------------------------------------------------------------------------------
// generator

#[derive(Clone, Copy, Debug, PartialEq, Eq)]
pub enum NameMode {
    Plain,
    Keywords,
    Hostile,
    /// plain + keywords + case collisions for definitions; labels plain/keywords (all identifiers)
    Mixed,
    /// no keywords, no names that collide after case conversion
    Clean,
}
#[derive(Clone, Copy, Debug, PartialEq, Eq)]
pub enum DocMode {
    None,
    Benign,
    Hostile,
}
#[derive(Clone, Copy, Debug, PartialEq, Eq)]
pub enum ActorWant {
    Yes,
    No,
    Maybe,
}

#[derive(Clone, Debug)]
pub struct GenCfg {
    pub max_defs: usize,
    pub max_depth: usize,
    pub max_fields: usize,
    pub labels: NameMode,
    pub defs: NameMode,
    pub docs: DocMode,
    pub actor: ActorWant,
    /// method names are identifiers (Motoko can be generated)
    pub ident_methods: bool,
    /// numeric field ids outside tuples (`5 : nat`, positional fields mixed with named ones)
    pub numeric_ids: bool,
    /// one-element tuple records (`record { nat }`)
    pub one_tuples: bool,
}

impl Default for GenCfg {
    fn default() -> Self {
        GenCfg {
            max_defs: 5,
            max_depth: 3,
            max_fields: 4,
            labels: NameMode::Mixed,
            defs: NameMode::Mixed,
            docs: DocMode::Benign,
            actor: ActorWant::Maybe,
            ident_methods: false,
            numeric_ids: true,
            one_tuples: true,
        }
    }
}

#[derive(Clone, Copy, PartialEq, Eq, Debug)]
enum Kind {
    Data,
    Func,
    Service,
}

pub const HOSTILE_DOCS: &[&str] = &[
    "*/", "/*", "/* nested */", "*/ export const x = 1; /*", "\"", "'", "`", "${x}", "`${process.exit(1)}`", "{{", "}}",
    "{{type_defs}}", "{{#each methods}}", "//", "///", "</script>", "\\", "\\n", "trailing backslash \\",
    "sep\u{2028}export const injected = 1;", "sep\u{2029}public type Injected = Nat;", "*\\/", "**/", "/**", "*/*/",
    "#[derive(Debug)]", "*/ pub struct Injected; /*", "] ) }", "{ ( [", "\u{0}", "\u{85}next", "\u{b}vt", "\u{c}ff",
    "tab\there", "é名前\u{1F600}", "--> <!--", "\"\"\"", "r#\"raw\"#", "'''", "\\u{41}", "*/ //", "@deprecated */ x",
    "=begin", "#!", "*/\u{2028}*/", "cr\rmid", "*/\r/*",
];

struct Gen<'a> {
    cfg: &'a GenCfg,
    kinds: Vec<Kind>,
    /// index of the definition being generated (number of definitions while generating the actor).
    /// Service literals nested inside types only name function definitions with a smaller index as
    /// method types: a cycle func -> nested service -> method `m : F` -> func that never crosses a
    /// type-position reference sends candid's `validate_type` into unbounded recursion (it ends with
    /// "Recursion limit exceeded" after eating the whole stack) — a checker issue outside C17-C19.
    cur: std::cell::Cell<usize>,
}

fn pick_def_name(rng: &mut Rng, mode: NameMode) -> String {
    let pool: &[&str] = match mode {
        NameMode::Plain | NameMode::Clean => PLAIN_DEFS,
        NameMode::Keywords | NameMode::Hostile => {
            if rng.chance(2, 3) {
                KEYWORD_DEFS
            } else {
                PLAIN_DEFS
            }
        }
        NameMode::Mixed => match rng.below(10) {
            0..=4 => PLAIN_DEFS,
            5 | 6 => COLLIDING_DEFS,
            _ => KEYWORD_DEFS,
        },
    };
    rng.pick(pool).to_string()
}

fn pick_label(rng: &mut Rng, mode: NameMode) -> String {
    let pool: &[&str] = match mode {
        NameMode::Plain => PLAIN_LABELS,
        NameMode::Clean => CLEAN_LABELS,
        NameMode::Keywords => {
            if rng.chance(2, 3) {
                KEYWORD_LABELS
            } else {
                PLAIN_LABELS
            }
        }
        NameMode::Mixed => match rng.below(10) {
            0..=5 => PLAIN_LABELS,
            6 => COLLIDING_DEFS,
            _ => KEYWORD_LABELS,
        },
        NameMode::Hostile => match rng.below(10) {
            0..=2 => PLAIN_LABELS,
            3 => KEYWORD_LABELS,
            _ => {
                if rng.chance(1, 40) {
                    // a very long name
                    return "L".repeat(200 + rng.usize(400));
                }
                HOSTILE_LABELS
            }
        },
    };
    rng.pick(pool).to_string()
}

impl<'a> Gen<'a> {
    fn docs(&self, rng: &mut Rng) -> Vec<String> {
        match self.cfg.docs {
            DocMode::None => vec![],
            DocMode::Benign => {
                if rng.chance(1, 3) {
                    let n = 1 + rng.usize(2);
                    (0..n)
                        .map(|i| format!("doc line {i} for item {}", rng.below(1000)))
                        .collect()
                } else {
                    vec![]
                }
            }
            DocMode::Hostile => {
                if rng.chance(2, 3) {
                    let n = 1 + rng.usize(3);
                    (0..n)
                        .map(|_| {
                            let mut s = String::new();
                            let parts = 1 + rng.usize(3);
                            for p in 0..parts {
                                if p > 0 {
                                    s.push_str(*rng.pick(&["", " ", "x", " y "]));
                                }
                                if rng.chance(1, 60) {
                                    s.push_str(&"long ".repeat(600 + rng.usize(2000)));
                                } else if rng.chance(1, 8) {
                                    s.push_str("plain words");
                                } else {
                                    s.push_str(*rng.pick(HOSTILE_DOCS));
                                }
                            }
                            s
                        })
                        .collect()
                } else {
                    vec![]
                }
            }
        }
    }

    fn prim(&self, rng: &mut Rng) -> ATy {
        let t = loop {
            let t = rng.pick(&PRIMS).clone();
            if t == RType::Empty && !rng.chance(1, 3) {
                continue;
            }
            break t;
        };
        ATy::Prim(t)
    }

    fn arg_name(&self, rng: &mut Rng, used: &mut Vec<String>) -> Option<String> {
        if !rng.chance(1, 3) {
            return None;
        }
        let pool: &[&str] = if matches!(self.cfg.labels, NameMode::Plain | NameMode::Clean) {
            &["x", "name", "id", "arg", "value", "amount", "to", "from_"]
        } else {
            &[
                "x", "name", "id", "arg", "value", "self", "fn", "type", "if", "class", "service", "arg0", "with space",
                "7", "r#x", "Self", "",
            ]
        };
        let n = rng.pick(pool).to_string();
        if used.contains(&n) {
            return None;
        }
        used.push(n.clone());
        Some(n)
    }

    fn args(&self, rng: &mut Rng, n: usize, depth: usize) -> Vec<AArg> {
        let mut used = Vec::new();
        (0..n)
            .map(|_| (self.arg_name(rng, &mut used), self.data(rng, depth)))
            .collect()
    }

    fn func(&self, rng: &mut Rng, depth: usize) -> AFunc {
        let na = rng.usize(3);
        let nr = rng.usize(3);
        let mode = match rng.below(7) {
            0 => Some(Mode::Query),
            1 => Some(Mode::Oneway),
            2 => Some(Mode::CompositeQuery),
            _ => None,
        };
        let d = depth.saturating_sub(1);
        let args = self.args(rng, na, d);
        let rets = if mode == Some(Mode::Oneway) { vec![] } else { self.args(rng, nr, d) };
        AFunc { args, rets, mode }
    }

    fn method_names(&self, rng: &mut Rng, n: usize) -> Vec<String> {
        let mut ns: Vec<String> = Vec::new();
        let mut tries = 0;
        while ns.len() < n && tries < 50 {
            tries += 1;
            let mode = if self.cfg.ident_methods && self.cfg.labels == NameMode::Hostile {
                NameMode::Keywords
            } else {
                self.cfg.labels
            };
            let s = pick_label(rng, mode);
            if self.cfg.ident_methods && !is_ident(&s) {
                continue;
            }
            if !ns.contains(&s) {
                ns.push(s);
            }
        }
        ns
    }

    fn methods(&self, rng: &mut Rng, n: usize, depth: usize, nested: bool) -> Vec<AMeth> {
        let fdefs: Vec<usize> = (0..self.kinds.len())
            .filter(|i| self.kinds[*i] == Kind::Func && (!nested || *i < self.cur.get()))
            .collect();
        self.method_names(rng, n)
            .into_iter()
            .map(|name| {
                let ty = if !fdefs.is_empty() && rng.chance(1, 3) {
                    AMethTy::Var(*rng.pick(&fdefs))
                } else {
                    AMethTy::Func(self.func(rng, depth))
                };
                AMeth {
                    name,
                    ty,
                    docs: self.docs(rng),
                }
            })
            .collect()
    }

    fn fields(&self, rng: &mut Rng, n: usize, depth: usize, variant: bool) -> Vec<AField> {
        let mut out: Vec<AField> = Vec::new();
        let mut ids: HashSet<u32> = HashSet::new();
        let mut prev: Option<u32> = None;
        let tuple_like = !variant && rng.chance(1, 4);
        let n = if tuple_like && n == 1 && !self.cfg.one_tuples { 2 } else { n };
        for _ in 0..n {
            let lab = if tuple_like {
                Lab::Pos
            } else if !self.cfg.numeric_ids {
                Lab::Named(pick_label(rng, self.cfg.labels))
            } else {
                match rng.below(10) {
                    0 if !variant => Lab::Pos,
                    1 => Lab::Id(*rng.pick(&[0u32, 1, 2, 5, 42, 1000, 65536, u32::MAX - 1, u32::MAX, 50, 25_978])),
                    2 if rng.chance(1, 2) => Lab::Id(rng.next() as u32),
                    _ => Lab::Named(pick_label(rng, self.cfg.labels)),
                }
            };
            let id = match &lab {
                Lab::Named(s) => label_hash(s),
                Lab::Id(i) => *i,
                Lab::Pos => match prev {
                    None => 0,
                    Some(u32::MAX) => continue,
                    Some(p) => p + 1,
                },
            };
            if !variant && id == u32::MAX {
                // the grammar computes `id + 1` after every labelled record field (overflow: a C13 matter)
                continue;
            }
            if !ids.insert(id) {
                continue;
            }
            prev = Some(id);
            let (ty, short) = if variant && rng.chance(1, 3) {
                (ATy::Prim(RType::Null), !matches!(lab, Lab::Pos) && rng.chance(2, 3))
            } else {
                (self.data(rng, depth), false)
            };
            out.push(AField {
                lab,
                ty,
                docs: self.docs(rng),
                short,
            });
        }
        out
    }

    fn data(&self, rng: &mut Rng, depth: usize) -> ATy {
        let ndefs = self.kinds.len();
        if ndefs > 0 && rng.below(100) < 28 {
            return ATy::Var(rng.usize(ndefs));
        }
        if depth == 0 {
            return self.prim(rng);
        }
        match rng.below(20) {
            0..=4 => self.prim(rng),
            5 | 6 => ATy::Opt(Box::new(self.data(rng, depth - 1))),
            7 | 8 => ATy::Vec(Box::new(self.data(rng, depth - 1))),
            9 => ATy::Blob,
            10..=13 => {
                let n = rng.usize(self.cfg.max_fields + 1);
                ATy::Record(self.fields(rng, n, depth - 1, false))
            }
            14..=16 => {
                let n = if rng.chance(1, 12) { 0 } else { 1 + rng.usize(self.cfg.max_fields) };
                ATy::Variant(self.fields(rng, n, depth - 1, true))
            }
            17 | 18 => ATy::Func(self.func(rng, depth)),
            _ => {
                let n = rng.usize(3);
                ATy::Service(self.methods(rng, n, depth, true))
            }
        }
    }
}

pub fn gen_aprog(rng: &mut Rng, cfg: &GenCfg) -> AProg {
    let n = rng.usize(cfg.max_defs + 1);
    // kinds and names first, so bodies can refer to any definition (forward = recursion)
    let mut names: Vec<String> = Vec::new();
    let mut tries = 0;
    while names.len() < n && tries < 100 {
        tries += 1;
        let s = pick_def_name(rng, cfg.defs);
        if !is_ident(&s) || is_candid_reserved_def(&s) || names.contains(&s) {
            continue;
        }
        names.push(s);
    }
    let n = names.len();
    #[derive(Clone, Copy)]
    enum Plan {
        Kind(Kind),
        Alias(usize),
    }
    let mut plans: Vec<Plan> = Vec::new();
    let mut kinds: Vec<Kind> = Vec::new();
    for i in 0..n {
        let p = match rng.below(12) {
            0 | 1 => Plan::Kind(Kind::Func),
            2 | 3 => Plan::Kind(Kind::Service),
            4 if i > 0 => Plan::Alias(rng.usize(i)),
            _ => Plan::Kind(Kind::Data),
        };
        kinds.push(match p {
            Plan::Kind(k) => k,
            Plan::Alias(j) => kinds[j],
        });
        plans.push(p);
    }
    let g = Gen {
        cfg,
        kinds,
        cur: std::cell::Cell::new(0),
    };
    let mut defs = Vec::new();
    for i in 0..n {
        g.cur.set(i);
        let ty = match plans[i] {
            Plan::Alias(j) => ATy::Var(j),
            Plan::Kind(Kind::Func) => ATy::Func(g.func(rng, cfg.max_depth)),
            Plan::Kind(Kind::Service) => {
                let m = rng.usize(4);
                ATy::Service(g.methods(rng, m, cfg.max_depth, false))
            }
            Plan::Kind(Kind::Data) => loop {
                let t = g.data(rng, cfg.max_depth);
                // a bare reference at the top of a data definition would need kind bookkeeping and
                // can be a vacuous cycle; aliases are planned explicitly above
                if matches!(t, ATy::Var(_) | ATy::Func(_) | ATy::Service(_)) {
                    continue;
                }
                break t;
            },
        };
        defs.push(ADef {
            name: names[i].clone(),
            ty,
            docs: g.docs(rng),
        });
    }
    let want = match cfg.actor {
        ActorWant::Yes => true,
        ActorWant::No => false,
        ActorWant::Maybe => rng.chance(3, 4),
    };
    g.cur.set(n);
    let actor = if want {
        let sdefs: Vec<usize> = (0..n).filter(|i| g.kinds[*i] == Kind::Service).collect();
        let body = if !sdefs.is_empty() && rng.chance(1, 3) {
            AActorBody::Var(*rng.pick(&sdefs))
        } else {
            let m = rng.usize(5);
            AActorBody::Service(g.methods(rng, m, cfg.max_depth, false))
        };
        let init = if rng.chance(2, 5) {
            let k = rng.usize(4);
            Some(g.args(rng, k, cfg.max_depth))
        } else {
            None
        };
        let name = if rng.chance(1, 4) {
            Some(rng.pick(&["server", "S", "main", "if", "self", "class"]).to_string())
        } else {
            None
        };
        Some(AActor {
            docs: g.docs(rng),
            name,
            init,
            body,
        })
    } else {
        None
    };
    AProg { defs, actor }
}

// ---------------------------------------------------------------------------------------------
// printer (own text; nothing here comes from candid's printers)

fn quote(s: &str, rng_bits: u64) -> String {
    let mut o = String::from("\"");
    for (k, c) in s.chars().enumerate() {
        match c {
            '"' => o.push_str("\\\""),
            '\\' => o.push_str("\\\\"),
            '\n' => o.push_str("\\n"),
            '\r' => o.push_str("\\r"),
            '\t' => o.push_str("\\t"),
            c if (c as u32) < 0x20 || c as u32 == 0x7f => o.push_str(&format!("\\u{{{:x}}}", c as u32)),
            c if !c.is_ascii() && (rng_bits >> (k % 60)) & 1 == 1 => o.push_str(&format!("\\u{{{:X}}}", c as u32)),
            c => o.push(c),
        }
    }
    o.push('"');
    o
}

pub struct Printer {
    /// bits deciding cosmetic choices (quoting of names that need none, unicode escapes)
    pub bits: u64,
    counter: u64,
}

impl Printer {
    pub fn new(bits: u64) -> Self {
        Printer { bits, counter: 0 }
    }
    fn coin(&mut self) -> bool {
        self.counter += 1;
        crate::rng::mix(self.bits ^ self.counter) & 3 == 0
    }
    pub fn name(&mut self, s: &str) -> String {
        if is_ident(s) && !CANDID_TOKENS.contains(&s) && !self.coin() {
            s.to_string()
        } else {
            quote(s, self.bits)
        }
    }
    fn docs(&self, out: &mut String, docs: &[String], ind: usize) {
        for d in docs {
            out.push_str(&" ".repeat(ind));
            out.push_str("// ");
            out.push_str(d);
            out.push('\n');
        }
    }
    fn args(&mut self, args: &[AArg], defs: &[ADef], ind: usize) -> String {
        let parts: Vec<String> = args
            .iter()
            .map(|(n, t)| match n {
                Some(n) => format!("{} : {}", self.name(n), self.ty(t, defs, ind)),
                None => self.ty(t, defs, ind),
            })
            .collect();
        format!("({})", parts.join(", "))
    }
    fn func(&mut self, f: &AFunc, defs: &[ADef], ind: usize) -> String {
        let mut s = format!("{} -> {}", self.args(&f.args, defs, ind), self.args(&f.rets, defs, ind));
        match f.mode {
            Some(Mode::Query) => s.push_str(" query"),
            Some(Mode::Oneway) => s.push_str(" oneway"),
            Some(Mode::CompositeQuery) => s.push_str(" composite_query"),
            None => {}
        }
        s
    }
    fn meths(&mut self, ms: &[AMeth], defs: &[ADef], ind: usize) -> String {
        if ms.is_empty() {
            return "{}".to_string();
        }
        let mut s = String::from("{\n");
        for m in ms {
            self.docs(&mut s, &m.docs, ind + 2);
            s.push_str(&" ".repeat(ind + 2));
            s.push_str(&self.name(&m.name));
            s.push_str(" : ");
            match &m.ty {
                AMethTy::Func(f) => s.push_str(&self.func(f, defs, ind + 2)),
                AMethTy::Var(i) => s.push_str(&defs[*i].name),
            }
            s.push_str(";\n");
        }
        s.push_str(&" ".repeat(ind));
        s.push('}');
        s
    }
    fn fields(&mut self, fs: &[AField], defs: &[ADef], ind: usize) -> String {
        if fs.is_empty() {
            return "{}".to_string();
        }
        let multi = fs.iter().any(|f| !f.docs.is_empty()) || fs.len() > 3;
        let mut s = String::from("{");
        for (k, f) in fs.iter().enumerate() {
            if multi {
                s.push('\n');
                self.docs(&mut s, &f.docs, ind + 2);
                s.push_str(&" ".repeat(ind + 2));
            } else {
                s.push(' ');
            }
            match &f.lab {
                Lab::Named(n) => {
                    s.push_str(&self.name(n));
                    if !f.short {
                        s.push_str(" : ");
                    }
                }
                Lab::Id(i) => {
                    if self.coin() {
                        s.push_str(&format!("0x{i:x}"));
                    } else {
                        s.push_str(&i.to_string());
                    }
                    if !f.short {
                        s.push_str(" : ");
                    }
                }
                Lab::Pos => {}
            }
            if !f.short {
                s.push_str(&self.ty(&f.ty, defs, ind + 2));
            }
            if k + 1 < fs.len() || self.coin() {
                s.push(';');
            }
        }
        if multi {
            s.push('\n');
            s.push_str(&" ".repeat(ind));
        } else {
            s.push(' ');
        }
        s.push('}');
        s
    }
    pub fn ty(&mut self, t: &ATy, defs: &[ADef], ind: usize) -> String {
        match t {
            ATy::Prim(p) => p.to_string(),
            ATy::Blob => "blob".to_string(),
            ATy::Var(i) => defs[*i].name.clone(),
            ATy::Opt(t) => format!("opt {}", self.ty(t, defs, ind)),
            ATy::Vec(t) => format!("vec {}", self.ty(t, defs, ind)),
            ATy::Record(fs) => format!("record {}", self.fields(fs, defs, ind)),
            ATy::Variant(fs) => format!("variant {}", self.fields(fs, defs, ind)),
            ATy::Func(f) => format!("func {}", self.func(f, defs, ind)),
            ATy::Service(ms) => format!("service {}", self.meths(ms, defs, ind)),
        }
    }
    pub fn prog(&mut self, p: &AProg) -> String {
        let mut s = String::new();
        for d in &p.defs {
            self.docs(&mut s, &d.docs, 0);
            s.push_str(&format!("type {} = {};\n", d.name, self.ty(&d.ty, &p.defs, 0)));
        }
        if let Some(a) = &p.actor {
            self.docs(&mut s, &a.docs, 0);
            s.push_str("service ");
            if let Some(n) = &a.name {
                // the optional service name must lex as an identifier
                if is_ident(n) && !CANDID_TOKENS.contains(&n.as_str()) {
                    s.push_str(n);
                    s.push(' ');
                }
            }
            s.push_str(": ");
            if let Some(init) = &a.init {
                s.push_str(&self.args(init, &p.defs, 0));
                s.push_str(" -> ");
            }
            match &a.body {
                AActorBody::Service(ms) => s.push_str(&self.meths(ms, &p.defs, 0)),
                AActorBody::Var(i) => s.push_str(&p.defs[*i].name),
            }
            if self.coin() {
                s.push(';');
            }
            s.push('\n');
        }
        s
    }
}

// ---------------------------------------------------------------------------------------------
// model

/// ids of the fields of a record/variant in declaration order (None: the candid grammar would
/// overflow computing the next positional id)
pub fn field_ids(fs: &[AField]) -> Option<Vec<u32>> {
    let mut out = Vec::new();
    let mut next: u64 = 0;
    for f in fs {
        let id = match &f.lab {
            Lab::Named(s) => label_hash(s),
            Lab::Id(i) => *i,
            Lab::Pos => {
                if next > u32::MAX as u64 {
                    return None;
                }
                next as u32
            }
        };
        next = id as u64 + 1;
        out.push(id);
    }
    Some(out)
}

fn func_model(f: &AFunc) -> RType {
    RType::Func {
        args: f.args.iter().map(|a| ty_model(&a.1)).collect(),
        rets: f.rets.iter().map(|a| ty_model(&a.1)).collect(),
        modes: f.mode.iter().cloned().collect(),
    }
}
fn meths_model(ms: &[AMeth]) -> RType {
    RType::service(
        ms.iter()
            .map(|m| {
                (
                    m.name.clone(),
                    match &m.ty {
                        AMethTy::Func(f) => func_model(f),
                        AMethTy::Var(i) => RType::Ref(*i),
                    },
                )
            })
            .collect(),
    )
}
pub fn ty_model(t: &ATy) -> RType {
    match t {
        ATy::Prim(p) => p.clone(),
        ATy::Blob => RType::vec(RType::Nat8),
        ATy::Var(i) => RType::Ref(*i),
        ATy::Opt(t) => RType::opt(ty_model(t)),
        ATy::Vec(t) => RType::vec(ty_model(t)),
        ATy::Record(fs) | ATy::Variant(fs) => {
            let ids = field_ids(fs).expect("generator never produces an overflowing positional id");
            let v: Vec<(u32, RType)> = ids.into_iter().zip(fs.iter().map(|f| ty_model(&f.ty))).collect();
            if matches!(t, ATy::Record(_)) {
                RType::record(v)
            } else {
                RType::variant(v)
            }
        }
        ATy::Func(f) => func_model(f),
        ATy::Service(ms) => meths_model(ms),
    }
}

fn walk_labels(t: &ATy, out: &mut Vec<String>) {
    match t {
        ATy::Opt(t) | ATy::Vec(t) => walk_labels(t, out),
        ATy::Record(fs) | ATy::Variant(fs) => {
            for f in fs {
                if let Lab::Named(s) = &f.lab {
                    out.push(s.clone());
                }
                walk_labels(&f.ty, out);
            }
        }
        ATy::Func(f) => {
            for a in f.args.iter().chain(f.rets.iter()) {
                walk_labels(&a.1, out);
            }
        }
        ATy::Service(ms) => walk_meth_labels(ms, out),
        _ => {}
    }
}
fn walk_meth_labels(ms: &[AMeth], out: &mut Vec<String>) {
    for m in ms {
        out.push(m.name.clone());
        if let AMethTy::Func(f) = &m.ty {
            for a in f.args.iter().chain(f.rets.iter()) {
                walk_labels(&a.1, out);
            }
        }
    }
}

pub fn all_labels(p: &AProg) -> Vec<String> {
    let mut out = Vec::new();
    for d in &p.defs {
        walk_labels(&d.ty, &mut out);
    }
    if let Some(a) = &p.actor {
        if let Some(init) = &a.init {
            for x in init {
                walk_labels(&x.1, &mut out);
            }
        }
        if let AActorBody::Service(ms) = &a.body {
            walk_meth_labels(ms, &mut out);
        }
    }
    out
}

fn walk_method_names(t: &ATy, out: &mut Vec<String>) {
    match t {
        ATy::Opt(t) | ATy::Vec(t) => walk_method_names(t, out),
        ATy::Record(fs) | ATy::Variant(fs) => {
            for f in fs {
                walk_method_names(&f.ty, out);
            }
        }
        ATy::Func(f) => {
            for a in f.args.iter().chain(f.rets.iter()) {
                walk_method_names(&a.1, out);
            }
        }
        ATy::Service(ms) => meths_method_names(ms, out),
        _ => {}
    }
}
fn meths_method_names(ms: &[AMeth], out: &mut Vec<String>) {
    for m in ms {
        out.push(m.name.clone());
        if let AMethTy::Func(f) = &m.ty {
            for a in f.args.iter().chain(f.rets.iter()) {
                walk_method_names(&a.1, out);
            }
        }
    }
}
pub fn all_method_names(p: &AProg) -> Vec<String> {
    let mut out = Vec::new();
    for d in &p.defs {
        walk_method_names(&d.ty, &mut out);
    }
    if let Some(a) = &p.actor {
        if let Some(init) = &a.init {
            for x in init {
                walk_method_names(&x.1, &mut out);
            }
        }
        if let AActorBody::Service(ms) = &a.body {
            meths_method_names(ms, &mut out);
        }
    }
    out
}

pub const JS_KEYWORDS: &[&str] = &[
    "abstract", "arguments", "await", "boolean", "break", "byte", "case", "catch", "char", "class", "const", "continue",
    "debugger", "default", "delete", "do", "double", "else", "enum", "eval", "export", "extends", "false", "final",
    "finally", "float", "for", "function", "goto", "if", "implements", "import", "in", "instanceof", "int", "interface",
    "let", "long", "native", "new", "null", "package", "private", "protected", "public", "return", "short", "static",
    "super", "switch", "synchronized", "this", "throw", "throws", "transient", "true", "try", "typeof", "var", "void",
    "volatile", "while", "with", "yield",
];

fn looks_like_n(s: &str) -> bool {
    s.len() >= 3
        && s.starts_with('_')
        && s.ends_with('_')
        && s[1..s.len() - 1].chars().all(|c| c.is_ascii_digit())
}

/// Shape of the main service as far as the tags care.
pub struct ActorShape {
    pub present: bool,
    /// `service : Name` — the name
    pub var: Option<String>,
    /// number of init arguments when written as a service constructor
    pub init: Option<usize>,
}

pub fn tags_from(names: &[String], labels: &[String], actor: &ActorShape) -> BTreeSet<String> {
    let mut t = BTreeSet::new();
    for l in labels {
        if l == "__proto__" {
            t.insert("label:__proto__".to_string());
        }
        if looks_like_n(l) {
            t.insert("label:_N_".to_string());
        }
        let b = l.as_bytes();
        if b.windows(2).any(|w| w[0] == 0 && w[1].is_ascii_digit()) {
            t.insert("label:nul+digit".to_string());
        }
        if !is_ident(l) {
            t.insert("label:needs-quotes".to_string());
        }
        if JS_KEYWORDS.contains(&l.as_str()) {
            t.insert("label:js-keyword".to_string());
        }
    }
    for n in names {
        if JS_KEYWORDS.contains(&n.as_str()) {
            t.insert("def:js-keyword".to_string());
            let esc = format!("{n}_");
            if names.contains(&esc) {
                t.insert("def:js-keyword+escaped-twin".to_string());
            }
        }
        if n == "IDL" {
            t.insert("def:IDL".to_string());
        }
    }
    if !actor.present {
        t.insert("actor:none".to_string());
    } else {
        match &actor.var {
            Some(n) => {
                t.insert("actor:var".to_string());
                if JS_KEYWORDS.contains(&n.as_str()) {
                    t.insert("actor:var-js-keyword".to_string());
                }
            }
            None => {
                t.insert("actor:literal".to_string());
            }
        }
        if let Some(n) = actor.init {
            t.insert(if n == 0 { "actor:class-noargs" } else { "actor:class" }.to_string());
        }
    }
    t
}

pub fn tags_of(p: &AProg, labels: &[String]) -> BTreeSet<String> {
    let names: Vec<String> = p.defs.iter().map(|d| d.name.clone()).collect();
    let actor = match &p.actor {
        None => ActorShape {
            present: false,
            var: None,
            init: None,
        },
        Some(a) => ActorShape {
            present: true,
            var: match &a.body {
                AActorBody::Var(i) => Some(p.defs[*i].name.clone()),
                AActorBody::Service(_) => None,
            },
            init: a.init.as_ref().map(|i| i.len()),
        },
    };
    tags_from(&names, labels, &actor)
}

pub fn case_of(p: &AProg, bits: u64, origin: &str) -> ProgramCase {
    let text = Printer::new(bits).prog(p);
    let model_env = REnv(p.defs.iter().map(|d| ty_model(&d.ty)).collect());
    let def_names = p.defs.iter().map(|d| d.name.clone()).collect();
    let (init, service) = match &p.actor {
        None => (None, None),
        Some(a) => (
            a.init.as_ref().map(|xs| xs.iter().map(|x| ty_model(&x.1)).collect()),
            Some(match &a.body {
                AActorBody::Service(ms) => meths_model(ms),
                AActorBody::Var(i) => RType::Ref(*i),
            }),
        ),
    };
    let labels = all_labels(p);
    let method_labels = all_method_names(p);
    let tags = tags_of(p, &labels);
    ProgramCase {
        text,
        model_env,
        def_names,
        init,
        service,
        aprog: Some(p.clone()),
        path: None,
        origin: origin.to_string(),
        labels,
        method_labels,
        tags,
    }
}

pub fn gen_case(rng: &mut Rng, cfg: &GenCfg, origin: &str) -> ProgramCase {
    let p = gen_aprog(rng, cfg);
    let bits = rng.next();
    case_of(&p, bits, origin)
}

// ---------------------------------------------------------------------------------------------
// twins

fn map_ty(t: &ATy, f: &mut dyn FnMut(&mut Vec<String>), g: &mut dyn FnMut(&str, bool) -> String) -> ATy {
    match t {
        ATy::Opt(t) => ATy::Opt(Box::new(map_ty(t, f, g))),
        ATy::Vec(t) => ATy::Vec(Box::new(map_ty(t, f, g))),
        ATy::Record(fs) | ATy::Variant(fs) => {
            let fs2 = fs
                .iter()
                .map(|fl| {
                    let mut docs = fl.docs.clone();
                    f(&mut docs);
                    AField {
                        lab: match &fl.lab {
                            Lab::Named(s) => Lab::Named(g(s, false)),
                            l => l.clone(),
                        },
                        ty: map_ty(&fl.ty, f, g),
                        docs,
                        short: fl.short,
                    }
                })
                .collect();
            if matches!(t, ATy::Record(_)) {
                ATy::Record(fs2)
            } else {
                ATy::Variant(fs2)
            }
        }
        ATy::Func(fun) => ATy::Func(map_func(fun, f, g)),
        ATy::Service(ms) => ATy::Service(map_meths(ms, f, g)),
        t => t.clone(),
    }
}
fn map_func(fun: &AFunc, f: &mut dyn FnMut(&mut Vec<String>), g: &mut dyn FnMut(&str, bool) -> String) -> AFunc {
    AFunc {
        args: fun.args.iter().map(|(n, t)| (n.clone(), map_ty(t, f, g))).collect(),
        rets: fun.rets.iter().map(|(n, t)| (n.clone(), map_ty(t, f, g))).collect(),
        mode: fun.mode,
    }
}
fn map_meths(
    ms: &[AMeth],
    f: &mut dyn FnMut(&mut Vec<String>),
    g: &mut dyn FnMut(&str, bool) -> String,
) -> Vec<AMeth> {
    ms.iter()
        .map(|m| {
            let mut docs = m.docs.clone();
            f(&mut docs);
            AMeth {
                name: g(&m.name, true),
                ty: match &m.ty {
                    AMethTy::Func(fun) => AMethTy::Func(map_func(fun, f, g)),
                    v => v.clone(),
                },
                docs,
            }
        })
        .collect()
}

/// Apply `f` to every doc list and `g(name, is_method)` to every label of the program.
pub fn map_prog(
    p: &AProg,
    f: &mut dyn FnMut(&mut Vec<String>),
    g: &mut dyn FnMut(&str, bool) -> String,
) -> AProg {
    AProg {
        defs: p
            .defs
            .iter()
            .map(|d| {
                let mut docs = d.docs.clone();
                f(&mut docs);
                ADef {
                    name: d.name.clone(),
                    ty: map_ty(&d.ty, f, g),
                    docs,
                }
            })
            .collect(),
        actor: p.actor.as_ref().map(|a| {
            let mut docs = a.docs.clone();
            f(&mut docs);
            AActor {
                docs,
                name: a.name.clone(),
                init: a
                    .init
                    .as_ref()
                    .map(|xs| xs.iter().map(|(n, t)| (n.clone(), map_ty(t, f, g))).collect()),
                body: match &a.body {
                    AActorBody::Service(ms) => AActorBody::Service(map_meths(ms, f, g)),
                    v => v.clone(),
                },
            }
        }),
    }
}

pub fn strip_docs(p: &AProg) -> AProg {
    map_prog(p, &mut |d| d.clear(), &mut |s, _| s.to_string())
}

/// Re-draw every doc list with hostile content (same program otherwise).
pub fn hostile_docs(p: &AProg, rng: &mut Rng) -> AProg {
    let cfg = GenCfg {
        docs: DocMode::Hostile,
        ..GenCfg::default()
    };
    let g = Gen {
        cfg: &cfg,
        kinds: vec![],
        cur: std::cell::Cell::new(0),
    };
    map_prog(
        p,
        &mut |d| {
            *d = g.docs(rng);
        },
        &mut |s, _| s.to_string(),
    )
}

// ---------------------------------------------------------------------------------------------
// other producers

/// Convert a checked candid program into a case (oracle = the checker's own result).
pub fn case_from_checked(
    text: String,
    path: Option<PathBuf>,
    env: &candid::TypeEnv,
    actor: &Option<candid::types::Type>,
    origin: &str,
) -> Result<ProgramCase, String> {
    use candid::types::TypeInner;
    let mut c = crate::conv::FromCandid::new(env);
    let names: Vec<String> = env.0.keys().cloned().collect();
    for n in &names {
        c.ty(&TypeInner::Var(n.clone()).into())?;
    }
    let (init, service) = match actor {
        None => (None, None),
        Some(a) => match a.as_ref() {
            TypeInner::Class(args, t) => {
                let mut xs = Vec::new();
                for x in args {
                    xs.push(c.ty(x)?);
                }
                (Some(xs), Some(c.ty(t)?))
            }
            _ => (None, Some(c.ty(a)?)),
        },
    };
    let mut def_names = vec![String::new(); c.out.0.len()];
    for n in &names {
        if let Some(i) = c.var_index(n) {
            def_names[i] = n.clone();
        }
    }
    // conv keeps candid's field order; the checker sorts fields, the model wants them sorted too
    fn sort(t: &RType) -> RType {
        match t {
            RType::Opt(t) => RType::opt(sort(t)),
            RType::Vec(t) => RType::vec(sort(t)),
            RType::Record(fs) => RType::record(fs.iter().map(|(i, t)| (*i, sort(t))).collect()),
            RType::Variant(fs) => RType::variant(fs.iter().map(|(i, t)| (*i, sort(t))).collect()),
            RType::Func { args, rets, modes } => RType::Func {
                args: args.iter().map(sort).collect(),
                rets: rets.iter().map(sort).collect(),
                modes: modes.clone(),
            },
            RType::Service(ms) => RType::service(ms.iter().map(|(n, t)| (n.clone(), sort(t))).collect()),
            t => t.clone(),
        }
    }
    let model_env = REnv(c.out.0.iter().map(sort).collect());
    let mut labels = Vec::new();
    let mut method_labels = Vec::new();
    fn labels_of(t: &candid::types::Type, out: &mut Vec<String>, ms_out: &mut Vec<String>) {
        match t.as_ref() {
            TypeInner::Opt(t) | TypeInner::Vec(t) => labels_of(t, out, ms_out),
            TypeInner::Record(fs) | TypeInner::Variant(fs) => {
                for f in fs {
                    if let candid::types::Label::Named(s) = &*f.id {
                        out.push(s.clone());
                    }
                    labels_of(&f.ty, out, ms_out);
                }
            }
            TypeInner::Func(f) => {
                for t in f.args.iter().chain(f.rets.iter()) {
                    labels_of(t, out, ms_out);
                }
            }
            TypeInner::Service(ms) => {
                for (n, t) in ms {
                    out.push(n.clone());
                    ms_out.push(n.clone());
                    labels_of(t, out, ms_out);
                }
            }
            TypeInner::Class(args, t) => {
                for a in args {
                    labels_of(a, out, ms_out);
                }
                labels_of(t, out, ms_out);
            }
            _ => {}
        }
    }
    for t in env.0.values() {
        labels_of(t, &mut labels, &mut method_labels);
    }
    if let Some(a) = actor {
        labels_of(a, &mut labels, &mut method_labels);
    }
    let mut tags = BTreeSet::new();
    tags.insert(if service.is_some() { "actor:some" } else { "actor:none" }.to_string());
    Ok(ProgramCase {
        text,
        model_env,
        def_names,
        init: init.map(|v: Vec<RType>| v.iter().map(sort).collect()),
        service: service.map(|s| sort(&s)),
        aprog: None,
        path,
        origin: origin.to_string(),
        labels,
        method_labels,
        tags,
    })
}

/// Producer backed by `crate::prog` (own AST, printer and model of the program generator).
pub fn case_from_prog(p: &crate::prog::Prog, text: String, origin: &str) -> Result<ProgramCase, String> {
    use crate::prog::{ActorBody, Label, MethTy, Method, Ty};
    let m = crate::prog::try_to_model(p)?;
    fn meths(ms: &[Method], labels: &mut Vec<String>, mlabels: &mut Vec<String>) {
        for m in ms {
            labels.push(m.name.clone());
            mlabels.push(m.name.clone());
            match &m.ty {
                MethTy::Func(f) => {
                    for a in f.args.iter().chain(f.rets.iter()) {
                        ty(&a.ty, labels, mlabels);
                    }
                }
                MethTy::Raw(t) => ty(t, labels, mlabels),
                MethTy::Var(_) => {}
            }
        }
    }
    fn ty(t: &Ty, labels: &mut Vec<String>, mlabels: &mut Vec<String>) {
        match t {
            Ty::Opt(t) | Ty::Vec(t) => ty(t, labels, mlabels),
            Ty::Record(fs) | Ty::Variant(fs) => {
                for f in fs {
                    if let Label::Named(s) = &f.label {
                        labels.push(s.clone());
                    }
                    ty(&f.ty, labels, mlabels);
                }
            }
            Ty::Func(f) => {
                for a in f.args.iter().chain(f.rets.iter()) {
                    ty(&a.ty, labels, mlabels);
                }
            }
            Ty::Service(ms) => meths(ms, labels, mlabels),
            _ => {}
        }
    }
    let mut labels = Vec::new();
    let mut method_labels = Vec::new();
    for d in &p.defs {
        ty(&d.ty, &mut labels, &mut method_labels);
    }
    let mut shape = ActorShape {
        present: false,
        var: None,
        init: None,
    };
    if let Some(a) = &p.actor {
        shape.present = true;
        if let Some(init) = &a.init {
            shape.init = Some(init.len());
            for x in init {
                ty(&x.ty, &mut labels, &mut method_labels);
            }
        }
        match &a.body {
            ActorBody::Service(ms) => meths(ms, &mut labels, &mut method_labels),
            ActorBody::Var(n) => shape.var = Some(n.clone()),
        }
    }
    let def_names: Vec<String> = p.defs.iter().map(|d| d.name.clone()).collect();
    let tags = tags_from(&def_names, &labels, &shape);
    let (init, service) = match &m.actor {
        None => (None, None),
        Some((init, s)) => (if m.is_class { Some(init.clone()) } else { None }, Some(s.clone())),
    };
    Ok(ProgramCase {
        text,
        model_env: m.env,
        def_names,
        init,
        service,
        aprog: None,
        path: None,
        origin: origin.to_string(),
        labels,
        method_labels,
        tags,
    })
}

/// One program from `crate::prog` with a random configuration suitable for the binding monitors.
pub fn gen_prog_case(rng: &mut Rng, tweak: &dyn Fn(&mut crate::prog::ProgCfg), origin: &str) -> Option<ProgramCase> {
    use crate::prog::{gen_prog, print_prog, PrintCfg, ProgCfg};
    let mut cfg = ProgCfg::random(rng);
    tweak(&mut cfg);
    let p = gen_prog(rng, &cfg);
    let pcfg = PrintCfg::random(rng);
    let text = print_prog(&p, &pcfg, rng);
    case_from_prog(&p, text, origin).ok()
}

pub fn asset_dir() -> PathBuf {
    PathBuf::from(std::env::var("VERIF_REPO").unwrap_or_else(|_| "/repo".to_string()))
        .join("rust/candid_parser/tests/assets")
}

/// The `.did` assets of the repository that type-check (sorted by name).
pub fn asset_cases() -> Vec<ProgramCase> {
    let mut files: Vec<PathBuf> = match std::fs::read_dir(asset_dir()) {
        Ok(rd) => rd
            .filter_map(|e| e.ok().map(|e| e.path()))
            .filter(|p| p.extension().map(|e| e == "did").unwrap_or(false))
            .collect(),
        Err(_) => vec![],
    };
    files.sort();
    let mut out = Vec::new();
    for f in files {
        let Ok(text) = std::fs::read_to_string(&f) else { continue };
        let r = crate::ctx::catch(|| candid_parser::typing::check_file(&f));
        if let Ok(Ok((env, actor, _prog))) = r {
            let origin = format!("asset:{}", f.file_name().unwrap().to_string_lossy());
            if let Ok(c) = case_from_checked(text, Some(f.clone()), &env, &actor, &origin) {
                out.push(c);
            }
        }
    }
    out
}

/// Hand-written programs aimed at the naming and shape rules of the binding generators, one rule per program:
/// every Rust / JavaScript / Motoko keyword as field, variant case, method and definition name; every spelling of a
/// Result-like variant; tuple shapes; case conversions. Deterministic, so every run covers them.
pub fn catalogue_cases() -> Vec<ProgramCase> {
    const WORDS: &[&str] = &[
        "self", "Self", "crate", "super", "_", "type", "fn", "async", "await", "dyn", "box", "try", "abstract", "move", "ref", "match",
        "where", "mod", "use", "impl", "struct", "enum", "trait", "union", "static", "const", "unsafe", "extern", "loop", "while", "for",
        "in", "if", "else", "let", "mut", "pub", "priv", "yield", "macro", "override", "typeof", "unsized", "virtual", "final", "become",
        "do", "gen", "true", "false", "break", "continue", "return", "as", "class", "function", "var", "new", "delete", "this", "null",
        "void", "with", "switch", "case", "default", "export", "import", "throw", "catch", "finally", "instanceof", "debugger",
        "actor", "shared", "stable", "assert", "label", "object", "module", "not", "or", "and", "func", "query", "service", "principal",
        "Ok", "Err", "ok", "err", "Option", "Vec", "Box", "String", "Result", "Some", "None", "candid", "serde", "std",
    ];
    let mut texts: Vec<(String, String)> = Vec::new();
    // groups of 6 words none of which collide with each other after case conversion (name collisions inside one
    // record are a separate, known matter and would hide everything else about the program)
    let mut groups: Vec<Vec<&str>> = Vec::new();
    for w in WORDS {
        let key = |x: &str| x.to_lowercase().replace('_', "");
        match groups.iter_mut().find(|g| g.len() < 6 && g.iter().all(|o| key(o) != key(w))) {
            Some(g) => g.push(w),
            None => groups.push(vec![w]),
        }
    }
    // keywords as labels, 6 per program, in every position
    for (k, chunk) in groups.iter().enumerate() {
        let fields: Vec<String> = chunk.iter().enumerate().map(|(i, w)| format!("\"{w}\" : {}", ["nat", "text", "opt nat8", "bool", "int", "principal"][i % 6])).collect();
        let cases: Vec<String> = chunk.iter().enumerate().map(|(i, w)| if i % 2 == 0 { format!("\"{w}\"") } else { format!("\"{w}\" : nat") }).collect();
        let meths: Vec<String> = chunk.iter().map(|w| format!("\"{w}\" : (R) -> (V) query")).collect();
        texts.push((
            format!("keywords-as-labels-{k}"),
            format!("type R = record {{ {} }};\ntype V = variant {{ {} }};\nservice : {{ {} }}", fields.join("; "), cases.join("; "), meths.join("; ")),
        ));
    }
    // keywords as definition names (those Candid accepts unquoted as identifiers)
    for (k, chunk) in groups.iter().enumerate() {
        let ok: Vec<&&str> = chunk.iter().filter(|w| is_ident(w) && !CANDID_TOKENS.contains(w) && !CANDID_PRIMS.contains(w) && **w != "_").collect();
        if ok.is_empty() {
            continue;
        }
        let defs: Vec<String> = ok.iter().enumerate().map(|(i, w)| format!("type {w} = record {{ f{i} : nat; g : opt {} }};", ok[(i + 1) % ok.len()])).collect();
        let meths: Vec<String> = ok.iter().enumerate().map(|(i, w)| format!("m{i} : ({w}) -> ({w})")).collect();
        texts.push((format!("keywords-as-definitions-{k}"), format!("{}\nservice : {{ {} }}", defs.join("\n"), meths.join("; "))));
    }
    // Result-like variants in every spelling, named and anonymous
    let oks = ["Ok", "ok", "OK", "Okay"];
    let errs = ["Err", "err", "ERR", "Error"];
    for (i, o) in oks.iter().enumerate() {
        for (j, e) in errs.iter().enumerate() {
            texts.push((
                format!("result-like-{o}-{e}"),
                format!(
                    "type r{i}{j} = variant {{ {o} : nat; {e} : text }};\ntype s{i}{j} = variant {{ {o}; {e} : text }};\ntype t{i}{j} = variant {{ {o} : nat; {e} : text; other }};\nservice : {{ named : (r{i}{j}, s{i}{j}) -> (t{i}{j}); anon : () -> (variant {{ {o} : record {{ a : nat }}; {e} : text }}) }}"
                ),
            ));
        }
    }
    // tuple and option shapes
    texts.push(("tuples".into(), "type p = record { nat; text };\ntype q = record { 0 : nat; 2 : text };\ntype u = record { 1 : nat };\ntype o = opt opt nat;\ntype e = record {};\nservice : { f : (p, q, u) -> (o, e, record { nat; record { text; bool } }) }".into()));
    // case conversions of definition and field names
    texts.push(("case-conversions".into(), "type my_type = record { myField : nat; my_field2 : text; MYFIELD : bool };\ntype MyType2 = variant { caseOne; case_two : nat; CASE3 };\ntype HTTPRequest = record { urlPath : text };\ntype x1_y2 = nat;\nservice : { getValue : (my_type) -> (MyType2); get_http : (HTTPRequest) -> (x1_y2) query }".into()));
    // names derived for anonymous types that coincide with definitions, with each other, and with numbered names
    texts.push(("generated-name-vs-definition".into(), "type A = record { b : record { x : nat } };\ntype AB = nat;\ntype AB2 = text;\nservice : { f : (A) -> (AB, AB2) }".into()));
    texts.push(("generated-name-vs-cased-definition".into(), "type a = record { b : variant { x; y } };\ntype a_b = nat;\ntype a_b2 = text;\nservice : { f : (a) -> (a_b, a_b2) }".into()));
    texts.push(("generated-names-collide".into(), "type a_b = record { c : record { x : nat } };\ntype a = record { b_c : record { y : text } };\nservice : { f : (a_b) -> (a) }".into()));
    texts.push(("generated-name-replaces-service".into(), "type B = service { ping : () -> () };\ntype b = record { f : func (B) -> (opt nat) };\nservice : B".into()));
    texts.push(("generated-item-name".into(), "type Item = nat;\ntype t_ = vec record { x : Item; y : vec record { z : text } };\ntype t_Item = bool;\nservice : { f : (t_) -> (Item, t_Item) }".into()));
    let mut out = Vec::new();
    for (name, text) in texts {
        let t2 = text.clone();
        let r = crate::ctx::catch(move || -> Result<(candid::TypeEnv, Option<candid::types::Type>), String> {
            let ast: candid_parser::syntax::IDLProg = t2.parse().map_err(|e| format!("parse: {e}"))?;
            let mut env = candid::TypeEnv::new();
            let actor = candid_parser::typing::check_prog(&mut env, &ast).map_err(|e| format!("check: {e}"))?;
            Ok((env, actor))
        });
        if let Ok(Ok((env, actor))) = r {
            if let Ok(c) = case_from_checked(text, None, &env, &actor, &format!("catalogue:{name}")) {
                out.push(c);
            }
        }
    }
    out
}

/// The real side of a case: parse + check with candid (None = rejected; monitors count it as excluded).
pub struct Checked {
    pub env: candid::TypeEnv,
    pub actor: Option<candid::types::Type>,
    pub prog: candid_parser::syntax::IDLMergedProg,
}

pub fn check_case(c: &ProgramCase) -> Result<Checked, String> {
    use candid_parser::syntax::{IDLMergedProg, IDLProg};
    if let Some(p) = &c.path {
        let p = p.clone();
        return match crate::ctx::catch(move || candid_parser::typing::check_file(&p)) {
            Ok(Ok((env, actor, prog))) => Ok(Checked { env, actor, prog }),
            Ok(Err(e)) => Err(format!("rejected: {e}")),
            Err(p) => Err(format!("panic: {}", p.sig())),
        };
    }
    let text = c.text.clone();
    let r = crate::ctx::catch(move || -> Result<Checked, String> {
        let ast: IDLProg = text.parse::<IDLProg>().map_err(|e| format!("parse: {e}"))?;
        let mut env = candid::TypeEnv::new();
        let actor = candid_parser::typing::check_prog(&mut env, &ast).map_err(|e| format!("check: {e}"))?;
        Ok(Checked {
            env,
            actor,
            prog: IDLMergedProg::new(ast),
        })
    });
    match r {
        Ok(r) => r,
        Err(p) => Err(format!("panic: {}", p.sig())),
    }
}

/// First line / class of a rejection message (for counters).
pub fn reject_class(m: &str) -> String {
    let first = m.lines().next().unwrap_or("");
    let s: String = first.chars().filter(|c| !c.is_ascii_digit()).take(60).collect();
    s
}
