//! C20 — randomly generated arguments always inhabit the requested types.
//!
//! `candid_parser::random::any(seed, configs, env, types, scope)` must return `Err` or values that
//! (1) are as many as the types, (2) have those types in the reference typing judgement R7 applied
//! to their abstract meaning, (3) come back unchanged (abstractly) from `annotate_types(false, …)`,
//! (4) encode at the types, and the reference decoder R1 reads the same abstract values back.
//! It must never panic or overflow the stack (2 MiB). Result depth/size are measured against the
//! configured budget (maxima in the evidence; only order-of-magnitude excesses are flagged).
//!
//! Calls run on a 2 MiB thread inside the worker. Cases whose types are recursive — where an
//! unbounded recursion is conceivable — run in a forked child instead, so that a stack overflow is
//! reported as a finding with its witness and does not take the worker (and its evidence) down.
use super::common::*;
use crate::conv::*;
use crate::ctx::{catch, hex, on_thread, Ctx};
use crate::gen::types::*;
use crate::gen::values::min_costs;
use crate::model::misc::has_type;
use crate::model::wire::{decode, DecErr};
use crate::model::*;
use crate::rng::{hash_str, Rng};
use candid_parser::configs::{Configs, Scope, ScopePos};
use serde_json::{json, Value};

#[derive(Clone, Debug)]
struct Case {
    env: REnv,
    types: Vec<RType>,
    names: Names,
    seed: Vec<u8>,
    seed_kind: &'static str,
    toml: String,
    /// (method, Some(true)=arg / Some(false)=ret / None)
    scope: Option<(String, Option<bool>)>,
    /// top-level budget when nothing more specific can override it: (depth, size, width)
    budget: Option<(i64, i64, i64)>,
    /// the config contains a `value` list that is well-typed for argument k
    value_for_arg: Option<usize>,
    config_class: String,
}

// ------------------------------------------------------------------------------------------
// static facts about the requested types (from the model; no candid involved)

struct Facts {
    recursive: bool,
    vec_recursion: bool,
    uninhabited: bool,
    has_empty: bool,
    has_empty_variant: bool,
    /// generous bound on the nesting needed to finish every definition once
    static_depth: usize,
    /// longest completion the generator is forced into after the depth budget is spent (see `facts`)
    forced_depth: usize,
}

fn reachable(env: &REnv, ts: &[RType]) -> Vec<bool> {
    let mut seen = vec![false; env.0.len()];
    fn go(env: &REnv, t: &RType, seen: &mut Vec<bool>) {
        match t {
            RType::Ref(i) => {
                if *i < seen.len() && !seen[*i] {
                    seen[*i] = true;
                    go(env, &env.0[*i], seen)
                }
            }
            // values of reference types are just principals: their argument types are never generated
            RType::Opt(x) | RType::Vec(x) => go(env, x, seen),
            RType::Record(fs) | RType::Variant(fs) => fs.iter().for_each(|f| go(env, &f.1, seen)),
            _ => {}
        }
    }
    for t in ts {
        go(env, t, &mut seen);
    }
    seen
}

fn facts(env: &REnv, ts: &[RType]) -> Facts {
    let reach = reachable(env, ts);
    let n = env.0.len();
    // edges between definitions through value positions; `through_vec` marks edges below a vec
    fn refs(t: &RType, under_vec: bool, out: &mut Vec<(usize, bool)>) {
        match t {
            RType::Ref(i) => out.push((*i, under_vec)),
            RType::Opt(x) => refs(x, under_vec, out),
            RType::Vec(x) => refs(x, true, out),
            RType::Record(fs) | RType::Variant(fs) => fs.iter().for_each(|f| refs(&f.1, under_vec, out)),
            _ => {}
        }
    }
    let mut edge = vec![vec![(false, false); n]; n]; // (reachable, some path goes under a vec)
    for i in 0..n {
        let mut r = Vec::new();
        refs(&env.0[i], false, &mut r);
        for (j, v) in r {
            if j < n {
                edge[i][j].0 = true;
                edge[i][j].1 |= v;
            }
        }
    }
    for k in 0..n {
        for i in 0..n {
            for j in 0..n {
                if edge[i][k].0 && edge[k][j].0 {
                    let v = edge[i][k].1 || edge[k][j].1 || edge[i][j].1;
                    edge[i][j] = (true, v);
                }
            }
        }
    }
    let recursive = (0..n).any(|i| reach[i] && edge[i][i].0);
    let vec_recursion = (0..n).any(|i| reach[i] && edge[i][i].0 && edge[i][i].1);
    let costs = min_costs(env);
    let vg_inhabited = |t: &RType| crate::gen::values::cost(t, &costs) < crate::gen::values::INF;
    let uninhabited = ts.iter().any(|t| !vg_inhabited(t));
    fn scan(t: &RType, f: &mut dyn FnMut(&RType)) {
        f(t);
        match t {
            RType::Opt(x) | RType::Vec(x) => scan(x, f),
            RType::Record(fs) | RType::Variant(fs) => fs.iter().for_each(|x| scan(&x.1, f)),
            _ => {}
        }
    }
    let mut has_empty = false;
    let mut has_empty_variant = false;
    let mut look = |t: &RType| match t {
        RType::Empty => has_empty = true,
        RType::Variant(fs) if fs.is_empty() => has_empty_variant = true,
        _ => {}
    };
    for t in ts {
        scan(t, &mut look);
    }
    for i in 0..n {
        if reach[i] {
            scan(&env.0[i], &mut look);
        }
    }
    fn depth(t: &RType) -> usize {
        match t {
            RType::Opt(x) | RType::Vec(x) => 1 + depth(x),
            RType::Record(fs) | RType::Variant(fs) => 1 + fs.iter().map(|f| depth(&f.1)).max().unwrap_or(0),
            _ => 1,
        }
    }
    // depth the generator still has to produce once the depth budget is used up: options are absent, vectors empty,
    // variants take a case of finite size, records need every field (INF = no finite value that way)
    const INF: usize = usize::MAX / 4;
    fn forced(env: &REnv, t: &RType, stack: &mut Vec<usize>) -> usize {
        match t {
            RType::Ref(i) => {
                if stack.contains(i) {
                    return INF;
                }
                stack.push(*i);
                let r = forced(env, &env.0[*i], stack);
                stack.pop();
                r
            }
            RType::Opt(_) | RType::Vec(_) => 1,
            RType::Record(fs) => fs.iter().map(|f| forced(env, &f.1, stack)).max().unwrap_or(0).saturating_add(1).min(INF),
            RType::Variant(fs) => {
                let finite: Vec<usize> = fs.iter().map(|f| forced(env, &f.1, stack)).filter(|d| *d < INF).collect();
                match finite.iter().max() {
                    Some(m) => m + 1,
                    None => INF,
                }
            }
            _ => 1,
        }
    }
    let mut forced_depth = 0usize;
    {
        let mut visit = |t: &RType| {
            let d = forced(env, t, &mut Vec::new());
            if d < INF {
                forced_depth = forced_depth.max(d);
            }
        };
        for t in ts {
            scan(t, &mut visit);
        }
        for i in 0..n {
            if reach[i] {
                scan(&env.0[i], &mut visit);
            }
        }
    }
    let static_depth = ts.iter().map(depth).max().unwrap_or(0)
        + (0..n).filter(|i| reach[*i]).map(|i| depth(&env.0[i])).sum::<usize>();
    Facts {
        recursive,
        vec_recursion,
        uninhabited,
        has_empty,
        has_empty_variant,
        static_depth,
        forced_depth,
    }
}

fn type_class(f: &Facts) -> &'static str {
    if f.has_empty_variant {
        "variant-empty"
    } else if f.has_empty {
        "empty"
    } else if f.uninhabited && f.recursive {
        "uninhabited-recursive"
    } else if f.vec_recursion {
        "vec-recursion"
    } else if f.recursive {
        "recursive"
    } else {
        "finite"
    }
}

// ------------------------------------------------------------------------------------------
// generation of cases

fn pp_num(n: u32) -> String {
    // the spelling candid's `Label::Id` has in config paths: groups of three separated by `_`
    let s = n.to_string();
    let mut groups: Vec<String> = Vec::new();
    let b = s.as_bytes();
    let mut end = b.len();
    while end > 0 {
        let start = end.saturating_sub(3);
        groups.push(s[start..end].to_string());
        end = start;
    }
    groups.reverse();
    groups.join("_")
}

fn toml_key(s: &str) -> String {
    // basic string: escape what TOML requires
    let mut o = String::from("\"");
    for c in s.chars() {
        match c {
            '"' => o.push_str("\\\""),
            '\\' => o.push_str("\\\\"),
            c if (c as u32) < 0x20 || c as u32 == 0x7f => o.push_str(&format!("\\u{:04X}", c as u32)),
            c => o.push(c),
        }
    }
    o.push('"');
    o
}

/// Text of a Candid value of type `t` (own printer; numeric labels), for `value` lists.
fn value_text(env: &REnv, t: &RType, rng: &mut Rng, depth: usize) -> Option<String> {
    let t = env.unfold(t)?;
    Some(match t {
        RType::Null => "null".into(),
        RType::Bool => if rng.bool() { "true" } else { "false" }.into(),
        RType::Nat => rng.pick(&["0", "42", "1_000", "340282366920938463463374607431768211456"]).to_string(),
        RType::Int => rng.pick(&["0", "-7", "+5", "42"]).to_string(),
        RType::Nat8 => rng.pick(&["0", "255", "7"]).to_string(),
        RType::Nat16 => "65535".into(),
        RType::Nat32 => "4294967295".into(),
        RType::Nat64 => "18446744073709551615".into(),
        RType::Int8 => rng.pick(&["-128", "127"]).to_string(),
        RType::Int16 => "-32768".into(),
        RType::Int32 => "-1".into(),
        RType::Int64 => "-9223372036854775808".into(),
        RType::Float32 | RType::Float64 => rng.pick(&["1.5", "-0.25", "1e3", "0.0"]).to_string(),
        RType::Text => rng.pick(&["\"\"", "\"hello\"", "\"a\\\"b\"", "\"\\u{1F600}\""]).to_string(),
        RType::Reserved => rng.pick(&["null", "42", "\"anything\""]).to_string(),
        RType::Empty | RType::Future => return None,
        RType::Principal => "principal \"aaaaa-aa\"".into(),
        RType::Service(_) => "service \"2vxsx-fae\"".into(),
        RType::Func { .. } => "func \"aaaaa-aa\".method".into(),
        RType::Opt(x) => {
            if depth == 0 || rng.bool() {
                "null".into()
            } else {
                match env.unfold(x) {
                    // `opt <number>` needs an annotation-free spelling that the parser accepts
                    Some(_) => format!("opt {}", value_text(env, x, rng, depth - 1)?),
                    None => return None,
                }
            }
        }
        RType::Vec(x) => {
            if depth == 0 || rng.bool() {
                "vec {}".into()
            } else {
                let a = value_text(env, x, rng, depth - 1)?;
                let b = value_text(env, x, rng, depth - 1)?;
                format!("vec {{ {a}; {b} }}")
            }
        }
        RType::Record(fs) => {
            if depth == 0 && !fs.is_empty() {
                return None;
            }
            // the value grammar of the pinned tree overflows on the id 2^32-1 (a C13 finding, not this property's)
            if fs.iter().any(|f| f.0 == u32::MAX) {
                return None;
            }
            let mut parts = Vec::new();
            for (id, ft) in fs {
                parts.push(format!("{id} = {}", value_text(env, ft, rng, depth.saturating_sub(1))?));
            }
            format!("record {{ {} }}", parts.join("; "))
        }
        RType::Variant(fs) => {
            if fs.is_empty() || depth == 0 {
                return None;
            }
            let (id, ft) = rng.pick(fs);
            format!("variant {{ {id} = {} }}", value_text(env, ft, rng, depth - 1)?)
        }
        RType::Ref(_) => return None,
    })
}

const ILL_VALUES: &[&str] = &["\"text\"", "true", "-1", "300", "1.5", "null", "vec {}", "record {}", "variant { a }", "principal \"aaaaa-aa\"", "opt 1", "(", "", "blob \"ab\""];

const TEXT_KINDS: &[&str] = &["ascii", "emoji", "name", "name.cn", "path", "country", "company", "bs", "klingon"];

fn toml_str_list(xs: &[String]) -> String {
    let quoted: Vec<String> = xs.iter().map(|x| toml_key(x)).collect();
    format!("[{}]", quoted.join(", "))
}

fn gen_seed(rng: &mut Rng) -> (Vec<u8>, &'static str) {
    match rng.below(10) {
        0 => (vec![], "empty"),
        1 => {
            let n = 1 + rng.usize(8);
            (rng.bytes(n), "short")
        }
        2 => {
            let n = *rng.pick(&[1usize, 16, 256, 4096]);
            (vec![0u8; n], "all-zero")
        }
        3 => {
            let n = *rng.pick(&[1usize, 16, 256, 4096]);
            (vec![0xffu8; n], "all-0xff")
        }
        4 | 5 => {
            let n = 1024 + rng.usize(7 * 1024);
            (rng.bytes(n), "long")
        }
        6 => {
            // a repeated small pattern
            let pat = {
                let n = 1 + rng.usize(4);
                rng.bytes(n)
            };
            let n = 64 + rng.usize(2000);
            ((0..n).map(|i| pat[i % pat.len()]).collect(), "pattern")
        }
        _ => {
            let n = 16 + rng.usize(240);
            (rng.bytes(n), "random")
        }
    }
}

fn label_text(id: u32, names: &Names) -> String {
    match names.get(&id) {
        Some(n) => n.clone(),
        None => pp_num(id),
    }
}

fn gen_config(rng: &mut Rng, env: &REnv, types: &[RType], names: &Names) -> (String, Option<(String, Option<bool>)>, Option<(i64, i64, i64)>, Option<usize>, String) {
    let mut top: Vec<String> = Vec::new();
    let mut tables: Vec<String> = Vec::new();
    let mut class: Vec<&str> = Vec::new();
    let mut depth = 10i64;
    let mut size = 100i64;
    let mut width = 10i64;
    let mut budget_known = true;
    let mut value_for_arg = None;
    if rng.chance(7, 10) {
        depth = *rng.pick(&[-1i64, 0, 1, 2, 3, 5, 10, 20, 50]);
        top.push(format!("depth = {depth}"));
        class.push("depth");
    }
    if rng.chance(6, 10) {
        size = *rng.pick(&[-1i64, 0, 1, 5, 20, 100, 500]);
        top.push(format!("size = {size}"));
        class.push("size");
    }
    if rng.chance(5, 10) {
        width = *rng.pick(&[0i64, 1, 2, 3, 10, 50]);
        top.push(format!("width = {width}"));
        class.push("width");
    }
    if rng.chance(3, 10) {
        let (l, r) = match rng.below(8) {
            0 => (0i64, 0i64),
            1 => (-10, 10),
            2 => (i64::MIN, i64::MAX),
            3 => (250, 260),
            4 => (-1, 0),
            5 => (1 << 40, 1 << 41),
            6 => {
                class.push("range-inverted");
                (10, -10)
            }
            _ => {
                let a = rng.next() as i64 >> rng.below(60);
                let b = rng.next() as i64 >> rng.below(60);
                (a.min(b), a.max(b))
            }
        };
        top.push(format!("range = [{l}, {r}]"));
        class.push("range");
    }
    if rng.chance(4, 10) {
        top.push(format!("text = {}", toml_key(*rng.pick(TEXT_KINDS))));
        class.push("text");
    }
    if rng.chance(1, 12) {
        // a list applied to EVERY type: mostly ill-typed somewhere
        let vals: Vec<String> = (0..1 + rng.usize(3)).map(|_| rng.pick(ILL_VALUES).to_string()).collect();
        top.push(format!("value = {}", toml_str_list(&vals)));
        class.push("value-everywhere");
    }
    let prefix = if rng.bool() { "random." } else { "" };
    // per-type / per-label / per-argument tables
    if rng.chance(4, 10) {
        match rng.below(6) {
            0 => {
                tables.push(format!("[{prefix}nat]\nrange = [5, 9]"));
                tables.push(format!("[{prefix}int8]\nrange = [-3, 3]"));
                class.push("range-by-type");
            }
            1 => {
                tables.push(format!("[{prefix}text]\ntext = {}\nwidth = {}", toml_key(*rng.pick(TEXT_KINDS)), rng.below(20)));
                class.push("text-by-type");
            }
            2 => {
                tables.push(format!("[{prefix}vec]\nwidth = {}", rng.below(4)));
                class.push("width-by-type");
            }
            3 if !env.0.is_empty() => {
                let i = rng.usize(env.0.len());
                tables.push(format!("[{prefix}{}]\ndepth = {}\nsize = {}", var_name(i), rng.below(6), rng.below(30)));
                budget_known = false;
                class.push("budget-by-def");
            }
            4 if !types.is_empty() => {
                // values for one argument position
                let k = rng.usize(types.len());
                let well = rng.chance(2, 3);
                let mut vals: Vec<String> = Vec::new();
                for _ in 0..1 + rng.usize(3) {
                    let v = if well {
                        value_text(env, &types[k], rng, 3)
                    } else {
                        Some(rng.pick(ILL_VALUES).to_string())
                    };
                    if let Some(v) = v {
                        vals.push(v);
                    }
                }
                if !vals.is_empty() {
                    tables.push(format!("[{prefix}{}]\nvalue = {}", toml_key(&k.to_string()), toml_str_list(&vals)));
                    if well {
                        value_for_arg = Some(k);
                        class.push("value-well-typed-arg");
                    } else {
                        class.push("value-ill-typed-arg");
                    }
                }
            }
            _ => {
                // by field label
                let mut labels: Vec<(u32, RType)> = Vec::new();
                for t in env.0.iter().chain(types.iter()) {
                    if let RType::Record(fs) | RType::Variant(fs) = t {
                        labels.extend(fs.iter().cloned());
                    }
                }
                if !labels.is_empty() {
                    let (id, ft) = rng.pick(&labels).clone();
                    let key = toml_key(&label_text(id, names));
                    if rng.bool() {
                        if let Some(v) = value_text(env, &ft, rng, 2) {
                            tables.push(format!("[{prefix}{key}]\nvalue = {}", toml_str_list(&[v])));
                            class.push("value-by-label");
                        }
                    } else {
                        tables.push(format!("[{prefix}{key}]\nwidth = 1\nrange = [1, 2]"));
                        class.push("range-by-label");
                    }
                }
            }
        }
    }
    // method / argument scoping
    let mut scope = None;
    if rng.chance(3, 10) {
        let method = rng.pick(&["m", "get", "with space", "query"]).to_string();
        let pos = match rng.below(3) {
            0 => Some(true),
            1 => Some(false),
            _ => None,
        };
        let in_config = rng.chance(3, 4);
        if in_config {
            let mkey = toml_key(&format!("func:{method}"));
            match pos {
                Some(is_arg) if rng.bool() => {
                    let akey = toml_key(&format!("{}:{}", if is_arg { "arg" } else { "ret" }, rng.below(3)));
                    tables.push(format!("[{prefix}{mkey}.{akey}]\nwidth = 2\ntext = \"ascii\""));
                }
                _ => tables.push(format!("[{prefix}{mkey}]\nwidth = 3\nrange = [0, 1]")),
            }
            tables.push(format!("[{prefix}{mkey}.nat8]\nrange = [1, 1]"));
        }
        let given = rng.chance(3, 4);
        if given {
            scope = Some((method, pos));
            class.push("scoped");
        }
    }
    let mut toml = String::new();
    if !prefix.is_empty() && !top.is_empty() {
        toml.push_str("[random]\n");
    }
    for l in &top {
        toml.push_str(l);
        toml.push('\n');
    }
    for t in &tables {
        toml.push_str(t);
        toml.push('\n');
    }
    if class.iter().any(|c| c.contains("value") || *c == "scoped" || *c == "width-by-type" || *c == "text-by-type") {
        // these can override width; depth/size stay top-level
    }
    let budget = if budget_known { Some((depth, size, width)) } else { None };
    let mut c = class.join("+");
    if c.is_empty() {
        c = "default".into();
    }
    (toml, scope, budget, value_for_arg, c)
}

fn special_types(rng: &mut Rng) -> (REnv, Vec<RType>) {
    let nat = RType::Nat;
    match rng.below(16) {
        0 => (REnv::new(), vec![RType::Empty]),
        1 => (REnv::new(), vec![RType::Variant(vec![])]),
        2 => (REnv::new(), vec![RType::record(vec![(0, RType::Empty)])]),
        3 => (REnv::new(), vec![RType::opt(RType::Empty), RType::vec(RType::Empty)]),
        4 => (REnv::new(), vec![RType::variant(vec![(0, RType::Empty), (1, nat)])]),
        5 => (REnv::new(), vec![RType::opt(RType::Variant(vec![])), RType::vec(RType::Variant(vec![]))]),
        // list
        6 => (
            REnv(vec![RType::opt(RType::record(vec![(0, nat), (1, RType::Ref(0))]))]),
            vec![RType::Ref(0)],
        ),
        // tree
        7 => (
            REnv(vec![RType::variant(vec![
                (label(b"leaf"), RType::Null),
                (label(b"node"), RType::record(vec![(0, RType::Ref(0)), (1, RType::Ref(0))])),
            ])]),
            vec![RType::Ref(0)],
        ),
        // recursion through vec only
        8 => (REnv(vec![RType::vec(RType::Ref(0))]), vec![RType::Ref(0)]),
        9 => (
            REnv(vec![RType::record(vec![(0, RType::Text), (1, RType::vec(RType::Ref(0)))])]),
            vec![RType::Ref(0)],
        ),
        // uninhabited recursion
        10 => (REnv(vec![RType::record(vec![(0, RType::Ref(0))])]), vec![RType::Ref(0)]),
        11 => (REnv(vec![RType::variant(vec![(0, RType::Ref(0))])]), vec![RType::opt(RType::Ref(0))]),
        // a recursive case listed first, the base case is large
        12 => (
            REnv(vec![RType::variant(vec![
                (0, RType::Ref(0)),
                (1, RType::tuple((0..25).map(|_| RType::Nat8).collect())),
            ])]),
            vec![RType::Ref(0)],
        ),
        // mutual recursion
        13 => (
            REnv(vec![
                RType::record(vec![(0, RType::opt(RType::Ref(1)))]),
                RType::variant(vec![(0, RType::Ref(0)), (1, RType::Bool)]),
            ]),
            vec![RType::Ref(0), RType::Ref(1)],
        ),
        // reference types
        14 => (
            REnv(vec![RType::func(vec![RType::Ref(0)], vec![], vec![Mode::Oneway])]),
            vec![
                RType::Ref(0),
                RType::service(vec![("m".into(), RType::Ref(0))]),
                RType::Principal,
            ],
        ),
        _ => {
            let d = 5 + rng.usize(60);
            (REnv::new(), vec![gen_deep(rng, d)])
        }
    }
}

fn label(s: &[u8]) -> u32 {
    crate::model::misc::label_hash(std::str::from_utf8(s).unwrap())
}

fn gen_case(rng: &mut Rng, special: bool) -> Case {
    let (env, types) = if special {
        special_types(rng)
    } else {
        let cfg = TypeCfg {
            max_defs: 4,
            max_depth: 1 + rng.usize(4),
            max_fields: 1 + rng.usize(4),
            refs: rng.chance(2, 3),
            empty: rng.chance(1, 3),
            ref_pct: *rng.pick(&[10, 25, 50]),
        };
        let env = gen_env(rng, &cfg);
        let n = rng.usize(4);
        let types = gen_types(rng, &cfg, &env, n);
        (env, types)
    };
    // reference types are only legal when their methods are functions
    let types: Vec<RType> = types.into_iter().filter(|t| crate::model::wire::encodable(&env, t)).collect();
    let names = if rng.chance(1, 3) { gen_names(rng, &env, &types) } else { Names::new() };
    let (seed, seed_kind) = gen_seed(rng);
    let (toml, scope, budget, value_for_arg, config_class) = gen_config(rng, &env, &types, &names);
    Case {
        env,
        types,
        names,
        seed,
        seed_kind,
        toml,
        scope,
        budget,
        value_for_arg,
        config_class,
    }
}

// ------------------------------------------------------------------------------------------
// running and judging one call (no access to Ctx: this may run in a forked child)

#[derive(Default)]
struct Verdict {
    outcome: String,
    findings: Vec<(String, String)>,
    counters: Vec<String>,
    maxima: Vec<(String, f64)>,
}

impl Verdict {
    fn to_json(&self) -> String {
        json!({"outcome": self.outcome, "findings": self.findings, "counters": self.counters, "maxima": self.maxima}).to_string()
    }
    fn from_json(s: &str) -> Option<Verdict> {
        let v: Value = serde_json::from_str(s).ok()?;
        Some(Verdict {
            outcome: v["outcome"].as_str()?.to_string(),
            findings: v["findings"]
                .as_array()?
                .iter()
                .filter_map(|p| Some((p[0].as_str()?.to_string(), p[1].as_str()?.to_string())))
                .collect(),
            counters: v["counters"].as_array()?.iter().filter_map(|c| c.as_str().map(|s| s.to_string())).collect(),
            maxima: v["maxima"]
                .as_array()?
                .iter()
                .filter_map(|p| Some((p[0].as_str()?.to_string(), p[1].as_f64()?)))
                .collect(),
        })
    }
}

/// equality of abstract values at a type; positions of type `reserved` hold no information
fn same_at(env: &REnv, t: &RType, a: &RValue, b: &RValue) -> bool {
    let Some(t) = env.unfold(t) else { return false };
    match (t, a, b) {
        (RType::Reserved, _, _) => true,
        (RType::Opt(x), RValue::Opt(p), RValue::Opt(q)) => same_at(env, x, p, q),
        (RType::Vec(x), RValue::Vec(p), RValue::Vec(q)) => p.len() == q.len() && p.iter().zip(q.iter()).all(|(u, v)| same_at(env, x, u, v)),
        (RType::Record(fs), RValue::Record(p), RValue::Record(q)) => {
            p.len() == q.len()
                && p.len() == fs.len()
                && fs
                    .iter()
                    .zip(p.iter().zip(q.iter()))
                    .all(|((i, ft), ((j, u), (k, v)))| i == j && j == k && same_at(env, ft, u, v))
        }
        (RType::Variant(fs), RValue::Variant(i, u), RValue::Variant(j, v)) => {
            i == j
                && match fs.iter().find(|f| f.0 == *i) {
                    Some((_, ft)) => same_at(env, ft, u, v),
                    None => false,
                }
        }
        (_, x, y) => x == y,
    }
}

fn stable_loc(loc: &str) -> String {
    if loc.contains("/out/grammar.rs") {
        return "candid_parser/grammar.rs(generated)".into();
    }
    match loc.find("/rust/") {
        Some(i) => loc[i + 6..].to_string(),
        None => match loc.find("/registry/src/") {
            Some(i) => loc[i + 14..].splitn(2, '/').nth(1).unwrap_or(loc).to_string(),
            None => loc.to_string(),
        },
    }
}

fn judge(c: &Case) -> Verdict {
    let mut v = Verdict::default();
    let f = facts(&c.env, &c.types);
    let tclass = type_class(&f);
    let (cenv, cts) = candid_side(&c.env, &c.types, Some(&c.names));
    let configs: Configs = match c.toml.parse::<Configs>() {
        Ok(x) => x,
        Err(_) => {
            v.outcome = "bad-toml".into();
            v.counters.push("excluded:toml-rejected".into());
            return v;
        }
    };
    let scope = c.scope.as_ref().map(|(m, pos)| Scope {
        method: m.as_str(),
        position: pos.map(|is_arg| if is_arg { ScopePos::Arg } else { ScopePos::Ret }),
    });
    let res = catch(|| candid_parser::random::any(&c.seed, configs, &cenv, &cts, &scope));
    let args = match res {
        Err(p) => {
            v.outcome = "panic".into();
            let loc = stable_loc(&p.location);
            let cause = if p.message.contains("Recursion limit exceeded") {
                // the recursion only stopped at candid's stack guard: name the recursion, not other features
                format!(
                    "type-class={}",
                    if f.uninhabited && f.recursive {
                        "uninhabited-recursive"
                    } else if f.vec_recursion {
                        "vec-recursion"
                    } else if f.recursive {
                        "recursive"
                    } else {
                        tclass
                    }
                )
            } else if p.message.contains("not implemented") {
                "type-class=empty".to_string()
            } else if p.message.contains("int_in_range` requires a non-empty range") {
                if c.config_class.contains("range-inverted") {
                    "config=range-inverted".to_string()
                } else {
                    format!("config={}", c.config_class)
                }
            } else if loc.contains("random.rs") && (p.message.contains("subtract with overflow") || p.message.contains("index out of bounds")) {
                if f.has_empty_variant {
                    "type-class=variant-empty".to_string()
                } else if f.has_empty {
                    "type-class=variant-all-weights-zero(empty-case)".to_string()
                } else {
                    format!("type-class={tclass}")
                }
            } else {
                format!("type-class={tclass}")
            };
            v.findings.push((
                format!("panic|{loc}|{cause}"),
                format!("random::any panicked at {}: {}", p.location, p.message.lines().next().unwrap_or("")),
            ));
            return v;
        }
        Ok(Err(e)) => {
            v.outcome = "err".into();
            v.counters.push(format!("err:{}", err_class(&e).chars().take(40).collect::<String>()));
            if !f.uninhabited && c.config_class == "default" {
                v.counters.push("anomaly:err-on-inhabited-types-with-default-config".into());
            }
            return v;
        }
        Ok(Ok(a)) => a,
    };
    v.outcome = "ok".into();
    if args.args.len() != c.types.len() {
        v.findings.push((
            "arity".into(),
            format!("{} values for {} types", args.args.len(), c.types.len()),
        ));
        return v;
    }
    let vals: Vec<RValue> = args.args.iter().map(model_value).collect();
    // (2) typing
    for (k, (val, t)) in vals.iter().zip(c.types.iter()).enumerate() {
        if !has_type(&c.env, val, t) {
            v.findings.push((
                format!("ill-typed|{}|config={}", shape(&c.env, t, 2), if c.config_class.contains("value") { "value-list" } else { "no-value-list" }),
                format!("argument {k}: {} does not have type {} (env: {})", clipv(val), t, c.env),
            ));
            return v;
        }
    }
    // (3) annotate_types(false) returns the same abstract values
    match catch(|| args.clone().annotate_types(false, &cenv, &cts)) {
        Err(p) => {
            v.findings.push((format!("annotate|panic|{}", stable_loc(&p.location)), p.message.clone()));
            return v;
        }
        Ok(Err(e)) => {
            v.findings.push((
                format!("annotate|rejected|{}", err_class(&e)),
                format!("annotate_types(false) rejects the generated values: {e}"),
            ));
            return v;
        }
        Ok(Ok(a2)) => {
            let vals2: Vec<RValue> = a2.args.iter().map(model_value).collect();
            let same = vals2.len() == vals.len() && c.types.iter().zip(vals.iter().zip(vals2.iter())).all(|(t, (x, y))| same_at(&c.env, t, x, y));
            if !same {
                v.findings.push((
                    "annotate|changes-value".into(),
                    format!("annotate_types(false) changed the values: {:?}", diff_all(&vals, &vals2)),
                ));
                return v;
            }
            if a2 != args && !vals.iter().any(has_nan) {
                v.counters.push("note:annotate-changes-representation".into());
            }
        }
    }
    // (4) encodes, and the reference decoder reads the same values
    match catch(|| args.to_bytes_with_types(&cenv, &cts)) {
        Err(p) => {
            v.findings.push((format!("encode|panic|{}", stable_loc(&p.location)), p.message.clone()));
            return v;
        }
        Ok(Err(e)) => {
            v.findings.push((
                format!("encode|rejected|{}", err_class(&e)),
                format!("to_bytes_with_types rejects the generated values: {e}"),
            ));
            return v;
        }
        Ok(Ok(bytes)) => match decode(&bytes) {
            Err(DecErr::OverLimit(_)) => v.counters.push("excluded:decode-over-limit".into()),
            Err(DecErr::Malformed(m)) => {
                v.findings.push((
                    "encode|malformed".into(),
                    format!("reference decoder: {m}; bytes {}", hex(&bytes)),
                ));
                return v;
            }
            Ok(d) => {
                let same = d.values.len() == vals.len()
                    && c.types.iter().zip(vals.iter().zip(d.values.iter())).all(|(t, (x, y))| same_at(&c.env, t, x, y));
                if !same {
                    v.findings.push((
                        "encode|different-values".into(),
                        format!("decoded values differ from the generated ones: {:?}", diff_all(&vals, &d.values)),
                    ));
                    return v;
                }
                v.counters.push("agree:typed+annotated+encoded".into());
            }
        },
    }
    if let Some(k) = c.value_for_arg {
        let _ = k;
        v.counters.push("cover:ok-with-well-typed-value-list".into());
    }
    // budget
    let vdepth = vals.iter().map(|x| x.depth()).max().unwrap_or(0) as f64;
    let vnodes = vals.iter().map(|x| x.node_count()).sum::<usize>() as f64;
    if let Some((d, s, w)) = c.budget {
        let allowed_depth = (d.max(0) as f64) + f.static_depth as f64 + 2.0;
        let ratio = vdepth / allowed_depth;
        let key = if f.vec_recursion { "depth-ratio:vec-recursion" } else { "depth-ratio" };
        v.maxima.push((key.into(), ratio));
        if ratio > 20.0 {
            v.findings.push((
                format!("budget|depth|type-class={tclass}"),
                format!(
                    "value depth {vdepth} with configured depth {d} and static type depth {} (ratio {ratio:.1})",
                    f.static_depth
                ),
            ));
        }
        // the configured depth itself: every type node on a path costs one unit, and below zero only forced
        // completions (absent option, empty vector, a finite variant case, all record fields) are produced
        let bound = d.max(0) as f64 + f.forced_depth as f64 + 1.0;
        v.maxima.push(("value-depth - (depth + forced completion)".into(), vdepth - bound));
        // values supplied through the configuration are the user's own and may be deeper
        if vdepth > bound && !c.config_class.contains("value") {
            v.findings.push((
                format!("budget|depth-exceeds-configured|type-class={tclass}"),
                format!("value depth {vdepth} with configured depth {d}; the longest forced completion of the types is {} (bound {bound})", f.forced_depth),
            ));
        }
        // nodes: vectors and text are bounded by width, not by size; allow width^static_depth
        let per_vec = (w.max(1) as f64 + 1.0).powi(f.static_depth.min(6) as i32);
        let allowed_nodes = (s.max(0) as f64 + 10.0) * per_vec * c.types.len().max(1) as f64;
        let nratio = vnodes / allowed_nodes;
        let key = if f.vec_recursion { "size-ratio:vec-recursion" } else { "size-ratio" };
        v.maxima.push((key.into(), nratio));
        if nratio > 100.0 && !f.vec_recursion {
            v.findings.push((
                format!("budget|size|type-class={tclass}"),
                format!("{vnodes} value nodes with configured size {s}, width {w} (ratio {nratio:.1})"),
            ));
        }
    }
    v.maxima.push(("value-depth".into(), vdepth));
    v.maxima.push(("value-nodes".into(), vnodes));
    v
}

fn has_nan(v: &RValue) -> bool {
    match v {
        RValue::Float32(b) => f32::from_bits(*b).is_nan(),
        RValue::Float64(b) => f64::from_bits(*b).is_nan(),
        RValue::Opt(x) | RValue::Variant(_, x) => has_nan(x),
        RValue::Vec(xs) => xs.iter().any(has_nan),
        RValue::Record(fs) => fs.iter().any(|f| has_nan(&f.1)),
        _ => false,
    }
}

fn clipv(v: &RValue) -> String {
    v.to_string().chars().take(300).collect()
}

const CALL_STACK: usize = 2 << 20;

fn judge_on_small_stack(c: Case) -> Verdict {
    match on_thread(CALL_STACK, move || judge(&c).to_json()) {
        Ok(s) => Verdict::from_json(&s).unwrap_or_default(),
        Err(p) => Verdict {
            outcome: "harness".into(),
            findings: vec![(format!("harness-thread|{}", p.location), p.message)],
            ..Verdict::default()
        },
    }
}

/// A forked copy of this worker that runs the calls: it regenerates each case from the generator
/// state it is sent (9 bytes), runs it on a 2 MiB thread and sends the verdict back. When a call
/// kills it (stack overflow, abort), the parent sees the death, reports it with the witness, and
/// forks a new helper — the worker and its evidence survive. (A fork per case costs ~12 ms here.)
struct Helper {
    pid: i32,
    to_child: i32,
    from_child: i32,
}

unsafe fn read_exact(fd: i32, buf: &mut [u8]) -> bool {
    let mut off = 0usize;
    while off < buf.len() {
        let n = libc::read(fd, buf[off..].as_mut_ptr() as *mut libc::c_void, buf.len() - off);
        if n <= 0 {
            return false;
        }
        off += n as usize;
    }
    true
}
unsafe fn write_all(fd: i32, buf: &[u8]) -> bool {
    let mut off = 0usize;
    while off < buf.len() {
        let n = libc::write(fd, buf[off..].as_ptr() as *const libc::c_void, buf.len() - off);
        if n <= 0 {
            return false;
        }
        off += n as usize;
    }
    true
}

impl Helper {
    fn spawn() -> Option<Helper> {
        unsafe {
            let mut down = [0i32; 2];
            let mut up = [0i32; 2];
            if libc::pipe(down.as_mut_ptr()) != 0 || libc::pipe(up.as_mut_ptr()) != 0 {
                return None;
            }
            let pid = libc::fork();
            if pid < 0 {
                return None;
            }
            if pid == 0 {
                libc::close(down[1]);
                libc::close(up[0]);
                let devnull = libc::open(b"/dev/null\0".as_ptr() as *const libc::c_char, libc::O_WRONLY);
                if devnull >= 0 {
                    libc::dup2(devnull, 2);
                }
                loop {
                    let mut req = [0u8; 9];
                    if !read_exact(down[0], &mut req) {
                        libc::_exit(0);
                    }
                    let state = u64::from_le_bytes(req[..8].try_into().unwrap());
                    let mut rng = Rng(state);
                    let c = gen_case(&mut rng, req[8] != 0);
                    let out = judge_on_small_stack(c).to_json();
                    let len = (out.len() as u32).to_le_bytes();
                    if !write_all(up[1], &len) || !write_all(up[1], out.as_bytes()) {
                        libc::_exit(1);
                    }
                }
            }
            libc::close(down[0]);
            libc::close(up[1]);
            Some(Helper {
                pid,
                to_child: down[1],
                from_child: up[0],
            })
        }
    }
    /// `Err(how it died)`; the helper is gone afterwards.
    fn call(&mut self, state: u64, special: bool) -> Result<String, String> {
        unsafe {
            let mut req = [0u8; 9];
            req[..8].copy_from_slice(&state.to_le_bytes());
            req[8] = special as u8;
            if !write_all(self.to_child, &req) {
                return Err(self.reap());
            }
            // a generous hang detector (never a verdict)
            let mut pfd = libc::pollfd {
                fd: self.from_child,
                events: libc::POLLIN,
                revents: 0,
            };
            let ready = libc::poll(&mut pfd, 1, 120_000);
            if ready == 0 {
                libc::kill(self.pid, libc::SIGKILL);
                self.reap();
                return Err("hang".into());
            }
            let mut len = [0u8; 4];
            if !read_exact(self.from_child, &mut len) {
                return Err(self.reap());
            }
            let mut buf = vec![0u8; u32::from_le_bytes(len) as usize];
            if !read_exact(self.from_child, &mut buf) {
                return Err(self.reap());
            }
            Ok(String::from_utf8_lossy(&buf).to_string())
        }
    }
    fn reap(&mut self) -> String {
        unsafe {
            libc::close(self.to_child);
            libc::close(self.from_child);
            let mut status = 0i32;
            libc::waitpid(self.pid, &mut status, 0);
            self.pid = -1;
            if libc::WIFSIGNALED(status) {
                format!("signal={}", libc::WTERMSIG(status))
            } else {
                format!("exit={}", libc::WEXITSTATUS(status))
            }
        }
    }
}

impl Drop for Helper {
    fn drop(&mut self) {
        if self.pid > 0 {
            unsafe {
                libc::close(self.to_child);
                libc::close(self.from_child);
                let mut status = 0i32;
                libc::waitpid(self.pid, &mut status, 0);
            }
        }
    }
}

fn one_case(ctx: &mut Ctx, rng: &mut Rng, special: bool, helper: &mut Option<Helper>, runaways: &mut std::collections::HashMap<String, u32>) {
    let state = rng.0;
    let c = gen_case(rng, special);
    let f = facts(&c.env, &c.types);
    let tclass = type_class(&f);
    ctx.count(&format!("cover:type-class:{tclass}"));
    ctx.count(&format!("cover:seed:{}", c.seed_kind));
    for part in c.config_class.split('+') {
        ctx.count(&format!("cover:config:{part}"));
    }
    if c.scope.is_some() {
        ctx.count("cover:scope-given");
    }
    let input = json!({
        "env": c.env.to_string(),
        "types": c.types.iter().map(|t| t.to_string()).collect::<Vec<_>>(),
        "names": c.names.iter().map(|(k, v)| format!("{k}={v:?}")).collect::<Vec<_>>(),
        "seed": hex(&c.seed),
        "seed_kind": c.seed_kind,
        "config_toml": c.toml,
        "scope": c.scope.as_ref().map(|(m, p)| format!("{m}/{p:?}")),
    });
    // Shapes on which the generator is known to recurse until the stack guard stops it (each such call
    // burns the whole 2 MiB stack with quadratic work: 0.1 s in debug, seconds in release builds). Once a
    // shape class has two witnesses only every sixteenth case of that class is still run.
    let risk: Option<String> = if f.recursive && f.uninhabited {
        Some("uninhabited-recursive".into())
    } else if f.vec_recursion && c.seed.len() >= 1024 {
        Some("vec-recursion+long-seed".into())
    } else if f.recursive && special {
        Some(format!("special:{}", shape(&c.env, &c.types[0], 3)))
    } else {
        None
    };
    if let Some(k) = &risk {
        if runaways.get(k).copied().unwrap_or(0) >= 2 && !rng.chance(1, 16) {
            ctx.count("skipped:known-runaway-shape");
            return;
        }
    }
    if helper.is_none() {
        *helper = Helper::spawn();
        ctx.count("helper:spawned");
    }
    let v = match helper.as_mut() {
        None => {
            // no helper process available: run in the worker itself (a stack overflow then ends the worker)
            ctx.count("ran:in-process");
            judge_on_small_stack(c.clone())
        }
        Some(h) => match h.call(state, special) {
            Ok(s) => Verdict::from_json(&s).unwrap_or_else(|| Verdict {
                outcome: "harness".into(),
                counters: vec!["anomaly:helper-output-unreadable".into()],
                ..Verdict::default()
            }),
            Err(death) => {
                *helper = None;
                if death == "hang" {
                    Verdict {
                        outcome: "hang".into(),
                        counters: vec!["anomaly:helper-silent-for-120s".into()],
                        ..Verdict::default()
                    }
                } else {
                    Verdict {
                        outcome: "died".into(),
                        findings: vec![(
                            format!("process-death|{death}|type-class={tclass}"),
                            format!(
                                "random::any on a {CALL_STACK}-byte stack killed the process ({death}: 6 = abort after Rust's stack-overflow report, 11 = SIGSEGV) instead of returning Err"
                            ),
                        )],
                        ..Verdict::default()
                    }
                }
            }
        },
    };
    if let Some(k) = risk {
        let runaway = v.outcome == "died" || v.findings.iter().any(|(_, w)| w.contains("Recursion limit exceeded"));
        if runaway {
            *runaways.entry(k).or_insert(0) += 1;
        }
    }
    ctx.count(&format!("outcome:{}", v.outcome));
    for k in &v.counters {
        ctx.count(k);
    }
    for (k, x) in &v.maxima {
        ctx.max(k, *x);
    }
    for (sig, what) in &v.findings {
        ctx.violation(sig, what, input.clone());
    }
    let shapes: Vec<String> = c.types.iter().map(|t| shape(&c.env, t, 3)).collect();
    ctx.nontrivial(hash_str(&format!("{shapes:?}|{}|{}|{}", c.seed_kind, c.config_class, v.outcome)));
    ctx.sample(|| input.clone());
}

pub fn run(ctx: &mut Ctx) {
    let mut helper: Option<Helper> = None;
    let mut runaways = std::collections::HashMap::new();
    ctx.cases("generated-types", 0.75, |ctx, rng| one_case(ctx, rng, false, &mut helper, &mut runaways));
    ctx.cases("special-types", 0.25, |ctx, rng| one_case(ctx, rng, true, &mut helper, &mut runaways));
}
