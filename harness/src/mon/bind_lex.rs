//! Small lexers for the two target languages that have no compiler in this sandbox (C19).
//!
//! They follow the languages' *lexical* grammars only as far as the generated bindings can exercise
//! them: comments, string/char/template literals with their escape rules, identifiers, numbers,
//! punctuation. Anything the real lexer would reject (unterminated literal or comment, illegal
//! escape, a character that cannot start a token) is a `LexError`.
//!   TypeScript: ECMAScript 2023 lexical grammar §12 (line terminators LF CR LS PS; `//`, `/* */`
//!     not nesting; '…' "…" with escapes, no raw LF/CR; legacy octal escapes are errors in TS and in
//!     strict mode; template literals with `${ }`).
//!   Motoko: motoko/src/mo_frontend/source_lexer.mll (line comment to LF; `/* */` nesting; text
//!     literals "…" with escapes \n \r \t \\ \' \" \HH \u{H+}, no raw control characters; char
//!     literals; ASCII identifiers).

#[derive(Clone, Copy, Debug, PartialEq, Eq)]
pub enum Kind {
    Comment,
    Str,
    Ident,
    Number,
    Punct,
}

#[derive(Clone, Debug, PartialEq, Eq)]
pub struct Tok {
    pub kind: Kind,
    /// source text of the token
    pub text: String,
    /// decoded payload for string-like tokens
    pub value: Option<String>,
}

#[derive(Clone, Debug, PartialEq, Eq)]
pub struct LexError {
    pub class: String,
    pub at: usize,
    pub context: String,
}

fn err(src: &[char], at: usize, class: &str) -> LexError {
    let lo = at.saturating_sub(30);
    let hi = (at + 30).min(src.len());
    LexError {
        class: class.to_string(),
        at,
        context: src[lo..hi].iter().collect(),
    }
}

fn is_ts_line_terminator(c: char) -> bool {
    matches!(c, '\n' | '\r' | '\u{2028}' | '\u{2029}')
}

fn is_ts_space(c: char) -> bool {
    matches!(c, '\t' | '\u{b}' | '\u{c}' | ' ' | '\u{a0}' | '\u{feff}' | '\u{1680}' | '\u{2000}'..='\u{200a}' | '\u{202f}' | '\u{205f}' | '\u{3000}')
}

fn hexval(c: char) -> Option<u32> {
    c.to_digit(16)
}

/// Decode a JS/TS string body starting after the opening quote `q`; returns (value, index after closing quote).
fn ts_string(src: &[char], start: usize, q: char) -> Result<(String, usize), LexError> {
    let mut i = start;
    let mut out = String::new();
    loop {
        let Some(&c) = src.get(i) else {
            return Err(err(src, start.saturating_sub(1), "unterminated-string"));
        };
        if c == q {
            return Ok((out, i + 1));
        }
        if c == '\n' || c == '\r' {
            return Err(err(src, i, "unterminated-string"));
        }
        if c != '\\' {
            out.push(c);
            i += 1;
            continue;
        }
        // escape
        let Some(&e) = src.get(i + 1) else {
            return Err(err(src, i, "unterminated-string"));
        };
        i += 2;
        match e {
            'n' => out.push('\n'),
            'r' => out.push('\r'),
            't' => out.push('\t'),
            'b' => out.push('\u{8}'),
            'f' => out.push('\u{c}'),
            'v' => out.push('\u{b}'),
            '0' if !src.get(i).map(|d| d.is_ascii_digit()).unwrap_or(false) => out.push('\0'),
            '0'..='9' => return Err(err(src, i - 2, "octal-or-decimal-escape")),
            'x' => {
                let (Some(a), Some(b)) = (src.get(i).and_then(|c| hexval(*c)), src.get(i + 1).and_then(|c| hexval(*c)))
                else {
                    return Err(err(src, i - 2, "bad-hex-escape"));
                };
                out.push(char::from_u32(a * 16 + b).unwrap());
                i += 2;
            }
            'u' => {
                if src.get(i) == Some(&'{') {
                    let mut j = i + 1;
                    let mut v: u32 = 0;
                    let mut n = 0;
                    while let Some(h) = src.get(j).and_then(|c| hexval(*c)) {
                        v = v.saturating_mul(16).saturating_add(h);
                        j += 1;
                        n += 1;
                    }
                    if n == 0 || src.get(j) != Some(&'}') || v > 0x10ffff {
                        return Err(err(src, i - 2, "bad-unicode-escape"));
                    }
                    // lone surrogates are representable in JS strings; keep a replacement character
                    out.push(char::from_u32(v).unwrap_or('\u{fffd}'));
                    i = j + 1;
                } else {
                    let mut v = 0;
                    for k in 0..4 {
                        let Some(h) = src.get(i + k).and_then(|c| hexval(*c)) else {
                            return Err(err(src, i - 2, "bad-unicode-escape"));
                        };
                        v = v * 16 + h;
                    }
                    out.push(char::from_u32(v).unwrap_or('\u{fffd}'));
                    i += 4;
                }
            }
            '\r' => {
                // line continuation (CR LF counts as one)
                if src.get(i) == Some(&'\n') {
                    i += 1;
                }
            }
            '\n' | '\u{2028}' | '\u{2029}' => {}
            other => out.push(other),
        }
    }
}

fn ts_template(src: &[char], start: usize) -> Result<usize, LexError> {
    // start: index after the opening backtick; returns index after the closing backtick
    let mut i = start;
    loop {
        let Some(&c) = src.get(i) else {
            return Err(err(src, start.saturating_sub(1), "unterminated-template"));
        };
        match c {
            '`' => return Ok(i + 1),
            '\\' => i += 2,
            '$' if src.get(i + 1) == Some(&'{') => {
                // substitution: lex tokens until the matching brace
                let mut depth = 1;
                i += 2;
                while depth > 0 {
                    let Some(&d) = src.get(i) else {
                        return Err(err(src, start.saturating_sub(1), "unterminated-template"));
                    };
                    match d {
                        '{' => {
                            depth += 1;
                            i += 1;
                        }
                        '}' => {
                            depth -= 1;
                            i += 1;
                        }
                        '\'' | '"' => {
                            let (_, j) = ts_string(src, i + 1, d)?;
                            i = j;
                        }
                        '`' => i = ts_template(src, i + 1)?,
                        _ => i += 1,
                    }
                }
            }
            _ => i += 1,
        }
    }
}

fn is_ts_id_start(c: char) -> bool {
    c == '$' || c == '_' || c.is_alphabetic()
}
fn is_ts_id_continue(c: char) -> bool {
    c == '$' || c == '_' || c.is_alphanumeric() || c == '\u{200c}' || c == '\u{200d}'
}

pub fn lex_ts(text: &str) -> Result<Vec<Tok>, LexError> {
    let src: Vec<char> = text.chars().collect();
    let mut i = 0;
    let mut out = Vec::new();
    let slice = |a: usize, b: usize| -> String { src[a..b].iter().collect() };
    while i < src.len() {
        let c = src[i];
        if is_ts_line_terminator(c) || is_ts_space(c) {
            i += 1;
            continue;
        }
        if c == '/' && src.get(i + 1) == Some(&'/') {
            let mut j = i + 2;
            while j < src.len() && !is_ts_line_terminator(src[j]) {
                j += 1;
            }
            out.push(Tok {
                kind: Kind::Comment,
                text: slice(i, j),
                value: None,
            });
            i = j;
            continue;
        }
        if c == '/' && src.get(i + 1) == Some(&'*') {
            let mut j = i + 2;
            loop {
                if j + 1 >= src.len() {
                    return Err(err(&src, i, "unterminated-block-comment"));
                }
                if src[j] == '*' && src[j + 1] == '/' {
                    break;
                }
                j += 1;
            }
            out.push(Tok {
                kind: Kind::Comment,
                text: slice(i, j + 2),
                value: None,
            });
            i = j + 2;
            continue;
        }
        if c == '\'' || c == '"' {
            let (v, j) = ts_string(&src, i + 1, c)?;
            out.push(Tok {
                kind: Kind::Str,
                text: slice(i, j),
                value: Some(v),
            });
            i = j;
            continue;
        }
        if c == '`' {
            let j = ts_template(&src, i + 1)?;
            out.push(Tok {
                kind: Kind::Str,
                text: slice(i, j),
                value: None,
            });
            i = j;
            continue;
        }
        if is_ts_id_start(c) {
            let mut j = i + 1;
            while j < src.len() && is_ts_id_continue(src[j]) {
                j += 1;
            }
            out.push(Tok {
                kind: Kind::Ident,
                text: slice(i, j),
                value: None,
            });
            i = j;
            continue;
        }
        if c.is_ascii_digit() {
            let mut j = i + 1;
            while j < src.len() && (src[j].is_ascii_alphanumeric() || src[j] == '_' || src[j] == '.') {
                j += 1;
            }
            out.push(Tok {
                kind: Kind::Number,
                text: slice(i, j),
                value: None,
            });
            i = j;
            continue;
        }
        if "{}()[]<>;,:=|&?.*+-!~^%/@".contains(c) {
            let mut j = i + 1;
            if c == '=' && src.get(j) == Some(&'>') {
                j += 1;
            } else if c == '.' && src.get(j) == Some(&'.') && src.get(j + 1) == Some(&'.') {
                j += 2;
            }
            out.push(Tok {
                kind: Kind::Punct,
                text: slice(i, j),
                value: None,
            });
            i = j;
            continue;
        }
        return Err(err(&src, i, &format!("unexpected-character:U+{:04X}", c as u32)));
    }
    Ok(out)
}

// ---------------------------------------------------------------------------------------------
// Motoko

/// Decode a Motoko text/char literal body; `q` is the closing quote.
fn mo_string(src: &[char], start: usize, q: char) -> Result<(String, usize), LexError> {
    let mut i = start;
    let mut out = String::new();
    let mut bytes: Vec<u8> = Vec::new();
    let flush = |bytes: &mut Vec<u8>, out: &mut String| {
        if !bytes.is_empty() {
            out.push_str(&String::from_utf8_lossy(bytes));
            bytes.clear();
        }
    };
    loop {
        let Some(&c) = src.get(i) else {
            return Err(err(src, start.saturating_sub(1), "unterminated-text"));
        };
        if c == q {
            flush(&mut bytes, &mut out);
            return Ok((out, i + 1));
        }
        if (c as u32) < 0x20 || c as u32 == 0x7f {
            return Err(err(src, i, "control-character-in-text"));
        }
        if c != '\\' {
            flush(&mut bytes, &mut out);
            out.push(c);
            i += 1;
            continue;
        }
        let Some(&e) = src.get(i + 1) else {
            return Err(err(src, i, "unterminated-text"));
        };
        match e {
            'n' => {
                flush(&mut bytes, &mut out);
                out.push('\n');
                i += 2;
            }
            'r' => {
                flush(&mut bytes, &mut out);
                out.push('\r');
                i += 2;
            }
            't' => {
                flush(&mut bytes, &mut out);
                out.push('\t');
                i += 2;
            }
            '\\' | '\'' | '"' => {
                flush(&mut bytes, &mut out);
                out.push(e);
                i += 2;
            }
            'u' => {
                if src.get(i + 2) != Some(&'{') {
                    return Err(err(src, i, "bad-escape"));
                }
                let mut j = i + 3;
                let mut v: u32 = 0;
                let mut n = 0;
                while let Some(h) = src.get(j).and_then(|c| hexval(*c)) {
                    v = v.saturating_mul(16).saturating_add(h);
                    j += 1;
                    n += 1;
                }
                let Some(ch) = char::from_u32(v) else {
                    return Err(err(src, i, "bad-escape"));
                };
                if n == 0 || src.get(j) != Some(&'}') {
                    return Err(err(src, i, "bad-escape"));
                }
                flush(&mut bytes, &mut out);
                out.push(ch);
                i = j + 1;
            }
            _ => {
                let (Some(a), Some(b)) =
                    (src.get(i + 1).and_then(|c| hexval(*c)), src.get(i + 2).and_then(|c| hexval(*c)))
                else {
                    return Err(err(src, i, "bad-escape"));
                };
                bytes.push((a * 16 + b) as u8);
                i += 3;
            }
        }
    }
}

pub fn lex_motoko(text: &str) -> Result<Vec<Tok>, LexError> {
    let src: Vec<char> = text.chars().collect();
    let mut i = 0;
    let mut out = Vec::new();
    let slice = |a: usize, b: usize| -> String { src[a..b].iter().collect() };
    while i < src.len() {
        let c = src[i];
        if matches!(c, ' ' | '\t' | '\n' | '\r') {
            i += 1;
            continue;
        }
        if c == '/' && src.get(i + 1) == Some(&'/') {
            let mut j = i + 2;
            while j < src.len() && src[j] != '\n' {
                j += 1;
            }
            out.push(Tok {
                kind: Kind::Comment,
                text: slice(i, j),
                value: None,
            });
            i = j;
            continue;
        }
        if c == '/' && src.get(i + 1) == Some(&'*') {
            let mut depth = 1;
            let mut j = i + 2;
            while depth > 0 {
                if j + 1 >= src.len() {
                    return Err(err(&src, i, "unterminated-block-comment"));
                }
                if src[j] == '/' && src[j + 1] == '*' {
                    depth += 1;
                    j += 2;
                } else if src[j] == '*' && src[j + 1] == '/' {
                    depth -= 1;
                    j += 2;
                } else {
                    j += 1;
                }
            }
            out.push(Tok {
                kind: Kind::Comment,
                text: slice(i, j),
                value: None,
            });
            i = j;
            continue;
        }
        if c == '"' {
            let (v, j) = mo_string(&src, i + 1, '"')?;
            out.push(Tok {
                kind: Kind::Str,
                text: slice(i, j),
                value: Some(v),
            });
            i = j;
            continue;
        }
        if c == '\'' {
            let (v, j) = mo_string(&src, i + 1, '\'')?;
            if v.chars().count() != 1 {
                return Err(err(&src, i, "bad-char-literal"));
            }
            out.push(Tok {
                kind: Kind::Str,
                text: slice(i, j),
                value: Some(v),
            });
            i = j;
            continue;
        }
        if c.is_ascii_alphabetic() || c == '_' {
            let mut j = i + 1;
            while j < src.len() && (src[j].is_ascii_alphanumeric() || src[j] == '_') {
                j += 1;
            }
            out.push(Tok {
                kind: Kind::Ident,
                text: slice(i, j),
                value: None,
            });
            i = j;
            continue;
        }
        if c.is_ascii_digit() {
            let mut j = i + 1;
            while j < src.len() && (src[j].is_ascii_alphanumeric() || src[j] == '_' || src[j] == '.') {
                j += 1;
            }
            out.push(Tok {
                kind: Kind::Number,
                text: slice(i, j),
                value: None,
            });
            i = j;
            continue;
        }
        if "(){}[];,:.?!=<>+-*/%&|^#@".contains(c) {
            let mut j = i + 1;
            if c == '-' && src.get(j) == Some(&'>') {
                j += 1;
            }
            out.push(Tok {
                kind: Kind::Punct,
                text: slice(i, j),
                value: None,
            });
            i = j;
            continue;
        }
        return Err(err(&src, i, &format!("unexpected-character:U+{:04X}", c as u32)));
    }
    Ok(out)
}

pub fn code_tokens(toks: &[Tok]) -> Vec<Tok> {
    toks.iter().filter(|t| t.kind != Kind::Comment).cloned().collect()
}

/// The pretty printers add a trailing separator when a list is broken over several lines; layout depends on
/// the length of comments and names, so separators directly before a closing bracket are dropped before
/// two token streams are compared.
pub fn drop_trailing_separators(toks: &[Tok], seps: &[&str], closers: &[&str]) -> Vec<Tok> {
    let mut out: Vec<Tok> = Vec::with_capacity(toks.len());
    for (i, t) in toks.iter().enumerate() {
        if t.kind == Kind::Punct && seps.contains(&t.text.as_str()) {
            if let Some(n) = toks.get(i + 1) {
                if n.kind == Kind::Punct && closers.contains(&n.text.as_str()) {
                    continue;
                }
            }
        }
        out.push(t.clone());
    }
    out
}
pub fn ts_comparable(toks: &[Tok]) -> Vec<Tok> {
    drop_trailing_separators(&code_tokens(toks), &[","], &["}", "]", ">", ")"])
}
pub fn motoko_comparable(toks: &[Tok]) -> Vec<Tok> {
    drop_trailing_separators(&code_tokens(toks), &[",", ";"], &["}", "]", ")"])
}

/// First index at which two token streams differ (kind and text), or None when equal.
pub fn first_difference(a: &[Tok], b: &[Tok]) -> Option<usize> {
    let n = a.len().min(b.len());
    for i in 0..n {
        if a[i].kind != b[i].kind || a[i].text != b[i].text {
            return Some(i);
        }
    }
    if a.len() != b.len() {
        Some(n)
    } else {
        None
    }
}

pub fn show_around(toks: &[Tok], at: usize) -> String {
    let lo = at.saturating_sub(4);
    let hi = (at + 5).min(toks.len());
    toks[lo..hi]
        .iter()
        .map(|t| {
            let s: String = t.text.chars().take(40).collect();
            format!("{:?}:{s}", t.kind)
        })
        .collect::<Vec<_>>()
        .join(" ")
}

#[cfg(test)]
mod tests {
    use super::*;
    #[test]
    fn ts_basics() {
        let t = lex_ts("export interface t { '\\\"' : bigint, _2_ : [] | [o] } // c\n/** a */").unwrap();
        assert_eq!(t.iter().filter(|t| t.kind == Kind::Comment).count(), 2);
        assert_eq!(t[4].value.as_deref(), Some("\""));
        assert!(lex_ts("'\\01'").is_err());
        assert!(lex_ts("'a\nb'").is_err());
        assert!(lex_ts("/* x").is_err());
        assert_eq!(lex_ts("'\\u{1F600}\\0'").unwrap()[0].value.as_deref(), Some("\u{1F600}\0"));
        assert!(lex_ts("`a${ '}' }b` x").is_ok());
    }
    #[test]
    fn differential_is_sensitive() {
        // an unescaped `*/` in a TS doc comment, a newline in a Motoko doc line
        let clean = ts_comparable(&lex_ts("export type A = { 'x' : bigint };").unwrap());
        let inj = ts_comparable(&lex_ts("/**\n * */ export type I = 1; /*\n */\nexport type A = { 'x' : bigint, };").unwrap());
        assert!(first_difference(&clean, &inj).is_some());
        let ok = ts_comparable(&lex_ts("/**\n * *\\/ export type I = 1; /*\n */\nexport type A = {\n  'x' : bigint,\n};").unwrap());
        assert!(first_difference(&clean, &ok).is_none());
        let m1 = motoko_comparable(&lex_motoko("module { public type A = { x : Nat }; }").unwrap());
        let m2 = motoko_comparable(&lex_motoko("module { /// doc\n public type A = {\n /// d */ /* \n x : Nat;\n }; }").unwrap());
        assert!(first_difference(&m1, &m2).is_none());
        let m3 = motoko_comparable(&lex_motoko("module { /// doc\n public type I = Nat; public type A = { x : Nat }; }").unwrap());
        assert!(first_difference(&m1, &m3).is_some());
    }
    #[test]
    fn mo_basics() {
        let t = lex_motoko("/* a /* b */ c */ public type x = { #a : Nat; b_ : ?Text } /// doc */").unwrap();
        assert_eq!(t[0].kind, Kind::Comment);
        assert_eq!(t.last().unwrap().kind, Kind::Comment);
        assert!(lex_motoko("/* a /* b */").is_err());
        assert!(lex_motoko("\"a\nb\"").is_err());
        assert!(lex_motoko("x ` y").is_err());
    }
}
