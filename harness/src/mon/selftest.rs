//! Model self-tests: the reference models against each other and against the repository's
//! normative spec suite (/repo/test/*.test.did). A failure here is a harness error, not a violation.
use crate::conv::*;
use crate::ctx::Ctx;
use crate::gen::{types::*, upgrade::Upgrader, values::*};
use crate::model::coerce::*;
use crate::model::subtype::*;
use crate::model::wire::*;
use crate::model::*;
use candid::types::{Type, TypeEnv};
use serde_json::json;

pub fn model_decode_at(bytes: &[u8], eenv: &REnv, expected: &[RType], hits: &mut Hits) -> Result<Vec<RValue>, String> {
    let d = match decode(bytes) {
        Ok(d) => d,
        Err(DecErr::Malformed(m)) => return Err(format!("malformed: {m}")),
        Err(DecErr::OverLimit(m)) => return Err(format!("overlimit: {m}")),
    };
    let wenv = normalize_wire(&d.env);
    let mut c = Coercer::new(&wenv, eenv, hits);
    c.coerce_args(&d.values, &d.types, expected)
        .map_err(|f| if f.1 { format!("overlimit: {}", f.0) } else { format!("coercion: {}", f.0) })
}

fn spec_suite(ctx: &mut Ctx) {
    use candid_parser::syntax::IDLProg;
    use candid_parser::test::{Input, Test};
    let dir = "/repo/test";
    let mut files: Vec<_> = std::fs::read_dir(dir)
        .map(|d| d.filter_map(|e| e.ok()).map(|e| e.path()).collect())
        .unwrap_or_default();
    files.sort();
    let mut hits = Hits::new();
    for path in files {
        let name = path.file_name().unwrap().to_string_lossy().to_string();
        if !name.ends_with(".test.did") {
            continue;
        }
        let src = std::fs::read_to_string(&path).unwrap();
        let test: Test = match src.parse() {
            Ok(t) => t,
            Err(e) => {
                ctx.violation("selftest|parse", &format!("cannot parse {name}: {e}"), json!({}));
                continue;
            }
        };
        let mut env = TypeEnv::new();
        let prog = IDLProg {
            decs: test.defs,
            actor: None,
        };
        if let Err(e) = candid_parser::check_prog(&mut env, &prog) {
            ctx.violation("selftest|check", &format!("cannot check {name}: {e}"), json!({}));
            continue;
        }
        for (i, a) in test.asserts.iter().enumerate() {
            ctx.stats.evaluations += 1;
            let types: Vec<Type> = match a
                .typ
                .iter()
                .map(|t| candid_parser::typing::ast_to_type(&env, &t.typ))
                .collect::<Result<Vec<_>, _>>()
            {
                Ok(t) => t,
                Err(_) => continue,
            };
            let Ok((eenv, ets)) = from_candid(&env, &types) else { continue };
            let Input::Blob(left) = &a.left else {
                ctx.count("spec:skipped-text-input");
                continue;
            };
            let l = model_decode_at(left, &eenv, &ets, &mut hits);
            if let Err(e) = &l {
                if e.starts_with("overlimit") {
                    ctx.count("spec:overlimit");
                    continue;
                }
            }
            let desc = a.desc();
            let fail = |ctx: &mut Ctx, why: String| {
                ctx.violation(
                    &format!("selftest|spec|{name}#{i}"),
                    &format!("model disagrees with {name} assert {} ({desc}): {why}", i + 1),
                    json!({"blob": crate::ctx::hex(left)}),
                );
            };
            match &a.right {
                None => {
                    if a.pass != l.is_ok() {
                        fail(ctx, format!("expected pass={} got {:?}", a.pass, l.as_ref().map(|_| ()).map_err(|e| e.clone())));
                    } else {
                        ctx.count("spec:agree");
                        ctx.nontrivial(crate::rng::hash_bytes(left) ^ i as u64);
                    }
                }
                Some(right) => {
                    let Ok(lv) = l else {
                        fail(ctx, format!("left side does not decode: {:?}", l.err()));
                        continue;
                    };
                    let rv: Vec<RValue> = match right {
                        Input::Blob(b) => match model_decode_at(b, &eenv, &ets, &mut hits) {
                            Ok(v) => v,
                            Err(e) => {
                                fail(ctx, format!("right side does not decode: {e}"));
                                continue;
                            }
                        },
                        Input::Text(s) => {
                            match candid_parser::parse_idl_args(s).and_then(|v| Ok(v.annotate_types(true, &env, &types)?)) {
                                Ok(v) => v.args.iter().map(model_value).collect(),
                                Err(_) => {
                                    ctx.count("spec:skipped-text-unparsable");
                                    continue;
                                }
                            }
                        }
                    };
                    if (lv == rv) != a.pass {
                        fail(
                            ctx,
                            format!(
                                "equality expected {} but left={} right={}",
                                a.pass,
                                lv.iter().map(|v| v.to_string()).collect::<Vec<_>>().join(", "),
                                rv.iter().map(|v| v.to_string()).collect::<Vec<_>>().join(", ")
                            ),
                        );
                    } else {
                        ctx.count("spec:agree");
                        ctx.nontrivial(crate::rng::hash_bytes(left) ^ i as u64);
                    }
                }
            }
        }
    }
    for (k, v) in hits {
        ctx.count_n(&format!("rule:{k}"), v);
    }
}

pub fn run(ctx: &mut Ctx) {
    if ctx.shard == 0 && ctx.only.is_none() {
        spec_suite(ctx);
    }
    let cfg = TypeCfg::default();
    // R1 encode ∘ decode = id (canonical and legal non-canonical tables); R2(v,t,t) = v; R3 laws;
    // soundness: R3 says t <: t'  =>  R2 coerces every generated v : t to some v' with v' : t'
    ctx.cases("model-laws", 1.0, |ctx, rng| {
        let env = gen_env(rng, &cfg);
        let n = 1 + rng.usize(3);
        let types = gen_types(rng, &cfg, &env, n);
        let vg = ValGen::new(&env);
        let mut fuel = 40i64;
        let mut vals = Vec::new();
        let mut ts = Vec::new();
        for t in &types {
            if !encodable(&env, t) {
                continue;
            }
            if let Some(v) = vg.gen(rng, t, &mut fuel) {
                if !crate::model::misc::has_type(&env, &v, t) {
                    ctx.violation("selftest|gen-typing", &format!("generated {v} not of type {t} in {env}"), json!({}));
                    return;
                }
                vals.push(v);
                ts.push(t.clone());
            }
        }
        let opts = EncOpts {
            duplicate_entries: rng.bool(),
            unused_entries: rng.usize(3),
            shuffle: rng.bool(),
            pad_lebs: rng.chance(1, 4),
        };
        let bytes = match encode(&env, &ts, &vals, &opts, Some(rng)) {
            Ok(b) => b,
            Err(e) => {
                ctx.violation("selftest|encode", &format!("model encoder failed: {e} on {env} {ts:?}"), json!({}));
                return;
            }
        };
        let d = match decode(&bytes) {
            Ok(d) => d,
            Err(e) => {
                ctx.violation(
                    "selftest|decode",
                    &format!("model decoder rejects model encoder output: {e:?} env={env} types={ts:?}"),
                    json!({"bytes": crate::ctx::hex(&bytes)}),
                );
                return;
            }
        };
        if d.values != vals {
            ctx.violation("selftest|roundtrip", "model decode(encode(v)) != v", json!({"bytes": crate::ctx::hex(&bytes)}));
            return;
        }
        for (dt, t) in d.types.iter().zip(ts.iter()) {
            if !requal2(&d.env, dt, &env, t) {
                ctx.violation("selftest|type-roundtrip", &format!("decoded type {dt} in {} != {t} in {env}", d.env), json!({}));
                return;
            }
            if !subtype2(&d.env, dt, &env, t) || !subtype2(&env, t, &d.env, dt) {
                ctx.violation("selftest|subtype-reflexive", &format!("{t} not <: itself"), json!({}));
                return;
            }
        }
        // identity coercion
        let mut hits = Hits::new();
        if mu_records(&d.env).iter().any(|b| *b) {
            ctx.count("law:identity-skipped-mu-record");
        } else {
            let wenv = normalize_wire(&d.env);
            let mut c = Coercer::new(&wenv, &env, &mut hits);
            match c.coerce_args(&d.values, &d.types, &ts) {
                Ok(out) => {
                    // reserved positions become `reserved`, everything else identical
                    if out.len() != vals.len() || !out.iter().zip(vals.iter()).all(|(a, b)| same_upto_reserved(a, b)) {
                        ctx.violation("selftest|identity-coercion", &format!("R2(v,t,t) != v: env={env} ts={ts:?} vals={} out={}", vals.iter().map(|v| v.to_string()).collect::<Vec<_>>().join(", "), out.iter().map(|v| v.to_string()).collect::<Vec<_>>().join(", ")), json!({"bytes": crate::ctx::hex(&bytes)}));
                    }
                }
                Err(e) => {
                    // only legitimate if the wire table had µ-records (cannot happen for inhabited values)
                    if mu_records(&d.env).iter().any(|b| *b) {
                        ctx.count("law:identity-skipped-mu-record");
                    } else {
                        ctx.violation("selftest|identity-coercion", &format!("R2(v,t,t) fails: {} env={env} ts={ts:?}", e.0), json!({"bytes": crate::ctx::hex(&bytes)}));
                    }
                }
            }
        }
        // soundness against R3 on an upgraded expected side
        let mut up = Upgrader::new(&cfg);
        let (eenv, ets) = up.up_env(rng, &env, &ts);
        let wenv = normalize_wire(&d.env);
        for (k, (dt, et)) in d.types.iter().zip(ets.iter()).enumerate() {
            let sub = subtype2(&wenv, dt, &eenv, et);
            let mut h2 = Hits::new();
            let mut c = Coercer::new(&wenv, &eenv, &mut h2);
            let r = c.coerce(&d.values[k], dt, et);
            ctx.count(if sub { "law:subtype-yes" } else { "law:subtype-no" });
            match (sub, r) {
                (true, Err(e)) if e.1 => {
                    ctx.count("law:coercion-diverges");
                }
                (true, Err(e)) => {
                    ctx.violation(
                        "selftest|soundness",
                        &format!("R3 says {dt} <: {et} but R2 fails: {} (wenv={wenv} eenv={eenv})", e.0),
                        json!({"bytes": crate::ctx::hex(&bytes)}),
                    );
                }
                (_, Ok(v2)) => {
                    if !has_type_coerced(&eenv, &v2, et) {
                        ctx.violation(
                            "selftest|well-typed",
                            &format!("R2 result {v2} is not of type {et} in {eenv}"),
                            json!({"bytes": crate::ctx::hex(&bytes)}),
                        );
                    }
                    ctx.nontrivial(crate::rng::hash_str(&format!("{dt}|{et}")));
                }
                _ => {}
            }
        }
        ctx.sample(|| json!({"env": env.to_string(), "types": ts.iter().map(|t| t.to_string()).collect::<Vec<_>>(), "bytes": crate::ctx::hex(&bytes)}));
    });
}

pub fn same_upto_reserved(a: &RValue, b: &RValue) -> bool {
    match (a, b) {
        (RValue::Reserved, _) | (_, RValue::Reserved) => true,
        (RValue::Opt(x), RValue::Opt(y)) => same_upto_reserved(x, y),
        (RValue::Vec(x), RValue::Vec(y)) => x.len() == y.len() && x.iter().zip(y.iter()).all(|(p, q)| same_upto_reserved(p, q)),
        (RValue::Record(x), RValue::Record(y)) => {
            x.len() == y.len() && x.iter().zip(y.iter()).all(|(p, q)| p.0 == q.0 && same_upto_reserved(&p.1, &q.1))
        }
        (RValue::Variant(i, x), RValue::Variant(j, y)) => i == j && same_upto_reserved(x, y),
        (x, y) => x == y,
    }
}

/// typing of coercion results: like has_type, reference values keep their wire kind under `principal`
pub fn has_type_coerced(env: &REnv, v: &RValue, t: &RType) -> bool {
    crate::model::misc::has_type(env, v, t)
}
