//! C13 — the text parsers return a result for every input and never panic.
//!
//! Every generated input goes through all seven entry points. A result must come back (`Ok`/`Err`,
//! no panic, no abort, no arithmetic overflow); an `Ok` program / type / init-args is type-checked
//! (must not panic); an `Err` must render (`to_string()`, `report()`), must not carry invalid UTF-8
//! and its span must lie inside the input on character boundaries.
//!
//! Inputs whose lexing is known to touch undefined behaviour on the pinned tree (a backslash before
//! a non-ASCII character; raw `\xx` bytes >= 0x80 inside strings) are examined in a forked child so
//! that an abort is observed (and reported) without losing the worker.
use super::textgen::{lexer_ub_risk, quote};
use crate::ctx::{catch, hex, Ctx, PanicInfo};
use crate::gen::values::gen_char;
use crate::rng::{hash_str, Rng};
use candid::types::value::IDLValue;
use candid::types::{Label, TypeEnv};
use candid_parser::syntax::{IDLInitArgs, IDLProg, IDLType, IDLTypes};
use candid_parser::test::Test;
use candid_parser::token::Token;
use candid_parser::Error as PErr;
use lalrpop_util::ParseError;
use serde_json::json;
use std::collections::HashSet;

pub const ENTRIES: [&str; 7] = [
    "IDLProg",
    "IDLType",
    "IDLTypes",
    "IDLInitArgs",
    "Test",
    "parse_idl_args",
    "parse_idl_value",
];

enum Parsed {
    Prog(IDLProg),
    Type(IDLType),
    Types(IDLTypes),
    Init(IDLInitArgs),
    Test(#[allow(dead_code)] Test),
    Args(candid::IDLArgs),
    Value(IDLValue),
}

fn parse_entry(e: usize, s: &str) -> Result<Parsed, PErr> {
    Ok(match e {
        0 => Parsed::Prog(s.parse::<IDLProg>()?),
        1 => Parsed::Type(s.parse::<IDLType>()?),
        2 => Parsed::Types(s.parse::<IDLTypes>()?),
        3 => Parsed::Init(s.parse::<IDLInitArgs>()?),
        4 => Parsed::Test(s.parse::<Test>()?),
        5 => Parsed::Args(candid_parser::parse_idl_args(s)?),
        _ => Parsed::Value(candid_parser::parse_idl_value(s)?),
    })
}

/// The type check that follows a successful parse.
fn follow_up(p: &Parsed) {
    match p {
        Parsed::Prog(prog) => {
            let mut te = TypeEnv::new();
            let _ = candid_parser::check_prog(&mut te, prog);
        }
        Parsed::Type(t) => {
            let _ = candid_parser::typing::ast_to_type(&TypeEnv::new(), t);
        }
        Parsed::Types(ts) => {
            for a in &ts.args {
                let _ = candid_parser::typing::ast_to_type(&TypeEnv::new(), &a.typ);
            }
        }
        Parsed::Init(i) => {
            let mut te = TypeEnv::new();
            let _ = candid_parser::typing::check_init_args(&mut te, &TypeEnv::new(), i);
        }
        _ => {}
    }
}

fn short_loc(loc: &str) -> String {
    loc.rsplit('/').next().unwrap_or(loc).to_string()
}

// ---------------------------------------------------------------------------------------
// input features (for the class label of a signature)

fn has_upper_hex_prefix(s: &str) -> bool {
    let b = s.as_bytes();
    b.windows(3)
        .enumerate()
        .any(|(i, w)| w[0] == b'0' && w[1] == b'X' && w[2].is_ascii_hexdigit() && (i == 0 || !b[i - 1].is_ascii_alphanumeric() && b[i - 1] != b'_'))
}

fn has_u32_max(s: &str) -> bool {
    let t: String = s.chars().filter(|c| *c != '_').collect::<String>().to_ascii_lowercase();
    t.contains("4294967295") || t.contains("0xffffffff")
}

fn has_u32_max_minus_1(s: &str) -> bool {
    let t: String = s.chars().filter(|c| *c != '_').collect::<String>().to_ascii_lowercase();
    t.contains("4294967294") || t.contains("0xfffffffe")
}

/// `\xx` with xx >= 0x80 after an unescaped backslash (inside strings this pushes a raw byte).
fn has_raw_high_byte(s: &str) -> bool {
    let cs: Vec<char> = s.chars().collect();
    let mut run = 0usize;
    for (i, c) in cs.iter().enumerate() {
        if *c == '\\' {
            run += 1;
            continue;
        }
        if run % 2 == 1 && matches!(c, '8' | '9' | 'a'..='f' | 'A'..='F') && cs.get(i + 1).map(|x| x.is_ascii_hexdigit()).unwrap_or(false) {
            return true;
        }
        run = 0;
    }
    false
}

pub fn classify(s: &str) -> &'static str {
    if lexer_ub_risk(s) {
        "backslash-before-non-ascii"
    } else if has_upper_hex_prefix(s) {
        "hex-0X-prefix"
    } else if has_u32_max(s) {
        "field-id-u32-max"
    } else if has_u32_max_minus_1(s) {
        "field-id-u32-max-minus-1"
    } else if has_raw_high_byte(s) {
        "raw-high-byte-escape"
    } else {
        "other"
    }
}

/// Replace the character after an unescaped backslash by `q` when it is not ASCII (used once the
/// fork budget is spent: the rest of the input still gets examined in-process).
fn sanitize(s: &str) -> String {
    let mut out = String::with_capacity(s.len());
    let mut run = 0usize;
    for c in s.chars() {
        if c == '\\' {
            run += 1;
            out.push(c);
        } else {
            if run % 2 == 1 && !c.is_ascii() {
                out.push('q');
            } else {
                out.push(c);
            }
            run = 0;
        }
    }
    out
}

// ---------------------------------------------------------------------------------------
// examination of one input

#[derive(Default)]
struct Findings {
    viol: Vec<(String, String)>,
    counts: Vec<String>,
    nontrivial: Vec<u64>,
    /// in a forked child: progress markers go to this fd before each entry point runs
    marker_fd: Option<i32>,
}

fn write_fd(fd: i32, s: &str) {
    let b = s.as_bytes();
    let mut off = 0;
    while off < b.len() {
        let n = unsafe { libc::write(fd, b[off..].as_ptr() as *const libc::c_void, b.len() - off) };
        if n <= 0 {
            break;
        }
        off += n as usize;
    }
}

fn token_strings(t: &Token) -> Option<&str> {
    match t {
        Token::Text(s) | Token::Id(s) | Token::Decimal(s) | Token::Hex(s) | Token::Float(s) => Some(s.as_str()),
        _ => None,
    }
}

fn valid_utf8(s: &str) -> bool {
    std::str::from_utf8(s.as_bytes()).is_ok()
}

struct ErrInfo {
    variant: &'static str,
    span: Option<(usize, usize)>,
    bad_token: bool,
}

fn inspect(e: &PErr) -> ErrInfo {
    match e {
        PErr::Parse(pe) => match pe {
            ParseError::User { error } => ErrInfo {
                variant: "User",
                span: Some((error.span.start, error.span.end)),
                bad_token: !valid_utf8(&error.err),
            },
            ParseError::InvalidToken { location } => ErrInfo {
                variant: "InvalidToken",
                span: Some((*location, *location)),
                bad_token: false,
            },
            ParseError::UnrecognizedEof { location, .. } => ErrInfo {
                variant: "UnrecognizedEof",
                span: Some((*location, *location)),
                bad_token: false,
            },
            ParseError::UnrecognizedToken { token, .. } => ErrInfo {
                variant: "UnrecognizedToken",
                span: Some((token.0, token.2)),
                bad_token: token_strings(&token.1).map(|s| !valid_utf8(s)).unwrap_or(false),
            },
            ParseError::ExtraToken { token } => ErrInfo {
                variant: "ExtraToken",
                span: Some((token.0, token.2)),
                bad_token: token_strings(&token.1).map(|s| !valid_utf8(s)).unwrap_or(false),
            },
        },
        PErr::Custom(_) => ErrInfo {
            variant: "Custom",
            span: None,
            bad_token: false,
        },
        PErr::CandidError(_) => ErrInfo {
            variant: "CandidError",
            span: None,
            bad_token: false,
        },
    }
}

/// Same panic again? (for shrinking)
fn panics_at(e: usize, s: &str, loc: &str, with_follow_up: bool) -> bool {
    // never shrink into the lexer's undefined behaviour
    if lexer_ub_risk(s) {
        return false;
    }
    match catch(|| parse_entry(e, s)) {
        Err(p) => !with_follow_up && short_loc(&p.location) == loc,
        Ok(Ok(parsed)) if with_follow_up => match catch(|| follow_up(&parsed)) {
            Err(p) => short_loc(&p.location) == loc,
            Ok(()) => false,
        },
        _ => false,
    }
}

/// Greedy chunk removal (sizes n/2, n/4, … 1) keeping the same panic location.
fn shrink(e: usize, s: &str, loc: &str, with_follow_up: bool) -> String {
    let mut cur: Vec<char> = s.chars().collect();
    if cur.len() > 4000 {
        return s.to_string();
    }
    let mut size = cur.len() / 2;
    let mut budget = 6000usize;
    while size >= 1 && budget > 0 {
        let mut i = 0;
        let mut changed = false;
        while i + size <= cur.len() && budget > 0 {
            let mut cand: Vec<char> = Vec::with_capacity(cur.len() - size);
            cand.extend_from_slice(&cur[..i]);
            cand.extend_from_slice(&cur[i + size..]);
            let cs: String = cand.iter().collect();
            budget -= 1;
            if panics_at(e, &cs, loc, with_follow_up) {
                cur = cand;
                changed = true;
            } else {
                i += size;
            }
        }
        if !changed || size == 1 {
            if size == 1 && changed {
                continue;
            }
            size /= 2;
        }
    }
    cur.into_iter().collect()
}

fn coarse_ok_shape(s: &str) -> String {
    s.split_whitespace()
        .take(3)
        .map(|w| {
            w.chars()
                .take(8)
                .map(|c| if c.is_ascii_digit() { '0' } else { c })
                .collect::<String>()
        })
        .collect::<Vec<_>>()
        .join(" ")
}

fn examine(input: &str, out: &mut Findings, seen: &mut HashSet<String>, only_entry: Option<usize>) {
    let class = classify(input);
    let first_tok = input.len() - input.trim_start().len();
    for (ei, entry) in ENTRIES.iter().enumerate() {
        if only_entry.map(|o| o != ei).unwrap_or(false) {
            continue;
        }
        if let Some(fd) = out.marker_fd {
            write_fd(fd, &format!("ENTRY {entry}\n"));
        }
        let panic_violation = |out: &mut Findings, seen: &mut HashSet<String>, p: &PanicInfo, stage: &str, follow: bool| {
            let loc = short_loc(&p.location);
            let key = format!("{entry}|{stage}|{loc}|{class}");
            if !seen.insert(key) {
                out.counts.push("violations:repeat-panic".into());
                return;
            }
            let small = if stage == "render" { input.to_string() } else { shrink(ei, input, &loc, follow) };
            let c2 = classify(&small);
            out.viol.push((
                format!("panic|{entry}{}|{loc}|{c2}", if stage.is_empty() { String::new() } else { format!("+{stage}") }),
                format!(
                    "{entry}{} panicked at {}: {} — shrunk input: {:?} (original: {:?})",
                    if stage.is_empty() { String::new() } else { format!(" ({stage})") },
                    p.location,
                    p.message.lines().next().unwrap_or(""),
                    small,
                    input.chars().take(300).collect::<String>()
                ),
            ));
        };
        match catch(|| parse_entry(ei, input)) {
            Err(p) => {
                panic_violation(out, seen, &p, "", false);
                out.counts.push(format!("result:{entry}:panic"));
            }
            Ok(Ok(parsed)) => {
                out.counts.push(format!("result:{entry}:ok"));
                if let Err(p) = catch(|| follow_up(&parsed)) {
                    panic_violation(out, seen, &p, "check", true);
                }
                // release builds wrap `id + 1` silently: an unlabeled field after id 2^32-1 gets id 0
                if let Some(w) = wrapped_ids(&parsed, input) {
                    out.viol.push((
                        format!("field-id-wrapped|{entry}|field-id-u32-max"),
                        format!("{entry} accepted {input:?} giving {w}: the field after id 4294967295 has no representable id, the addition wrapped"),
                    ));
                }
                out.nontrivial.push(hash_str(&format!("{entry}|ok|{}", coarse_ok_shape(input))));
            }
            Ok(Err(e)) => {
                out.counts.push(format!("result:{entry}:err"));
                let info = inspect(&e);
                out.counts.push(format!("cover:err:{}", info.variant));
                let class8 = if has_raw_high_byte(input) { "raw-high-byte-escape" } else { class };
                if info.bad_token {
                    out.viol.push((
                        format!("invalid-utf8-in-error|{entry}|token|{class8}"),
                        format!(
                            "{entry} returned a {} error that carries a String which is not valid UTF-8 (rendering it is undefined behaviour); input {:?}",
                            info.variant, input
                        ),
                    ));
                }
                let mut msg = String::new();
                if info.bad_token {
                    // rendering a `str` that is not UTF-8 is undefined behaviour: left to the Miri lane
                    out.counts.push("skipped:render-of-invalid-utf8-error".into());
                    msg = format!("<{} with invalid UTF-8>", info.variant);
                } else {
                match catch(|| e.to_string()) {
                    Err(p) => panic_violation(out, seen, &p, "render", false),
                    Ok(s) => {
                        if !valid_utf8(&s) {
                            out.viol.push((
                                format!("invalid-utf8-in-error|{entry}|display-output|{class8}"),
                                format!("{entry}: the rendered error message is not valid UTF-8; input {input:?}"),
                            ));
                        } else {
                            msg = s;
                        }
                    }
                }
                if let Err(p) = catch(|| {
                    let _ = e.report();
                }) {
                    panic_violation(out, seen, &p, "report", false);
                }
                }
                if let Some((a, b)) = info.span {
                    if a > b || b > input.len() {
                        out.viol.push((
                            format!("span-outside-input|{entry}|{}|{class}", info.variant),
                            format!("{entry}: error span {a}..{b} for an input of {} bytes: {input:?}", input.len()),
                        ));
                    } else if input.get(a..b).is_none() {
                        out.viol.push((
                            format!("span-splits-character|{entry}|{}|{class}", info.variant),
                            format!(
                                "{entry}: error span {a}..{b} is not on character boundaries of the input (slicing the source there panics): {input:?}"
                            ),
                        ));
                    }
                }
                let nontrivial = match info.span {
                    Some((a, _)) => a > first_tok || (info.variant == "UnrecognizedEof" && a > 0),
                    None => true,
                };
                if nontrivial {
                    let m: String = msg.chars().filter(|c| !c.is_ascii_digit()).take(40).collect();
                    out.nontrivial.push(hash_str(&format!("{entry}|err|{m}")));
                    out.counts.push("cover:past-first-token".into());
                } else {
                    out.counts.push("cover:rejected-at-first-token".into());
                }
            }
        }
    }
    out.counts.push(format!("cover:class:{class}"));
}

/// `Some(description)` when a parsed record carries id 0 although the text puts an unlabeled field
/// right after id 2^32-1 (only possible through wrapping).
fn wrapped_ids(p: &Parsed, input: &str) -> Option<String> {
    if !has_u32_max(input) {
        return None;
    }
    fn val(v: &IDLValue) -> Option<String> {
        match v {
            IDLValue::Record(fs) => {
                let has_max = fs.iter().any(|f| matches!(f.id, Label::Id(u32::MAX)));
                let unnamed_zero = fs.iter().any(|f| matches!(f.id, Label::Unnamed(0)));
                // Unnamed(0) is legitimate only for a leading unlabeled field; `after_max` guards that
                if has_max && unnamed_zero {
                    return Some(format!("record with ids {:?}", fs.iter().map(|f| f.id.get_id()).collect::<Vec<_>>()));
                }
                fs.iter().find_map(|f| val(&f.val))
            }
            IDLValue::Opt(x) => val(x),
            IDLValue::Vec(xs) => xs.iter().find_map(val),
            IDLValue::Variant(x) => val(&x.0.val),
            _ => None,
        }
    }
    fn ty(t: &IDLType) -> Option<String> {
        match t {
            IDLType::RecordT(fs) => {
                let has_max = fs.iter().any(|f| matches!(f.label, Label::Id(u32::MAX)));
                let unnamed_zero = fs.iter().any(|f| matches!(f.label, Label::Unnamed(0)));
                if has_max && unnamed_zero {
                    return Some(format!("record type with ids {:?}", fs.iter().map(|f| f.label.get_id()).collect::<Vec<_>>()));
                }
                fs.iter().find_map(|f| ty(&f.typ))
            }
            IDLType::OptT(x) | IDLType::VecT(x) => ty(x),
            IDLType::VariantT(fs) => fs.iter().find_map(|f| ty(&f.typ)),
            _ => None,
        }
    }
    // only the dedicated sentences `record { MAX <sep> x ; y }` qualify: the unlabeled field must come
    // after the explicit maximal id in the text
    let after_max = {
        let t: String = input.chars().filter(|c| *c != '_').collect::<String>().to_ascii_lowercase();
        let pos = t.find("4294967295").or_else(|| t.find("0xffffffff"))?;
        !t[..pos].contains(';') && t[..pos].trim_end().ends_with('{')
    };
    if !after_max {
        return None;
    }
    match p {
        Parsed::Args(a) => a.args.iter().find_map(val),
        Parsed::Value(v) => val(v),
        Parsed::Type(t) => ty(t),
        Parsed::Types(ts) => ts.args.iter().find_map(|a| ty(&a.typ)),
        _ => None,
    }
}

fn apply(ctx: &mut Ctx, f: Findings, input: &str, family: &str) {
    for c in f.counts {
        ctx.count(&c);
    }
    for h in f.nontrivial {
        ctx.nontrivial(h);
    }
    for (sig, what) in f.viol {
        ctx.violation(&sig, &what, json!({"input": input, "family": family}));
    }
}

/// Examine in a separate process (the worker binary itself, started with the input in an
/// environment variable): an abort of the code under test is observed as the child's death by
/// signal and reported, and the worker survives. `posix_spawn` keeps this cheap (a `fork` of the
/// worker costs several ms here and much more under load).
fn examine_isolated(ctx: &mut Ctx, input: &str, family: &str, _seen: &mut HashSet<String>, only_entry: Option<usize>) {
    use std::os::unix::process::ExitStatusExt;
    use std::process::{Command, Stdio};
    if ctx.lane == "M" || cfg!(miri) {
        // the interpreter cannot spawn processes, and it is exactly the tool that sees the UB: in-process
        let mut f = Findings::default();
        examine(input, &mut f, _seen, only_entry);
        apply(ctx, f, input, family);
        return;
    }
    let Ok(exe) = std::env::current_exe() else {
        ctx.count("excluded:no-current-exe");
        return;
    };
    let tmp = std::env::temp_dir().join(format!("verif-c13-child-{}-{}.json", std::process::id(), ctx.case));
    let r = Command::new(exe)
        .arg("C13")
        .args(["--budget", "20", "--max-cases", "1", "--lane", &ctx.lane, "--out"])
        .arg(&tmp)
        .env(CHILD_INPUT, hex(input.as_bytes()))
        .env(CHILD_ENTRY, only_entry.map(|e| e.to_string()).unwrap_or_else(|| "all".into()))
        .stdin(Stdio::null())
        .stdout(Stdio::null())
        .stderr(Stdio::piped())
        .output();
    let out = match r {
        Ok(o) => o,
        Err(_) => {
            ctx.count("excluded:spawn-failed");
            return;
        }
    };
    let err = String::from_utf8_lossy(&out.stderr);
    let last_entry = err
        .lines()
        .filter_map(|l| l.strip_prefix("ENTRY "))
        .last()
        .unwrap_or("?")
        .to_string();
    let class = classify(input);
    let mut f = Findings::default();
    if let Some(sig) = out.status.signal() {
        f.viol.push((
            format!("abort|{last_entry}|signal={sig}|{class}"),
            format!(
                "{last_entry} did not return: the process was killed by signal {sig} (6 = SIGABRT: non-unwinding panic raised by a std UB check, or abort) on input {input:?}; stderr: {}",
                err.lines().filter(|l| !l.starts_with("ENTRY ")).take(3).collect::<Vec<_>>().join(" / ")
            ),
        ));
        ctx.count(&format!("result:{last_entry}:abort"));
    } else {
        match std::fs::read_to_string(&tmp).ok().and_then(|s| serde_json::from_str::<serde_json::Value>(&s).ok()) {
            Some(v) => {
                for x in v["violations"].as_array().cloned().unwrap_or_default() {
                    f.viol.push((x["sig"].as_str().unwrap_or("").to_string(), x["what"].as_str().unwrap_or("").to_string()));
                }
                if let Some(cs) = v["counters"].as_object() {
                    for (k, n) in cs {
                        if k.starts_with("family:") || k == "violations_seen" {
                            continue;
                        }
                        for _ in 0..n.as_u64().unwrap_or(0).min(64) {
                            f.counts.push(k.clone());
                        }
                    }
                }
                for h in v["nontrivial"].as_array().cloned().unwrap_or_default() {
                    f.nontrivial.push(h.as_u64().unwrap_or(0));
                }
            }
            None => f.viol.push((
                format!("child-incomplete|{last_entry}|exit={:?}|{class}", out.status.code()),
                format!("examination in the child process ended without a result (exit {:?}) on input {input:?}", out.status.code()),
            )),
        }
    }
    let _ = std::fs::remove_file(&tmp);
    ctx.count("cover:isolated-in-child");
    apply(ctx, f, input, family);
}

const CHILD_INPUT: &str = "VERIF_C13_CHILD_INPUT";
const CHILD_ENTRY: &str = "VERIF_C13_CHILD_ENTRY";

fn unhex(s: &str) -> Option<Vec<u8>> {
    if s.len() % 2 != 0 {
        return None;
    }
    (0..s.len() / 2).map(|i| u8::from_str_radix(&s[2 * i..2 * i + 2], 16).ok()).collect()
}

/// Child side of `examine_isolated`.
fn child_main(ctx: &mut Ctx, input_hex: &str) {
    let Some(input) = unhex(input_hex).and_then(|b| String::from_utf8(b).ok()) else {
        return;
    };
    let only_entry = std::env::var(CHILD_ENTRY).ok().and_then(|s| s.parse::<usize>().ok());
    ctx.max_violations = 120;
    ctx.cases("child", 1.0, |ctx, _rng| {
        let mut f = Findings {
            marker_fd: Some(2),
            ..Default::default()
        };
        let mut seen = HashSet::new();
        examine(&input, &mut f, &mut seen, only_entry);
        apply(ctx, f, &input, "child");
    });
}

/// A spawn is ~15 ms on an idle machine but around a second when every core runs a worker, so
/// children are rationed: shard 0 replays the seven UB witnesses (one per entry point) and a few
/// generated inputs of that class in children; every other input of the class is examined
/// in-process with the offending character replaced (`\é` -> `\q`, still an unknown escape).
const SPAWN_BUDGET: u32 = 4;

struct State {
    seen: HashSet<String>,
    forks: u32,
}

fn check_input(ctx: &mut Ctx, input: &str, family: &str, st: &mut State) {
    let t0 = std::time::Instant::now();
    check_input_inner(ctx, input, family, st);
    let ms = t0.elapsed().as_secs_f64() * 1e3;
    ctx.max("slowest-input-ms", ms);
    if ms > 100.0 && std::env::var("VERIF_TRACE").is_ok() {
        eprintln!("SLOW {ms:.0} ms {family} {input:?}");
    }
}

fn check_input_inner(ctx: &mut Ctx, input: &str, family: &str, st: &mut State) {
    if lexer_ub_risk(input) {
        if (ctx.shard == 0 && st.forks < SPAWN_BUDGET) || ctx.only.is_some() {
            // an abort ends the child: one entry point per child, a different one each time
            st.forks += 1;
            let e = (hash_str(input) % 7) as usize;
            examine_isolated(ctx, input, family, &mut st.seen, Some(e));
        } else {
            let clean = sanitize(input);
            ctx.count("cover:sanitized-after-fork-budget");
            let mut f = Findings::default();
            examine(&clean, &mut f, &mut st.seen, None);
            apply(ctx, f, &clean, family);
        }
    } else {
        let mut f = Findings::default();
        examine(input, &mut f, &mut st.seen, None);
        apply(ctx, f, input, family);
    }
    ctx.sample(|| json!({"family": family, "input": input}));
}

// ---------------------------------------------------------------------------------------
// generators

const KEYWORDS: &[&str] = &[
    "null",
    "vec",
    "record",
    "variant",
    "func",
    "service",
    "oneway",
    "query",
    "composite_query",
    "blob",
    "type",
    "import",
    "opt",
    "principal",
    "true",
    "false",
    "nat",
    "nat8",
    "nat16",
    "nat32",
    "nat64",
    "int",
    "int8",
    "int16",
    "int32",
    "int64",
    "float32",
    "float64",
    "bool",
    "text",
    "reserved",
    "empty",
    "assert",
];
const PUNCT: &[&str] = &["=", "(", ")", "{", "}", ";", ",", ".", ":", "->", "==", "!=", "!:"];
const JUNK: &[&str] = &[
    "+", "-", "*", "/", "!", "<", ">", "[", "]", "@", "#", "$", "%", "^", "&", "|", "~", "?", "'", "`", "\\", "-->", "=>", "::", "..", "é", "名",
    "\u{0}", "\u{feff}", "\u{a0}", "\u{2028}",
];
const IDS: &[&str] = &[
    "a", "b", "T0", "T1", "T2", "T3", "_x", "x1", "_", "__", "A_b_9", "nat_", "opt_", "Vec", "NULL", "True", "assertx", "élan", "aé", "x\u{301}",
    "a_very_long_identifier_that_goes_on_and_on_and_on_0123456789",
];
pub const NUMERALS: &[&str] = &[
    "0x_",
    "0X__",
    "0x",
    "0x_1",
    "0x1_",
    "0b1",
    "0",
    "1",
    "42",
    "00",
    "007",
    "1_000",
    "1__0",
    "1_",
    "_1",
    "4294967294",
    "4294967295",
    "4_294_967_295",
    "4294967296",
    "0xFFFFFFFF",
    "0xffff_ffff",
    "0xFFFFFFFE",
    "0x100000000",
    "0XFFFFFFFF",
    "0X1F",
    "0X0",
    "0Xff",
    "0x1F",
    "0x1f",
    "0x0",
    "0x_",
    "0x",
    "0X",
    "0x1_",
    "0x_1",
    "0xg",
    "0x1p3",
    "0x1.8",
    "0b1",
    "0o7",
    "18446744073709551615",
    "18446744073709551616",
    "340282366920938463463374607431768211456",
    "1234567890123456789012345678901234567890",
    "1e400",
    "1e-400",
    "-1e400",
    "1e0",
    "1E5",
    "1e",
    "1e+",
    "1e+5",
    "1e-5",
    "1.e5",
    "1.5e",
    ".5",
    "5.",
    ".",
    "..",
    "1.2.3",
    "1..2",
    "0.0",
    "-0.0",
    "0e0",
    "1_0.0_1",
    "1._5",
    "+1",
    "-1",
    "+-1",
    "--1",
    "- 1",
    "+ 0x10",
    "-0x10",
    "-0X10",
    "1e1_0",
    "9999999999999999999999999999999999999999e9999999999",
];

const ESCAPES: &[&str] = &[
    "\\n",
    "\\r",
    "\\t",
    "\\\\",
    "\\\"",
    "\\'",
    "\\u{41}",
    "\\u{0}",
    "\\u{10FFFF}",
    "\\u{10ffff}",
    "\\u{1_0}",
    "\\u{00000041}",
    "\\u{}",
    "\\u{_}",
    "\\u{110000}",
    "\\u{d800}",
    "\\u{DFFF}",
    "\\u{FFFFFFFFFF}",
    "\\u{ffffffff}",
    "\\u{g}",
    "\\u{41",
    "\\u41",
    "\\u",
    "\\U{41}",
    "\\q",
    "\\0",
    "\\00",
    "\\01",
    "\\0a",
    "\\7f",
    "\\x41",
    "\\a",
    "\\b",
    "\\e0",
    "\\e0\\a0",
    "\\e0\\a0\\80",
    "\\ff",
    "\\FF",
    "\\fe\\ff",
    "\\c3\\28",
    "\\c3\\a9",
    "\\c3",
    "\\80",
    "\\bf",
    "\\ed\\a0\\80",
    "\\f4\\90\\80\\80",
    "\\f0\\9f\\98\\80",
    "\\c0\\80",
    "\\4",
    "\\g0",
    "\\ ",
    "\\\n",
    "\\é",
    "\\名",
    "\\\u{1F600}",
    "\\\u{80}",
    "\\\u{7f}",
    "\\\u{0}",
];

fn gen_string_body(rng: &mut Rng) -> String {
    let n = match rng.below(6) {
        0 => 0,
        1 | 2 => 1,
        _ => 1 + rng.usize(5),
    };
    let mut s = String::new();
    for _ in 0..n {
        match rng.below(10) {
            0..=4 => s.push_str(*rng.pick(ESCAPES)),
            5 => s.push_str(*rng.pick(&["a", "abc", "0", "1f", "e0", "x", " ", "aaaaa-aa", "2vxsx-fae"])),
            6 => {
                let c = gen_char(rng);
                if c != '"' && c != '\\' {
                    s.push(c);
                }
            }
            7 => s.push_str(*rng.pick(&["é", "名前", "\u{1F600}", "\u{301}", "\u{feff}", "\n", "\t", "\u{0}", "\u{7f}", "\u{85}"])),
            8 => s.push_str(*rng.pick(&["/*", "*/", "//", "{", "}", "(", ";", "'"])),
            _ => s.push_str(&rng.below(100000).to_string()),
        }
    }
    s
}

fn gen_string_lit(rng: &mut Rng) -> String {
    let body = gen_string_body(rng);
    match rng.below(20) {
        0 => format!("\"{body}"),   // unterminated
        1 => format!("\"{body}\\"), // ends in a lone backslash: `"…\"` escapes the quote
        _ => format!("\"{body}\""),
    }
}

fn gen_comment(rng: &mut Rng) -> String {
    match rng.below(12) {
        0 => "// c\n".into(),
        1 => "//\n".into(),
        2 => "// é 名 \u{1F600}\n".into(),
        3 => "/* c */".into(),
        4 => "/**/".into(),
        5 => "/* /* nested */ */".into(),
        6 => "/* /* unbalanced */".into(),
        7 => "/*".into(),
        8 => "*/".into(),
        9 => "/*/".into(),
        10 => "/* \" */".into(),
        _ => "// no newline at end".into(),
    }
}

fn gen_token(rng: &mut Rng) -> String {
    match rng.below(16) {
        0..=2 => rng.pick(KEYWORDS).to_string(),
        3..=6 => rng.pick(PUNCT).to_string(),
        7 | 8 => rng.pick(IDS).to_string(),
        9 | 10 => rng.pick(NUMERALS).to_string(),
        11 | 12 => gen_string_lit(rng),
        13 => gen_comment(rng),
        14 => rng.pick(JUNK).to_string(),
        _ => rng.below(1 << 33).to_string(),
    }
}

struct Sent<'a> {
    rng: &'a mut Rng,
    t: Vec<String>,
}

impl Sent<'_> {
    fn p(&mut self, s: &str) {
        self.t.push(s.to_string());
    }
    fn name(&mut self) {
        let s = match self.rng.below(8) {
            0..=3 => self.rng.pick(IDS).to_string(),
            4 => self.rng.pick(&["nat", "text", "bool", "int8", "reserved", "empty", "assert"]).to_string(),
            5 => quote(&super::textgen::gen_label(self.rng)),
            6 => gen_string_lit(self.rng),
            _ => quote(*self.rng.pick(KEYWORDS)),
        };
        self.t.push(s);
    }
    fn field_id(&mut self) {
        let s = match self.rng.below(4) {
            0 => self.rng.below(10).to_string(),
            1 => self.rng.pick(NUMERALS).to_string(),
            2 => format!("0x{:x}", self.rng.below(1 << 20)),
            _ => self.rng.below(1 << 32).to_string(),
        };
        self.t.push(s);
    }
    fn principal_text(&mut self) {
        let s = match self.rng.below(6) {
            0 => "\"aaaaa-aa\"".to_string(),
            1 => "\"2vxsx-fae\"".to_string(),
            2 => "\"w7x7r-cok77-xa\"".to_string(),
            3 => "\"\"".to_string(),
            4 => "\"AAAAA-AA\"".to_string(),
            _ => gen_string_lit(self.rng),
        };
        self.t.push(s);
    }
    fn number(&mut self) {
        if self.rng.chance(1, 4) {
            let s = *self.rng.pick(&["+", "-"]);
            self.p(s);
        }
        let s = match self.rng.below(5) {
            0 => self.rng.below(1000).to_string(),
            1 | 2 => self.rng.pick(NUMERALS).to_string(),
            3 => format!("{}.{}", self.rng.below(100), self.rng.below(100)),
            _ => format!("0x{:X}", self.rng.next() >> self.rng.below(64)),
        };
        self.t.push(s);
    }
    fn value(&mut self, d: usize) {
        let k = if d == 0 { self.rng.below(7) } else { self.rng.below(16) };
        match k {
            0 => {
                let b = *self.rng.pick(&["true", "false"]);
                self.p(b)
            }
            1 | 2 => self.number(),
            3 => {
                let s = gen_string_lit(self.rng);
                self.t.push(s)
            }
            4 => {
                self.p("blob");
                let s = gen_string_lit(self.rng);
                self.t.push(s)
            }
            5 => self.p("null"),
            6 => {
                self.p("principal");
                self.principal_text()
            }
            7 => {
                self.p("opt");
                self.value(d - 1)
            }
            8 => {
                self.p("vec");
                self.p("{");
                for _ in 0..self.rng.usize(4) {
                    self.annval(d - 1);
                    self.p(";");
                }
                if self.rng.bool() {
                    self.annval(d - 1);
                }
                self.p("}")
            }
            9 | 10 => {
                self.p("record");
                self.p("{");
                for _ in 0..self.rng.usize(4) {
                    match self.rng.below(3) {
                        0 => {
                            self.field_id();
                            self.p("=")
                        }
                        1 => {
                            self.name();
                            self.p("=")
                        }
                        _ => {}
                    }
                    self.annval(d - 1);
                    self.p(";");
                }
                self.p("}")
            }
            11 => {
                self.p("variant");
                self.p("{");
                if self.rng.bool() {
                    self.name()
                } else {
                    self.field_id()
                }
                if self.rng.chance(2, 3) {
                    self.p("=");
                    self.annval(d - 1);
                }
                self.p("}")
            }
            12 => {
                self.p("service");
                self.principal_text()
            }
            13 => {
                self.p("func");
                self.principal_text();
                self.p(".");
                self.name()
            }
            _ => {
                self.p("(");
                self.annval(d - 1);
                self.p(")")
            }
        }
    }
    fn annval(&mut self, d: usize) {
        self.value(d);
        if self.rng.chance(1, 4) {
            self.p(":");
            self.typ(d.min(2));
        }
    }
    fn args(&mut self, d: usize) {
        self.p("(");
        let n = self.rng.usize(4);
        for i in 0..n {
            self.annval(d);
            if i + 1 < n || self.rng.chance(1, 5) {
                self.p(",");
            }
        }
        self.p(")");
    }
    fn typ(&mut self, d: usize) {
        let k = if d == 0 { self.rng.below(4) } else { self.rng.below(14) };
        match k {
            0 | 1 => {
                let s = *self
                    .rng
                    .pick(&["nat", "int", "nat8", "int64", "float32", "float64", "bool", "text", "null", "reserved", "empty", "principal", "blob"]);
                self.p(s)
            }
            2 | 3 => {
                let s = *self.rng.pick(&["T0", "T1", "T2", "T3", "a", "undefined_name"]);
                self.p(s)
            }
            4 | 5 => {
                self.p("opt");
                self.typ(d - 1)
            }
            6 => {
                self.p("vec");
                self.typ(d - 1)
            }
            7 | 8 => {
                self.p("record");
                self.p("{");
                for _ in 0..self.rng.usize(4) {
                    match self.rng.below(3) {
                        0 => {
                            self.field_id();
                            self.p(":")
                        }
                        1 => {
                            self.name();
                            self.p(":")
                        }
                        _ => {}
                    }
                    self.typ(d - 1);
                    self.p(";");
                }
                self.p("}")
            }
            9 | 10 => {
                self.p("variant");
                self.p("{");
                for _ in 0..self.rng.usize(4) {
                    if self.rng.bool() {
                        self.name()
                    } else {
                        self.field_id()
                    }
                    if self.rng.chance(2, 3) {
                        self.p(":");
                        self.typ(d - 1);
                    }
                    self.p(";");
                }
                self.p("}")
            }
            11 => {
                self.p("func");
                self.functyp(d - 1)
            }
            _ => {
                self.p("service");
                self.actor(d - 1)
            }
        }
    }
    fn tup(&mut self, d: usize) {
        self.p("(");
        let n = self.rng.usize(3);
        for i in 0..n {
            if self.rng.chance(1, 4) {
                self.name();
                self.p(":");
            }
            self.typ(d);
            if i + 1 < n || self.rng.chance(1, 6) {
                self.p(",");
            }
        }
        self.p(")");
    }
    fn functyp(&mut self, d: usize) {
        self.tup(d);
        self.p("->");
        self.tup(d);
        for _ in 0..*self.rng.pick(&[0usize, 0, 0, 1, 1, 2]) {
            let m = *self.rng.pick(&["query", "oneway", "composite_query"]);
            self.p(m);
        }
    }
    fn actor(&mut self, d: usize) {
        self.p("{");
        for _ in 0..self.rng.usize(4) {
            self.name();
            self.p(":");
            if self.rng.chance(1, 4) {
                let s = *self.rng.pick(&["T0", "T1", "f", "undefined_name"]);
                self.p(s);
            } else {
                self.functyp(d);
            }
            self.p(";");
        }
        self.p("}");
    }
    fn defs(&mut self, d: usize) {
        for i in 0..self.rng.usize(5) {
            match self.rng.below(8) {
                0 => {
                    self.p("import");
                    let s = gen_string_lit(self.rng);
                    self.t.push(s)
                }
                1 => {
                    self.p("import");
                    self.p("service");
                    let s = gen_string_lit(self.rng);
                    self.t.push(s)
                }
                _ => {
                    self.p("type");
                    let n = if self.rng.chance(1, 6) {
                        self.rng.pick(IDS).to_string()
                    } else {
                        format!("T{i}")
                    };
                    self.t.push(n);
                    self.p("=");
                    self.typ(d)
                }
            }
            self.p(";");
        }
    }
    fn prog(&mut self, d: usize) {
        self.defs(d);
        if self.rng.chance(2, 3) {
            self.p("service");
            if self.rng.chance(1, 3) {
                self.p("S");
            }
            self.p(":");
            if self.rng.chance(1, 3) {
                self.tup(d);
                self.p("->");
            }
            if self.rng.chance(1, 4) {
                let s = *self.rng.pick(&["T0", "T1", "undefined_name"]);
                self.p(s);
            } else {
                self.actor(d);
            }
            if self.rng.bool() {
                self.p(";");
            }
        }
    }
    fn init(&mut self, d: usize) {
        self.defs(d);
        self.tup(d);
    }
    fn test(&mut self, d: usize) {
        self.defs(d);
        for _ in 0..1 + self.rng.usize(3) {
            let a = *self.rng.pick(&["assert", "assert", "assert", "asert", "type"]);
            self.p(a);
            self.input();
            match self.rng.below(4) {
                0 => self.p(":"),
                1 => self.p("!:"),
                2 => {
                    self.p("==");
                    self.input();
                    self.p(":")
                }
                _ => {
                    self.p("!=");
                    self.input();
                    self.p(":")
                }
            }
            self.tup(d);
            if self.rng.bool() {
                let s = gen_string_lit(self.rng);
                self.t.push(s);
            }
            self.p(";");
        }
    }
    fn input(&mut self) {
        if self.rng.bool() {
            self.p("blob");
        }
        let s = match self.rng.below(4) {
            0 => "\"DIDL\\00\\00\"".to_string(),
            1 => "\"(1, \\\"a\\\")\"".to_string(),
            _ => gen_string_lit(self.rng),
        };
        self.t.push(s);
    }
}

fn join(rng: &mut Rng, toks: &[String]) -> String {
    let mode = rng.below(10);
    let mut s = String::new();
    for (i, t) in toks.iter().enumerate() {
        if i > 0 {
            match mode {
                0 => s.push('\n'),
                1 => {
                    if rng.chance(1, 6) {
                        s.push_str(&gen_comment(rng));
                        s.push(' ');
                    } else {
                        s.push(' ')
                    }
                }
                2 => {
                    if rng.chance(1, 3) {
                        s.push_str("\r\n\t ")
                    } else {
                        s.push(' ')
                    }
                }
                3 => {
                    // no separator where both neighbours are punctuation-like
                    let prev = toks[i - 1].chars().last().unwrap_or(' ');
                    let next = t.chars().next().unwrap_or(' ');
                    if prev.is_alphanumeric() && next.is_alphanumeric() {
                        s.push(' ')
                    }
                }
                4 if rng.chance(1, 8) => {} // tokens glued together
                _ => s.push(' '),
            }
        }
        s.push_str(t);
    }
    s
}

fn mutate(rng: &mut Rng, toks: &mut Vec<String>) -> &'static str {
    if toks.is_empty() {
        toks.push(gen_token(rng));
        return "insert";
    }
    let i = rng.usize(toks.len());
    match rng.below(6) {
        0 => {
            toks.remove(i);
            "delete"
        }
        1 => {
            let t = toks[i].clone();
            toks.insert(i, t);
            "duplicate"
        }
        2 => {
            toks[i] = gen_token(rng);
            "replace"
        }
        3 => {
            if i + 1 < toks.len() {
                toks.swap(i, i + 1);
            }
            "swap"
        }
        4 => {
            toks.insert(i, gen_token(rng));
            "insert"
        }
        _ => {
            toks.truncate(i);
            "truncate"
        }
    }
}

fn sentence(rng: &mut Rng, kind: u64) -> Vec<String> {
    let d = 1 + rng.usize(3);
    let mut s = Sent { rng, t: Vec::new() };
    match kind {
        0 => s.args(d),
        1 => s.value(d),
        2 => s.typ(d),
        3 => s.tup(d),
        4 => s.prog(d),
        5 => s.init(d),
        _ => s.test(d),
    }
    s.t
}

/// A small type together with a value text that follows its structure (records with some fields left out,
/// one variant case, options, vectors), so that the annotation step after parsing is reached with matching
/// shapes; identifiers in the type are unbound on purpose in some positions.
fn typed_value(rng: &mut Rng, d: usize) -> (String, String) {
    let prims: [(&str, &str); 10] = [
        ("nat8", "7"),
        ("int8", "-7"),
        ("nat", "42"),
        ("int", "-7"),
        ("text", "\"x\""),
        ("bool", "true"),
        ("null", "null"),
        ("nat8", "300"),
        ("float64", "1.5"),
        ("principal", "principal \"aaaaa-aa\""),
    ];
    let k = if d == 0 { rng.below(3) } else { rng.below(10) };
    match k {
        0 | 1 => {
            let (t, v) = *rng.pick(&prims);
            (t.to_string(), v.to_string())
        }
        2 => {
            // an identifier nobody defines; the value is anything
            let id = *rng.pick(&["T", "U", "Node", "list", "t_1"]);
            let v = *rng.pick(&["1", "null", "record {}", "\"s\"", "vec {}", "opt 1", "variant { a }"]);
            (id.to_string(), v.to_string())
        }
        3 => {
            let (t, v) = typed_value(rng, d - 1);
            let v = match rng.below(4) {
                0 => "null".to_string(),
                1 => v,
                _ => format!("opt {v}"),
            };
            (format!("opt {t}"), v)
        }
        4 => {
            let (t, v) = typed_value(rng, d - 1);
            let n = rng.usize(3);
            (format!("vec {t}"), format!("vec {{ {} }}", vec![v; n].join("; ")))
        }
        5 | 6 | 7 => {
            let n = rng.usize(4);
            let names = ["a", "b", "c", "d", "e"];
            let mut ts = Vec::new();
            let mut vs = Vec::new();
            for i in 0..n {
                let (t, v) = typed_value(rng, d - 1);
                ts.push(format!("{} : {t}", names[i]));
                // leave fields out: the annotation has to supply null / opt / reserved ones and reject the rest
                if !rng.chance(1, 3) {
                    vs.push(format!("{} = {v}", names[i]));
                }
            }
            if rng.chance(1, 4) {
                vs.reverse();
            }
            (format!("record {{ {} }}", ts.join("; ")), format!("record {{ {} }}", vs.join("; ")))
        }
        8 => {
            let n = 1 + rng.usize(3);
            let names = ["a", "b", "c", "d"];
            let mut ts = Vec::new();
            let pick = rng.usize(n + 1);
            let mut val = "variant { zz }".to_string();
            for i in 0..n {
                let (t, v) = typed_value(rng, d - 1);
                ts.push(format!("{} : {t}", names[i]));
                if i == pick {
                    val = format!("variant {{ {} = {v} }}", names[i]);
                }
            }
            (format!("variant {{ {} }}", ts.join("; ")), val)
        }
        _ => {
            let (t, _) = typed_value(rng, d - 1);
            (format!("func ({t}) -> ()"), "func \"aaaaa-aa\".m".to_string())
        }
    }
}

fn numeral_templates(rng: &mut Rng) -> String {
    let n = rng.pick(NUMERALS).to_string();
    let m = rng.pick(NUMERALS).to_string();
    match rng.below(28) {
        0 => format!("({n})"),
        1 => format!("(-{n})"),
        2 => format!("({n} : nat)"),
        3 => format!("({n} : int8)"),
        4 => format!("({n} : float32)"),
        5 => format!("record {{ {n} = 1 }}"),
        6 => format!("record {{ {n} = 1; 2 }}"),
        7 => format!("(record {{ {n} = 1; 2; 3 }})"),
        8 => format!("record {{ 1; {n} = 1; 2 }}"),
        9 => format!("variant {{ {n} }}"),
        10 => format!("variant {{ {n} = {m} }}"),
        11 => format!("record {{ {n} : nat }}"),
        12 => format!("record {{ {n} : nat; text }}"),
        13 => format!("(record {{ {n} : nat; text }})"),
        14 => format!("variant {{ {n} }}"),
        15 => format!("variant {{ {n} : nat; {m} }}"),
        16 => format!("vec {{ {n}; {m} }}"),
        17 => format!("({n}.{m})"),
        18 => format!("({n}e{m})"),
        19 => format!("({n}, {m})"),
        20 => format!("type T = record {{ {n} : nat; {m} : text; bool }}; service : {{ f : (T) -> () }}"),
        21 => format!("(vec {{ {n}; {m} }} : vec nat8)"),
        22 => format!("(opt {n} : opt nat16)"),
        23 => format!("(record {{ {n} = {m} }} : record {{ {n} : int }})"),
        24 => format!("assert blob \"DIDL\" : (record {{ {n} : nat; nat }})"),
        25 => format!("type T = variant {{ {n}; {m} : nat }}; (T)"),
        26 => format!("{n}"),
        _ => format!("(func \"aaaaa-aa\".{n})"),
    }
}

fn escape_templates(rng: &mut Rng) -> String {
    let s = gen_string_lit(rng);
    match rng.below(22) {
        0 => format!("({s})"),
        1 => format!("(blob {s})"),
        2 => format!("record {{ {s} = 1 }}"),
        3 => format!("(variant {{ {s} }})"),
        4 => format!("(variant {{ {s} = {s} }})"),
        5 => format!("record {{ {s} : nat }}"),
        6 => format!("variant {{ {s}; {s} : text }}"),
        7 => format!("service : {{ {s} : () -> () }}"),
        8 => format!("(func \"aaaaa-aa\".{s})"),
        9 => format!("import {s}; service : {{}}"),
        10 => format!("import service {s};"),
        11 => format!("(principal {s})"),
        12 => format!("(service {s})"),
        13 => format!("assert {s} : ()"),
        14 => format!("assert blob {s} == {s} : () {s}"),
        15 => format!("assert {s} !: (text) {s};"),
        16 => format!("({s} : text)"),
        17 => format!("(1 {s})"),
        18 => format!("{s}"),
        19 => format!("(func {s}.{s})"),
        20 => format!("type T = service {{ {s} : (a : nat, {s} : text) -> () query }}; (T)"),
        _ => format!("vec {{ {s}; {s} }}"),
    }
}

fn unterminated(rng: &mut Rng) -> String {
    let kind = rng.below(7);
    let toks = sentence(&mut rng.fork(), kind);
    let base = join(rng, &toks);
    match rng.below(12) {
        0 => format!("{base} \"abc"),
        1 => format!("{base} /* abc"),
        2 => format!("/* /* */ {base}"),
        3 => format!("/* a /* b */ c */ {base}"),
        4 => format!("{base} // trailing"),
        5 => format!("// leading\n{base}"),
        6 => format!("/* é */ {base} /* 名 */"),
        7 => format!("*/ {base}"),
        8 => format!("{base} \"\\"),
        9 => {
            // doc comments with blank lines in front of fields (trivia bookkeeping)
            format!("// doc\n\n// doc2 é\ntype T = record {{\n  // field doc\n\n  // again\n  a : nat; /* block */ // tail\n  b : text;\n}};\n// actor doc\nservice : {{\n  // m\n  f : (T) -> ();\n}}")
        }
        10 => format!("{}{}", "/*".repeat(1 + rng.usize(200)), "*/".repeat(rng.usize(200))),
        _ => format!("\"{}", "\\\"".repeat(rng.usize(50))),
    }
}

fn deep(rng: &mut Rng) -> String {
    let n = *rng.pick(&[1usize, 2, 10, 50, 100, 127, 128]);
    match rng.below(14) {
        0 => format!("{}nat", "opt ".repeat(n)),
        1 => format!("{}nat", "vec ".repeat(n)),
        2 => format!("{}nat{}", "record { a : ".repeat(n), " }".repeat(n)),
        3 => format!("{}nat{}", "variant { 0 : ".repeat(n), " }".repeat(n)),
        4 => format!("({}1{})", "(".repeat(n), ")".repeat(n)),
        5 => format!("({}1)", "opt ".repeat(n)),
        6 => format!("({}1{})", "vec { ".repeat(n), " }".repeat(n)),
        7 => format!("({}1{})", "record { ".repeat(n), " }".repeat(n)),
        8 => format!("({}1{})", "variant { a = ".repeat(n), " }".repeat(n)),
        9 => format!("{}(){}", "func (".repeat(n), ") -> ()".repeat(n)),
        10 => format!("{}{}", "service { f : (".repeat(n), ") -> () }".repeat(n)),
        11 => format!("type T = {}T{}; service : {{ f : (T) -> (T) }}", "record { x : opt ".repeat(n), " }".repeat(n)),
        12 => format!("({}1{} : {}nat)", "opt (".repeat(n), ")".repeat(n), "opt ".repeat(n)),
        _ => format!("({}1{})", "record { 5 = ".repeat(n), "; 7 }".repeat(n)),
    }
}

/// Inputs known to matter on the pinned tree (regression witnesses), one per case number.
const WITNESSES: &[&str] = &[
    "(0X1F)",
    "0X1F",
    "(-0X10)",
    "record { 4294967295 = 1 }",
    "(record { 4294967295 = 1; 2 })",
    "record { 4294967295 : nat }",
    "record { 4294967295 : nat; text }",
    "record { 0xFFFFFFFF : nat; text }",
    "(record { 0xffff_ffff = 1; 2 })",
    "(1 \"\\e0\")",
    "(\"\\e0\" 1)",
    "record { \"\\ff\" }",
    "import \"\\c3\\28\" 1",
    "type T = record { 4294967295 : nat; text }; service : {}",
    "(null : opt record { 4294967295 : nat })",
    "(null : opt record { 4294967294 : nat; text })",
    "record { 4294967294 = 1; 2 }",
    "(record { 0xFFFFFFFE = 1; 2 })",
    "record { 4294967294 : nat; text }",
    "(record { 4294967294 : nat; text })",
    "type T = record { 4294967294 : nat; text }; service : {}",
    "type T = record { 4294967294 : nat; text }; (T)",
    "type T = record { 4294967295 : nat }; (T)",
    "assert blob \"DIDL\" : (record { 4294967294 : nat; nat })",
    "assert blob \"DIDL\" : (record { 4294967295 : nat })",
];

/// A backslash before a non-ASCII character, placed so that entry point i (order of `ENTRIES`)
/// gets to lex it.
const UB_WITNESSES: [&str; 7] = [
    "service : { \"\\é\" : () -> () }",
    "record { \"\\é\" : nat }",
    "(record { \"\\é\" : nat })",
    "(record { \"\\名\" : nat })",
    "assert \"\\é\" : ()",
    "(\"\\é\")",
    "\"\\😀\"",
];

pub fn run(ctx: &mut Ctx) {
    if let Ok(h) = std::env::var(CHILD_INPUT) {
        child_main(ctx, &h);
        return;
    }
    ctx.max_violations = 120;
    let mut seen = State {
        seen: HashSet::new(),
        forks: 0,
    };
    ctx.cases("witnesses", 0.02, |ctx, rng| {
        let local = ctx.case & ((1u64 << 40) - 1);
        if local == ctx.shard {
            // the first case of every shard replays all regression witnesses
            for w in WITNESSES {
                check_input(ctx, w, "witnesses", &mut seen);
            }
            for (e, w) in UB_WITNESSES.iter().enumerate() {
                // one child per entry point, outside the spawn budget
                if ctx.shard == 0 {
                    examine_isolated(ctx, w, "witnesses", &mut seen.seen, Some(e));
                }
            }
            return;
        }
        let s = numeral_templates(rng);
        check_input(ctx, &s, "witnesses", &mut seen);
    });
    ctx.cases("token-soup", 0.20, |ctx, rng| {
        let cap = if rng.chance(1, 5) { 40 } else if ctx.thorough() { 24 } else { 12 };
        let n = 1 + rng.usize(cap);
        let toks: Vec<String> = (0..n).map(|_| gen_token(rng)).collect();
        let s = join(rng, &toks);
        check_input(ctx, &s, "token-soup", &mut seen);
    });
    ctx.cases("valid-sentences", 0.12, |ctx, rng| {
        let kind = rng.below(7);
        let toks = sentence(rng, kind);
        let s = join(rng, &toks);
        ctx.count(&format!("cover:sentence-kind:{kind}"));
        check_input(ctx, &s, "valid-sentences", &mut seen);
    });
    ctx.cases("one-token-mutants", 0.22, |ctx, rng| {
        let kind = rng.below(7);
        let mut toks = sentence(rng, kind);
        let m = mutate(rng, &mut toks);
        if rng.chance(1, 5) {
            mutate(rng, &mut toks);
        }
        ctx.count(&format!("cover:mutation:{m}"));
        let s = join(rng, &toks);
        check_input(ctx, &s, "one-token-mutants", &mut seen);
    });
    ctx.cases("values-annotated-with-a-matching-type", 0.06, |ctx, rng| {
        let n = 1 + rng.usize(2);
        let mut pairs: Vec<(String, String)> = Vec::new();
        for _ in 0..n {
            let d = 1 + rng.usize(3);
            pairs.push(typed_value(rng, d));
        }
        let annotated: Vec<String> = pairs.iter().map(|(t, v)| format!("{v} : {t}")).collect();
        let s = match rng.below(5) {
            0 => annotated[0].clone(),
            1 => {
                // the test-script form: a textual argument list checked against a type list
                let vals: Vec<String> = pairs.iter().map(|(_, v)| v.replace('\\', "\\\\").replace('"', "\\\"")).collect();
                let tys: Vec<String> = pairs.iter().map(|(t, _)| t.clone()).collect();
                format!("assert \"({})\" : ({});", vals.join(", "), tys.join(", "))
            }
            _ => format!("({})", annotated.join(", ")),
        };
        check_input(ctx, &s, "values-annotated-with-a-matching-type", &mut seen);
    });
    // the annotation does NOT match: the parser action has to build its error (which renders the value and the type)
    ctx.cases("values-annotated-with-another-type", 0.04, |ctx, rng| {
        let (d1, d2, d3) = (1 + rng.usize(2), 1 + rng.usize(2), 1 + rng.usize(2));
        let (t1, v1) = typed_value(rng, d1);
        let (t2, v2) = typed_value(rng, d2);
        let (t3, _) = typed_value(rng, d3);
        let inner = match rng.below(6) {
            0 => format!("vec {{ {v1} : {t1}; {v2} : {t2} }}"),
            1 => format!("vec {{ {v1} : {t1}; {v2} }}"),
            2 => format!("opt ({v1} : {t1})"),
            3 => format!("record {{ a = {v1} : {t1}; b = {v2} : {t2} }}"),
            4 => format!("variant {{ a = {v1} : {t1} }}"),
            _ => format!("{v1} : {t1}"),
        };
        let ann = match rng.below(4) {
            0 => t3,
            1 => format!("vec {t2}"),
            2 => "nat".to_string(),
            _ => format!("opt {t1}"),
        };
        let s = match rng.below(3) {
            0 => format!("({inner} : {ann})"),
            1 => format!("(({inner}) : {ann}, {v2})"),
            _ => format!("({inner})"),
        };
        check_input(ctx, &s, "values-annotated-with-another-type", &mut seen);
    });
    ctx.cases("boundary-numerals", 0.1, |ctx, rng| {
        let s = numeral_templates(rng);
        check_input(ctx, &s, "boundary-numerals", &mut seen);
    });
    ctx.cases("escapes", 0.12, |ctx, rng| {
        let s = escape_templates(rng);
        check_input(ctx, &s, "escapes", &mut seen);
    });
    ctx.cases("unterminated-and-comments", 0.05, |ctx, rng| {
        let s = unterminated(rng);
        check_input(ctx, &s, "unterminated-and-comments", &mut seen);
    });
    ctx.cases("deep-nesting", 0.04, |ctx, rng| {
        let s = deep(rng);
        check_input(ctx, &s, "deep-nesting", &mut seen);
    });
    ctx.cases("character-mutants", 0.03, |ctx, rng| {
        let kind = rng.below(7);
        let toks = sentence(rng, kind);
        let s = join(rng, &toks);
        let mut cs: Vec<char> = s.chars().collect();
        for _ in 0..1 + rng.usize(3) {
            if cs.is_empty() {
                break;
            }
            let i = rng.usize(cs.len());
            match rng.below(3) {
                0 => {
                    cs.remove(i);
                }
                1 => cs.insert(i, gen_char(rng)),
                _ => cs[i] = *rng.pick(&['"', '\\', '0', 'x', 'X', '_', '.', 'e', '-', '{', '}', '(', ')', ';', ':', '=', '/', '*', 'é']),
            }
        }
        let s: String = cs.into_iter().collect();
        check_input(ctx, &s, "character-mutants", &mut seen);
    });
}
