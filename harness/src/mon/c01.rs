//! C01 — native encode/decode round-trip is the identity, whatever ran before on the thread.
use crate::corpus::registry::{self as reg, DecOut, RtOut, RtStatus};
use crate::ctx::{hex, on_thread, Ctx};
use crate::gen::hostile;
use crate::model::wire::decode;
use crate::rng::{hash_str, Rng};
use candid::DecoderConfig;
use serde_json::json;

#[derive(Clone, Debug)]
enum Op {
    Derive(usize),
    RoundTrip(usize, u64),
    EncodeOnly(usize, u64, usize),
    FailedDecode(usize, u64),
    NewBuilder,
    Untyped(usize, u64),
    DecodeForeign(usize, usize, u64),
}

fn gen_history(rng: &mut Rng, n_types: usize) -> Vec<Op> {
    let n = match rng.below(4) {
        0 => 0,
        1 => 1 + rng.usize(2),
        _ => 1 + rng.usize(12),
    };
    (0..n)
        .map(|_| {
            let j = rng.usize(n_types);
            match rng.below(8) {
                0 => Op::Derive(j),
                1 | 2 => Op::RoundTrip(j, rng.next()),
                3 => Op::EncodeOnly(j, rng.next(), 1 + rng.usize(3)),
                4 => Op::FailedDecode(j, rng.next()),
                5 => Op::NewBuilder,
                6 => Op::Untyped(j, rng.next()),
                _ => Op::DecodeForeign(j, rng.usize(n_types), rng.next()),
            }
        })
        .collect()
}

/// history operations on hostile bytes are metered: unmetered decoding is unbounded by design
fn quota() -> DecoderConfig {
    let mut c = DecoderConfig::new();
    c.set_decoding_quota(200_000);
    c
}

fn run_history(ops: &[Op]) {
    for op in ops {
        match op {
            Op::Derive(j) => {
                reg::with(*j, |t| {
                    let _ = crate::ctx::catch(|| t.ty());
                });
            }
            Op::RoundTrip(j, s) => {
                reg::with(*j, |t| {
                    let _ = t.roundtrip(&mut Rng::new(*s), 12);
                });
            }
            Op::EncodeOnly(j, s, n) => {
                reg::with(*j, |t| {
                    let _ = t.encode_gen(&mut Rng::new(*s), 12, *n);
                });
            }
            Op::FailedDecode(j, s) => {
                let mut r = Rng::new(*s);
                let bytes = reg::with(*j, |t| t.encode_gen(&mut r, 12, 1)).map(|x| x.0).unwrap_or_default();
                let bad = hostile::mutate(&mut r, &bytes);
                reg::with(*j, |t| {
                    let _ = t.decode(&bad, &quota());
                });
            }
            Op::NewBuilder => {
                let _ = candid::ser::IDLBuilder::new();
            }
            Op::Untyped(j, s) => {
                let bytes = reg::with(*j, |t| t.encode_gen(&mut Rng::new(*s), 12, 2)).map(|x| x.0).unwrap_or_default();
                let _ = crate::ctx::catch(|| candid::IDLArgs::from_bytes_with_config(&bytes, &quota()));
            }
            Op::DecodeForeign(j, k, s) => {
                // a message of type j decoded at type k (usually fails half-way)
                let bytes = reg::with(*j, |t| t.encode_gen(&mut Rng::new(*s), 12, 1)).map(|x| x.0).unwrap_or_default();
                reg::with(*k, |t| {
                    let _ = t.decode(&bytes, &quota());
                });
            }
        }
    }
}

fn status_str(o: &RtOut) -> String {
    match &o.status {
        RtStatus::Ok => "ok".into(),
        RtStatus::EncodeErr(e) => format!("encode-error: {}", e.lines().next().unwrap_or("")),
        RtStatus::DecodeErr(e) => format!("decode-error: {}", e.lines().next().unwrap_or("")),
        RtStatus::Mismatch => "decoded value differs".into(),
        RtStatus::Leftover(e) => format!("leftover: {}", e.lines().next().unwrap_or("")),
        RtStatus::Panic(p) => format!("panic at {}: {}", p.location, p.message.lines().next().unwrap_or("")),
    }
}
fn status_class(o: &RtOut) -> &'static str {
    match &o.status {
        RtStatus::Ok => "ok",
        RtStatus::EncodeErr(_) => "encode-error",
        RtStatus::DecodeErr(_) => "decode-error",
        RtStatus::Mismatch => "roundtrip-mismatch",
        RtStatus::Leftover(_) => "leftover",
        RtStatus::Panic(_) => "panic",
    }
}

fn sort_model(v: &crate::model::RValue) -> crate::model::RValue {
    use crate::model::RValue;
    match v {
        RValue::Vec(xs) => {
            let mut ys: Vec<RValue> = xs.iter().map(sort_model).collect();
            ys.sort_by_key(|y| y.to_string());
            RValue::Vec(ys)
        }
        RValue::Opt(x) => RValue::opt(sort_model(x)),
        RValue::Record(fs) => RValue::Record(fs.iter().map(|(i, x)| (*i, sort_model(x))).collect()),
        RValue::Variant(i, x) => RValue::Variant(*i, Box::new(sort_model(x))),
        x => x.clone(),
    }
}

pub fn run(ctx: &mut Ctx) {
    let n_types = reg::len();
    ctx.stats
        .extra
        .insert("corpus_types".into(), json!(n_types));
    // several values of different types in ONE message, read back argument by argument on ONE deserializer: what a
    // container's specialised path (primitive vectors, big-number vectors, text-keyed maps ...) leaves behind in the
    // decoder must not reach the sibling that follows it
    ctx.cases("multi-argument-roundtrip", 0.15, |ctx, rng| {
        let nargs = 2 + rng.usize(3);
        let tys: Vec<usize> = (0..nargs).map(|_| rng.usize(n_types)).collect();
        let seed = rng.next();
        let tys2 = tys.clone();
        let r = on_thread(32 << 20, move || -> Result<(Vec<u8>, Vec<crate::model::RValue>, Vec<Result<crate::model::RValue, String>>, bool), String> {
            let mut b = candid::ser::IDLBuilder::new();
            let mut r2 = Rng::new(seed);
            let mut models = Vec::new();
            for i in &tys2 {
                models.push(reg::with(*i, |t| t.arg_into(&mut b, &mut r2, 10))?);
            }
            let bytes = b.serialize_to_vec().map_err(|e| format!("error|{e}"))?;
            let mut de = candid::de::IDLDeserialize::new(&bytes).map_err(|e| format!("error|{e}"))?;
            let mut got = Vec::new();
            for i in &tys2 {
                match reg::with(*i, |t| t.get_from(&mut de)) {
                    Ok(r) => got.push(r),
                    Err(p) => return Err(format!("panic|{}", p.sig())),
                }
            }
            let done = de.is_done() && de.done().is_ok();
            Ok((bytes, models, got, done))
        });
        let names: Vec<String> = tys.iter().map(|i| reg::with(*i, |t| t.name())).collect();
        let input = |bytes: &[u8]| json!({"types": names, "value_seed": seed, "bytes": hex(bytes)});
        match r {
            Err(p) => ctx.violation(&format!("panic-outside-catch|multi-argument|{}", p.location), &p.message, input(&[])),
            Ok(Err(e)) => {
                if e.starts_with("panic|") {
                    ctx.violation(&format!("multi-argument|{e}"), &e, input(&[]));
                } else {
                    ctx.count("excluded:multi-argument-encode-error");
                }
            }
            Ok(Ok((bytes, models, got, done))) => {
                for (k, (m, g)) in models.iter().zip(got.iter()).enumerate() {
                    let hashed = names[k].contains("Hash") || names[k].contains("BinaryHeap");
                    match g {
                        Err(e) => {
                            ctx.violation(
                                &format!("multi-argument|decode-error|after:{}", names[..k].last().map(|n| n.split('<').next().unwrap_or("")).unwrap_or("-")),
                                &format!("argument {k} ({}) fails to decode after its siblings: {}", names[k], e.lines().next().unwrap_or("")),
                                input(&bytes),
                            );
                            return;
                        }
                        Ok(v) => {
                            let same = if hashed { sort_model(v) == sort_model(m) } else { v == m };
                            if !same {
                                ctx.violation(
                                    &format!("multi-argument|roundtrip-mismatch|after:{}", names[..k].last().map(|n| n.split('<').next().unwrap_or("")).unwrap_or("-")),
                                    &format!("argument {k} ({}): encoded {} decoded {}", names[k], m.to_string().chars().take(300).collect::<String>(), v.to_string().chars().take(300).collect::<String>()),
                                    input(&bytes),
                                );
                                return;
                            }
                        }
                    }
                }
                if !done {
                    ctx.violation("multi-argument|leftover", "input left over after reading every argument at its own type", input(&bytes));
                    return;
                }
                ctx.count("agree:multi-argument");
                ctx.nontrivial(hash_str(&format!("multi|{names:?}")));
            }
        }
    });
    ctx.cases("roundtrip-with-history", 0.85, |ctx, rng| {
        let i = rng.usize(n_types);
        let seed = rng.next();
        let fuel = *rng.pick(&[1i64, 6, 20, 60]);
        let hist = gen_history(rng, n_types);
        let (name, kind) = reg::with(i, |t| (t.name(), t.kind()));
        // fresh thread, empty history
        let base = on_thread(32 << 20, move || reg::with(i, |t| t.roundtrip(&mut Rng::new(seed), fuel)));
        // fresh thread, history first
        let h2 = hist.clone();
        let probe = on_thread(32 << 20, move || {
            run_history(&h2);
            reg::with(i, |t| t.roundtrip(&mut Rng::new(seed), fuel))
        });
        let (base, probe) = match (base, probe) {
            (Ok(b), Ok(p)) => (b, p),
            (Err(p), _) | (_, Err(p)) => {
                ctx.violation(
                    &format!("panic-outside-catch|{name}|{}", p.location),
                    &p.message,
                    json!({"type": name, "history": format!("{hist:?}")}),
                );
                return;
            }
        };
        ctx.count(&format!("cover:kind:{kind}"));
        let input = |o: &RtOut| {
            json!({
                "type": name, "value_seed": seed, "fuel": fuel,
                "value": o.model.to_string().chars().take(600).collect::<String>(),
                "decoded": o.decoded_model.as_ref().map(|m| m.to_string().chars().take(600).collect::<String>()),
                "bytes": hex(&o.bytes), "history": format!("{hist:?}"),
            })
        };
        if !matches!(base.status, RtStatus::Ok) {
            ctx.violation(
                &format!("{}|{name}", status_class(&base)),
                &format!("round-trip in a fresh thread: {}", status_str(&base)),
                input(&base),
            );
        }
        if !matches!(probe.status, RtStatus::Ok) && status_class(&probe) != status_class(&base) {
            ctx.violation(
                &format!("after-history|{}|{name}", status_class(&probe)),
                &format!(
                    "round-trip after a history of {} calls: {} (fresh thread: {})",
                    hist.len(),
                    status_str(&probe),
                    status_str(&base)
                ),
                input(&probe),
            );
        }
        // hash-based containers iterate in a per-instance random order: their bytes are compared by meaning only
        let hashed = name.contains("HashMap") || name.contains("HashSet");
        if probe.bytes != base.bytes && !hashed {
            // the encoding may legitimately differ only in ... nothing: same value, same type, same thread-state-free result
            let semantically_same = match (decode(&probe.bytes), decode(&base.bytes)) {
                (Ok(a), Ok(b)) => a.values == b.values,
                _ => false,
            };
            ctx.violation(
                &format!(
                    "history-dependent-bytes|{}|{name}",
                    if semantically_same { "same-meaning" } else { "different-meaning" }
                ),
                "the same value of the same type encoded to different bytes depending on earlier calls on the thread",
                json!({"type": name, "fresh": hex(&base.bytes), "after_history": hex(&probe.bytes), "history": format!("{hist:?}")}),
            );
        }
        let nonempty = match &base.model {
            crate::model::RValue::Vec(v) => !v.is_empty(),
            crate::model::RValue::Null => false,
            _ => true,
        };
        if nonempty {
            let shape_h: Vec<&'static str> = hist
                .iter()
                .map(|o| match o {
                    Op::Derive(_) => "d",
                    Op::RoundTrip(..) => "r",
                    Op::EncodeOnly(..) => "e",
                    Op::FailedDecode(..) => "f",
                    Op::NewBuilder => "n",
                    Op::Untyped(..) => "u",
                    Op::DecodeForeign(..) => "x",
                })
                .collect();
            ctx.nontrivial(hash_str(&format!("{name}|{}|{}", base.bytes.len(), shape_h.concat())));
        }
        ctx.sample(|| input(&base));
    });
    let _ = DecOut::Err(String::new());
}
